/-
  Hs.Lemmas.NsAssoc — the association / implementation / relationship queries of Hs.Model.NsAssoc against the
  specification graph of Hs.Lemmas.NsGraph, for EVERY defs grid.

  * `makeX` is consistent: the taxonomy model sees exactly the projection of the full defs
    (`makeX_defs`, `getX_map`), so every theorem of C13 about `make` applies to `(makeX rows).ns`.
  * `associations`: a def that is not an association, or is unknown, has none; a plain association lists
    the defined Symbol items of the parent's tag; a computed one (`tags`) is the defs that name, under the
    reciprocal tag, the parent or one of its transitive supertypes.
  * `implementation`: the defined non-feature parts of the name, and the `mandatory` defs among their
    transitive supertypes.
  * `entityCandidates`: every candidate is a reflected def that inherits from `entity`, and is most specific.
  * `hasRelationship`: never diverges once the loop fuel exceeds the number of records; false for an unknown
    name and for a def that does not inherit from `relationship`.
-/
import Hs.Model.NsAssoc
import Hs.Lemmas.NsSpec
import Hs.Lemmas.FilterLoops
namespace Hs.NsA
open Hs Hs.Ns Relation

/-! ### consistency of `makeX` -/

theorem toDef_name (d : DefX) : d.toDef.name = d.name := rfl

theorem upsertX_map (d : DefX) : ∀ g : DefsX, (upsertX d g).map DefX.toDef = upsert d.toDef (g.map DefX.toDef)
  | [] => rfl
  | e :: g => by
    simp only [upsertX, List.map_cons, upsert, toDef_name]
    by_cases h : e.name = d.name
    · simp [h]
    · simp [h, upsertX_map d g]

theorem rowStepX_map (g : DefsX) (r : RowX) :
    (rowStepX g r).map DefX.toDef = rowStep (g.map DefX.toDef) r.toRow := by
  unfold rowStepX rowStep
  cases hn : r.name with
  | none => simp [RowX.toRow, hn]
  | some n =>
    simp only [RowX.toRow, hn]
    rw [upsertX_map]
    rfl

theorem foldl_rowStepX_map (rows : List RowX) : ∀ g : DefsX,
    (rows.foldl rowStepX g).map DefX.toDef = (rows.map RowX.toRow).foldl rowStep (g.map DefX.toDef) := by
  induction rows with
  | nil => intro g; rfl
  | cons r rows ih =>
    intro g
    simp only [List.foldl_cons, List.map_cons]
    rw [ih, rowStepX_map]

/-- the taxonomy model of `makeX` is built from exactly the projection of the full defs -/
theorem mkDefsX_map (rows : List RowX) : (mkDefsX rows).map DefX.toDef = mkDefs (rows.map RowX.toRow) := by
  unfold mkDefsX mkDefs
  exact foldl_rowStepX_map rows []

theorem makeX_defs (rows : List RowX) : (makeX rows).ns.defs = (makeX rows).xd.map DefX.toDef := by
  simp only [makeX, make]
  exact (mkDefsX_map rows).symm

theorem getX_map (g : DefsX) (s : Name) : Ns.get (g.map DefX.toDef) s = (getX g s).map DefX.toDef := by
  induction g with
  | nil => rfl
  | cons e g ih =>
    unfold Ns.get getX at *
    simp only [List.map_cons, List.find?_cons, toDef_name]
    by_cases h : e.name = s
    · simp [h]
    · simp [h, ih]

/-- a symbol is a def of the taxonomy model iff the full defs have it -/
theorem defined_iff_getX (rows : List RowX) (s : Name) :
    defined (makeX rows).ns.defs s = (getX (makeX rows).xd s).isSome := by
  unfold defined
  rw [makeX_defs, getX_map]
  cases getX (makeX rows).xd s <;> rfl

theorem getX_some {g : DefsX} {s : Name} {d : DefX} (h : getX g s = some d) : d ∈ g ∧ d.name = s := by
  unfold getX at h
  exact ⟨List.mem_of_find?_eq_some h, by simpa using List.find?_some h⟩

/-! ### `definedSyms` -/

theorem mem_definedSyms (g : Defs) (l : List (Option Name)) (n : Name) :
    n ∈ definedSyms g l ↔ some n ∈ l ∧ defined g n = true := by
  unfold definedSyms
  simp only [List.mem_filterMap]
  constructor
  · rintro ⟨it, hit, h⟩
    cases it with
    | none => simp at h
    | some s =>
      by_cases hd : defined g s = true
      · simp only [hd, if_true, Option.some.injEq] at h
        subst h
        exact ⟨hit, hd⟩
      · simp [hd] at h
  · rintro ⟨h1, h2⟩
    exact ⟨some n, h1, by simp [h2]⟩

/-! ### `associations` -/

/-- an unknown association has no defs -/
theorem associations_unknown (fuel : Nat) (x : NsX) (p a : Name) (h : getX x.xd a = none) :
    associations fuel x p a = .ok [] := by
  unfold associations; rw [h]

/-- a def that does not list `association` in its `is` list is no association -/
theorem associations_not_association (fuel : Nat) (x : NsX) (p a : Name) (ad : DefX)
    (h : getX x.xd a = some ad) (hn : isAssoc ad = false) : associations fuel x p a = .ok [] := by
  unfold associations; rw [h]; simp [hn]

/-- a plain (not computed) association: the defined Symbol items of the parent's tag of that name, in order -/
theorem associations_plain (fuel : Nat) (x : NsX) (p a : Name) (ad : DefX)
    (h : getX x.xd a = some ad) (ha : isAssoc ad = true) (hc : ad.has nComputed = false) :
    ∃ res, associations fuel x p a = .ok res ∧
      ∀ n, n ∈ res ↔ ∃ pd l, getX x.xd p = some pd ∧ pd.getList a = some l ∧ some n ∈ l ∧ defined x.ns.defs n = true := by
  unfold associations
  rw [h]
  simp only [ha, hc, Bool.not_true, Bool.not_false, if_true, Bool.false_eq_true, if_false]
  cases hp : getX x.xd p with
  | none => exact ⟨[], rfl, fun n => by simp⟩
  | some pd =>
    dsimp only
    cases hl : pd.getList a with
    | none => exact ⟨[], rfl, fun n => by simp [hl]⟩
    | some l =>
      dsimp only
      refine ⟨_, rfl, fun n => ?_⟩
      rw [mem_definedSyms]
      constructor
      · rintro ⟨h1, h2⟩; exact ⟨pd, l, rfl, hl, h1, h2⟩
      · rintro ⟨pd', l', hpd, hl', h1, h2⟩
        cases hpd
        rw [hl] at hl'
        cases hl'
        exact ⟨h1, h2⟩

/-- `find_reciprocal_associations` on a namespace built by `makeX`: the defs that name, under the tag `r`, a def
the parent is or inherits from -/
theorem mem_findReciprocal (rows : List RowX) (fuel : Nat) (hf : fuelFor (makeX rows).ns.defs ≤ fuel)
    (p r : Name) :
    ∃ res, findReciprocal fuel (makeX rows) p r = .ok res ∧
      ∀ n, n ∈ res ↔ ∃ d l t, d ∈ (makeX rows).xd ∧ d.name = n ∧ d.tag r = some (.list l) ∧ some t ∈ l ∧
        defined (makeX rows).ns.defs p = true ∧ ReflTransGen (Edge (makeX rows).ns.defs) p t := by
  have hns : (makeX rows).ns = make (rows.map RowX.toRow) := rfl
  obtain ⟨inh, h1, h2⟩ := inheritance_spec (rows.map RowX.toRow) fuel (by rw [← hns]; exact hf) p
  rw [← hns] at h1 h2
  unfold findReciprocal
  rw [h1]
  refine ⟨_, rfl, fun n => ?_⟩
  simp only [List.mem_map, List.mem_filter]
  constructor
  · rintro ⟨d, ⟨hd, hm⟩, rfl⟩
    cases ht : d.tag r with
    | none => simp [ht] at hm
    | some tv =>
      cases tv with
      | list l =>
        simp only [ht, List.any_eq_true] at hm
        obtain ⟨t, ht1, ht2⟩ := hm
        rw [mem_definedSyms] at ht1
        rw [List.contains_iff_mem, h2 t] at ht2
        exact ⟨d, l, t, hd, rfl, ht, ht1.1, ht2.1, ht2.2⟩
      | marker => simp [ht] at hm
      | sym s => simp [ht] at hm
      | other => simp [ht] at hm
  · rintro ⟨d, l, t, hd, rfl, ht, htl, hp, hpt⟩
    refine ⟨d, ⟨hd, ?_⟩, rfl⟩
    simp only [ht, List.any_eq_true]
    have htd : defined (makeX rows).ns.defs t = true := edge_target_defined hpt hp
    exact ⟨t, (mem_definedSyms _ _ _).2 ⟨htl, htd⟩, by rw [List.contains_iff_mem, h2 t]; exact ⟨hp, hpt⟩⟩

/-- a computed association (`tags` in the standard library: `computedFromReciprocal`, `reciprocalOf: tagOn`):
the defs that name the parent or one of its transitive supertypes under the reciprocal tag -/
theorem associations_computed (rows : List RowX) (fuel : Nat) (hf : fuelFor (makeX rows).ns.defs ≤ fuel)
    (p a r : Name) (ad : DefX)
    (h : getX (makeX rows).xd a = some ad) (ha : isAssoc ad = true) (hc : ad.has nComputed = true)
    (hr : ad.getSymbol nReciprocalOf = some r) (hrd : defined (makeX rows).ns.defs r = true) :
    ∃ res, associations fuel (makeX rows) p a = .ok res ∧
      ∀ n, n ∈ res ↔ ∃ d l t, d ∈ (makeX rows).xd ∧ d.name = n ∧ d.tag r = some (.list l) ∧ some t ∈ l ∧
        defined (makeX rows).ns.defs p = true ∧ ReflTransGen (Edge (makeX rows).ns.defs) p t := by
  obtain ⟨res, h1, h2⟩ := mem_findReciprocal rows fuel hf p r
  refine ⟨res, ?_, h2⟩
  unfold associations
  rw [h]
  simp only [ha, hc, hr, hrd, Bool.not_true, Bool.false_eq_true, if_false, if_true]
  exact h1

/-- a computed association whose reciprocal is missing or not a def has no defs -/
theorem associations_computed_no_reciprocal (fuel : Nat) (x : NsX) (p a : Name) (ad : DefX)
    (h : getX x.xd a = some ad) (ha : isAssoc ad = true) (hc : ad.has nComputed = true)
    (hr : ∀ r, ad.getSymbol nReciprocalOf = some r → defined x.ns.defs r = false) :
    associations fuel x p a = .ok [] := by
  unfold associations
  rw [h]
  simp only [ha, hc, Bool.not_true, Bool.false_eq_true, if_false]
  cases hs : ad.getSymbol nReciprocalOf with
  | none => rfl
  | some r => simp [hr r hs]

/-! ### `implementation` -/

theorem supersOfAll_spec (rows : List Row) (fuel : Nat) (hf : fuelFor (make rows).defs ≤ fuel) :
    ∀ (ds acc : List Name), ∃ res, supersOfAll fuel (make rows) ds acc = .ok res ∧
      ∀ n, n ∈ res ↔ n ∈ acc ∨ ∃ b, b ∈ ds ∧ TransGen (Edge (make rows).defs) b n := by
  intro ds
  induction ds with
  | nil => intro acc; exact ⟨acc, rfl, fun n => by simp⟩
  | cons d ds ih =>
    intro acc
    obtain ⟨all, h1, _, h3⟩ := allSupertypesOf_spec rows fuel hf d
    obtain ⟨res, h4, h5⟩ := ih (extendSet acc all)
    refine ⟨res, ?_, fun n => ?_⟩
    · simp only [supersOfAll, h1]; exact h4
    · rw [h5 n, mem_extendSet, h3 n]
      constructor
      · rintro ((h | h) | ⟨b, hb, h⟩)
        · exact Or.inl h
        · exact Or.inr ⟨d, List.mem_cons_self, h⟩
        · exact Or.inr ⟨b, List.mem_cons_of_mem _ hb, h⟩
      · rintro (h | ⟨b, hb, h⟩)
        · exact Or.inl (Or.inl h)
        · rcases List.mem_cons.1 hb with rfl | hb'
          · exact Or.inl (Or.inr h)
          · exact Or.inr ⟨b, hb', h⟩

/-- `implementation(s)`: first the parts of `s` that are defs and not feature keys; then every `mandatory` def
that is a transitive supertype of one of them -/
theorem implementation_spec (rows : List RowX) (fuel : Nat) (hf : fuelFor (makeX rows).ns.defs ≤ fuel) (s : Name) :
    ∃ base mand, implementation fuel (makeX rows) s = .ok (base, mand) ∧
      base = (conjunctsDefs (makeX rows).ns s).filter (fun n => !isFeature n) ∧
      ∀ n, n ∈ mand ↔ hasMarkerX (makeX rows).xd n nMandatory = true ∧
        ∃ b, b ∈ base ∧ TransGen (Edge (makeX rows).ns.defs) b n := by
  have hns : (makeX rows).ns = make (rows.map RowX.toRow) := rfl
  obtain ⟨sup, h1, h2⟩ := supersOfAll_spec (rows.map RowX.toRow) fuel (by rw [← hns]; exact hf)
    ((conjunctsDefs (makeX rows).ns s).filter (fun n => !isFeature n)) []
  rw [← hns] at h1 h2
  refine ⟨_, sup.filter (fun n => hasMarkerX (makeX rows).xd n nMandatory), ?_, rfl, fun n => ?_⟩
  · simp only [implementation, h1]
  · rw [List.mem_filter, h2 n]
    simp only [List.not_mem_nil, false_or]
    exact ⟨fun h => ⟨h.2, h.1⟩, fun h => ⟨h.2, h.1⟩⟩

/-! ### the root tests -/

/-- `fits_marker` / `fits_val` / `fits_choice` / `fits_entity` are `fits` against the named root -/
theorem fitsRoot_spec (rows : List RowX) (fuel : Nat) (hf : fuelFor (makeX rows).ns.defs ≤ fuel) (w : Nat) (s : Name) :
    ∃ v, fitsRoot fuel (makeX rows) w s = .ok v ∧
      (v = true ↔ (defined (makeX rows).ns.defs s = true ∧ defined (makeX rows).ns.defs (rootName w) = true ∧
        ReflTransGen (Edge (makeX rows).ns.defs) s (rootName w))) := by
  have hns : (makeX rows).ns = make (rows.map RowX.toRow) := rfl
  have := fits_spec (rows.map RowX.toRow) fuel (by rw [← hns]; exact hf) s (rootName w)
  rw [← hns] at this
  exact this

/-- `fitsB` is `fits` (which always answers with enough fuel) -/
theorem fitsB_spec (rows : List RowX) (fuel : Nat) (hf : fuelFor (makeX rows).ns.defs ≤ fuel) (a b : Name) :
    fits fuel (makeX rows).ns a b = .ok (fitsB fuel (makeX rows).ns a b) := by
  have hns : (makeX rows).ns = make (rows.map RowX.toRow) := rfl
  obtain ⟨v, hv, _⟩ := fits_spec (rows.map RowX.toRow) fuel (by rw [← hns]; exact hf) a b
  rw [← hns] at hv
  unfold fitsB
  rw [hv]

/-! ### `compute_entity_type` -/

theorem entityTypes_spec (rows : List Row) (fuel : Nat) (hf : fuelFor (make rows).defs ≤ fuel) :
    ∀ ds : List Name, ∃ tw, entityTypes fuel (make rows) ds = .ok tw ∧
      ∀ d inh, (d, inh) ∈ tw ↔ d ∈ ds ∧ inheritance fuel (make rows) d = .ok inh ∧ nEntity ∈ inh := by
  intro ds
  induction ds with
  | nil => exact ⟨[], rfl, fun d inh => by simp⟩
  | cons e ds ih =>
    obtain ⟨tw, h1, h2⟩ := ih
    obtain ⟨inh, hi, _⟩ := inheritance_spec rows fuel hf e
    by_cases hc : inh.contains nEntity = true
    · have hm : nEntity ∈ inh := List.contains_iff_mem.1 hc
      refine ⟨(e, inh) :: tw, by simp [entityTypes, hi, h1, hm], fun d i => ?_⟩
      rw [List.mem_cons, h2 d i]
      constructor
      · rintro (h | ⟨h, h', h''⟩)
        · cases h
          exact ⟨List.mem_cons_self, hi, List.contains_iff_mem.1 hc⟩
        · exact ⟨List.mem_cons_of_mem _ h, h', h''⟩
      · rintro ⟨h, h', h''⟩
        rcases List.mem_cons.1 h with rfl | hd
        · rw [hi] at h'
          cases h'
          exact Or.inl rfl
        · exact Or.inr ⟨hd, h', h''⟩
    · have hm : ¬ nEntity ∈ inh := fun h => hc (List.contains_iff_mem.2 h)
      refine ⟨tw, by simp [entityTypes, hi, h1, hm], fun d i => ?_⟩
      rw [h2 d i]
      constructor
      · rintro ⟨h, h', h''⟩; exact ⟨List.mem_cons_of_mem _ h, h', h''⟩
      · rintro ⟨h, h', h''⟩
        rcases List.mem_cons.1 h with rfl | hd
        · rw [hi] at h'
          cases h'
          exact absurd (List.contains_iff_mem.2 h'') hc
        · exact ⟨hd, h', h''⟩

/-- every candidate for the entity type is a reflected def that is, or inherits from, `entity` -/
theorem entityCandidates_sound (rows : List Row) (fuel : Nat) (hf : fuelFor (make rows).defs ≤ fuel)
    (reflected : List Name) :
    ∃ cands, entityCandidates fuel (make rows) reflected = .ok cands ∧
      ∀ c, c ∈ cands → c ∈ reflected ∧ defined (make rows).defs nEntity = true ∧
        ReflTransGen (Edge (make rows).defs) c nEntity := by
  unfold entityCandidates
  by_cases he : defined (make rows).defs nEntity = true
  · simp only [he, Bool.not_true, Bool.false_eq_true, if_false]
    obtain ⟨tw, h1, h2⟩ := entityTypes_spec rows fuel hf (extendSet [] reflected)
    rw [h1]
    have key : ∀ c i, (c, i) ∈ tw → c ∈ reflected ∧ defined (make rows).defs nEntity = true ∧
        ReflTransGen (Edge (make rows).defs) c nEntity := by
      intro c i hci
      obtain ⟨hc1, hc2, hc3⟩ := (h2 c i).1 hci
      rw [mem_extendSet] at hc1
      obtain ⟨inh, hi, hspec⟩ := inheritance_spec rows fuel hf c
      rw [hi] at hc2
      cases hc2
      exact ⟨by simpa using hc1, he, ((hspec nEntity).1 hc3).2⟩
    by_cases hl : tw.length = 1
    · simp only [hl, if_true]
      refine ⟨_, rfl, fun c hc => ?_⟩
      obtain ⟨⟨c', i⟩, hm, rfl⟩ := List.mem_map.1 hc
      exact ⟨(key c' i hm).1, trivial, (key c' i hm).2.2⟩
    · simp only [hl, if_false]
      refine ⟨_, rfl, fun c hc => ?_⟩
      obtain ⟨⟨c', i⟩, hm, rfl⟩ := List.mem_map.1 hc
      exact ⟨(key c' i (List.mem_filter.1 hm).1).1, trivial, (key c' i (List.mem_filter.1 hm).1).2.2⟩
  · simp only [he]
    exact ⟨[], rfl, fun c hc => by simp at hc⟩

/-! ### `has_relationship` -/

/-- an unknown relationship name: false -/
theorem hasRelationship_unknown (fuel lf : Nat) (x : NsX) (recs : List RecX) (rel : Name) (term : Option Name)
    (target : Option FLoops.RefId) (s : RecX) (h : getX x.xd rel = none) :
    hasRelationship fuel lf x recs rel term target s = .ok false := by
  unfold hasRelationship; rw [h]

theorem recIds_view (fuel : Nat) (x : NsX) (term : Option Name) (rel : Name) (recip : Option Name) (recs : List RecX) :
    (FLoops.recIds (recs.map (viewRec fuel x term rel recip))).length ≤ recs.length := by
  unfold FLoops.recIds
  refine Nat.le_trans (List.length_filterMap_le _ _) ?_
  simp

/-- the `'search` loop answers or runs out of fuel: it has no error, panic or depth outcome -/
theorem relLoop_ok_or_diverge (recs : List FLoops.Rec) (tr hr : Bool) :
    ∀ (fuel : Nat) (s : FLoops.Rec) (q : List FLoops.RefId) (rt : Option FLoops.RefId),
      FLoops.relLoop recs tr hr fuel s q rt ≠ .err ∧ FLoops.relLoop recs tr hr fuel s q rt ≠ .panic ∧
      FLoops.relLoop recs tr hr fuel s q rt ≠ .depth := by
  intro fuel
  induction fuel with
  | zero => intro s q rt; simp [FLoops.relLoop]
  | succ n ih =>
    intro s q rt
    unfold FLoops.relLoop
    split
    · simp
    · simp
    · exact ih _ _ _

/-- `has_relationship` on a namespace built by `makeX` always answers: the walk over the resolver's records
ends within (number of records + 1) passes, whatever refs they hold (cycles included) -/
theorem hasRelationship_total (rows : List RowX) (fuel : Nat) (hf : fuelFor (makeX rows).ns.defs ≤ fuel)
    (recs : List RecX) (lf : Nat) (hlf : recs.length < lf) (rel : Name) (term : Option Name)
    (target : Option FLoops.RefId) (s : RecX) :
    ∃ b, hasRelationship fuel lf (makeX rows) recs rel term target s = .ok b := by
  have hns : (makeX rows).ns = make (rows.map RowX.toRow) := rfl
  unfold hasRelationship
  cases hg : getX (makeX rows).xd rel with
  | none => exact ⟨false, rfl⟩
  | some rd =>
    obtain ⟨inh, hi, _⟩ := inheritance_spec (rows.map RowX.toRow) fuel (by rw [← hns]; exact hf) rel
    rw [← hns] at hi
    simp only [hi]
    unfold FLoops.hasRelationship
    split
    · exact ⟨false, rfl⟩
    · have hnd := FLoops.relLoop_terminates
        (recs.map (viewRec fuel (makeX rows) term rel (rd.getSymbol nReciprocalOf)))
        (rd.hasMarker nTransitive) (rd.getSymbol nReciprocalOf).isSome lf
        (viewRec fuel (makeX rows) term rel (rd.getSymbol nReciprocalOf) s) [] target
        (Nat.lt_of_le_of_lt (Nat.le_trans (FLoops.unvisited_le_length _ _) (recIds_view _ _ _ _ _ _)) hlf)
      generalize hr : FLoops.relLoop _ _ _ lf _ [] target = r at hnd
      cases r with
      | ok b => exact ⟨b, rfl⟩
      | diverge => exact absurd rfl hnd
      | err => exact absurd hr (relLoop_ok_or_diverge _ _ _ _ _ _ _).1
      | panic => exact absurd hr (relLoop_ok_or_diverge _ _ _ _ _ _ _).2.1
      | depth => exact absurd hr (relLoop_ok_or_diverge _ _ _ _ _ _ _).2.2

end Hs.NsA

namespace Hs.NsA
open Hs Hs.Ns

/-! ### `has_relationship` without a target ref

`rel?` / `rel? ^term` on a record that carries an `id`: no Ref is followed and the reciprocal branch is never
taken (it needs `ref_target == id`), so the answer is a plain scan: some tag's def declares the relationship with a
Symbol that fits the term. -/

theorem relInner_no_target (recs : List FLoops.Rec) (tr hr : Bool) (id : Option FLoops.RefId) (hid : id ≠ none) :
    ∀ (es : List FLoops.Entry) (q : List FLoops.RefId),
      FLoops.relInner recs tr hr id es q none =
        if es.any (fun e => e.rel == FLoops.DefVal.sym true) then FLoops.Step.ret true else FLoops.Step.done := by
  intro es
  induction es with
  | nil => intro q; rfl
  | cons e rest ih =>
    intro q
    have hne : ((none : Option FLoops.RefId) == id) = false := by
      cases id with
      | none => exact absurd rfl hid
      | some _ => rfl
    simp only [FLoops.relInner, hne, Bool.and_false, Bool.false_and, Bool.false_eq_true, if_false, List.any_cons]
    split
    · rename_i f hf
      cases f with
      | true => simp [hf]
      | false => simp [hf, ih q]
    · rename_i hns
      have hb : (e.rel == FLoops.DefVal.sym true) = false := by
        cases h : e.rel with
        | absent => rfl
        | other => rfl
        | sym f => exact absurd h (hns f)
      simp [hb, ih q]

/-- `has_relationship(subject, rel, term, None, _)` for a subject with an `id`: true iff `rel` is a def that
inherits from `relationship` and some tag of the subject has a def whose `rel` tag is a Symbol fitting the term -/
theorem hasRelationship_no_target (fuel lf : Nat) (x : NsX) (recs : List RecX) (rel : Name) (term : Option Name)
    (s : RecX) (hid : s.id ≠ none) (rd : DefX) (hg : getX x.xd rel = some rd) (inh : List Name)
    (hi : inheritance fuel x.ns rel = .ok inh) :
    hasRelationship fuel (lf + 1) x recs rel term none s =
      .ok (inh.contains nRelationship && s.tags.any (fun t => defVal fuel x term t.key rel == FLoops.DefVal.sym true)) := by
  unfold hasRelationship
  rw [hg]
  simp only [hi]
  unfold FLoops.hasRelationship
  by_cases hc : inh.contains nRelationship = true
  · simp only [hc, Bool.not_true, Bool.false_eq_true, if_false, Bool.true_and]
    have hview : (viewRec fuel x term rel (rd.getSymbol nReciprocalOf) s).id = s.id := rfl
    simp only [FLoops.relLoop, hview]
    rw [relInner_no_target _ _ _ s.id hid]
    have hany : (viewRec fuel x term rel (rd.getSymbol nReciprocalOf) s).entries.any (fun e => e.rel == FLoops.DefVal.sym true)
        = s.tags.any (fun t => defVal fuel x term t.key rel == FLoops.DefVal.sym true) := by
      simp only [viewRec, List.any_map]
      rfl
    rw [hany]
    cases s.tags.any (fun t => defVal fuel x term t.key rel == FLoops.DefVal.sym true) <;> rfl
  · have hc' : inh.contains nRelationship = false := by simpa using hc
    simp only [hc', Bool.not_false, if_true, Bool.false_and]

end Hs.NsA

namespace Hs.NsA
open Hs Hs.Ns

/-! ### `has_relationship` with a target, for a relationship that is not transitive

`rel? @target` on a record whose own `id` is not the target: the reciprocal branch needs `ref_target == id` and is
never taken, no Ref is followed; the answer is "some tag holds exactly that Ref and its def declares the relationship
with a Symbol that fits the term". -/

theorem relInner_direct (recs : List FLoops.Rec) (hr : Bool) (id : Option FLoops.RefId) (g : FLoops.RefId)
    (hne : (some g == id) = false) :
    ∀ (es : List FLoops.Entry) (q : List FLoops.RefId),
      FLoops.relInner recs false hr id es q (some g) =
        if es.any (fun e => e.rel == FLoops.DefVal.sym true && e.ref == some g) then FLoops.Step.ret true
        else FLoops.Step.done := by
  intro es
  induction es with
  | nil => intro q; rfl
  | cons e rest ih =>
    intro q
    simp only [FLoops.relInner, hne, Bool.and_false, Bool.false_and, Bool.false_eq_true, if_false, List.any_cons,
      Option.isSome_some, Bool.and_true]
    split
    · rename_i f hf
      cases f with
      | false => simp [hf, ih q]
      | true =>
        simp only [hf, if_true, beq_self_eq_true, Bool.true_and]
        by_cases hm : e.ref = some g
        · simp [hm]
        · have h1 : (e.ref == some g) = false := by simpa using hm
          simp only [h1, Bool.and_false, Bool.false_eq_true, if_false, Bool.false_or]
          exact ih q
    · rename_i hns
      have hb : (e.rel == FLoops.DefVal.sym true) = false := by
        cases h : e.rel with
        | absent => rfl
        | other => rfl
        | sym f => exact absurd h (hns f)
      simp [hb, ih q]

/-- `has_relationship(subject, rel, term, Some(target), _)` for a relationship WITHOUT the `transitive` marker and a
subject whose `id` is not the target -/
theorem hasRelationship_direct (fuel lf : Nat) (x : NsX) (recs : List RecX) (rel : Name) (term : Option Name)
    (g : Name) (s : RecX) (hid : (some g == s.id) = false) (rd : DefX) (hg : getX x.xd rel = some rd)
    (htr : rd.hasMarker nTransitive = false) (inh : List Name) (hi : inheritance fuel x.ns rel = .ok inh) :
    hasRelationship fuel (lf + 1) x recs rel term (some g) s =
      .ok (inh.contains nRelationship &&
        s.tags.any (fun t => defVal fuel x term t.key rel == FLoops.DefVal.sym true && t.ref == some g)) := by
  unfold hasRelationship
  rw [hg]
  simp only [hi, htr]
  unfold FLoops.hasRelationship
  by_cases hc : inh.contains nRelationship = true
  · simp only [hc, Bool.not_true, Bool.false_eq_true, if_false, Bool.true_and]
    have hview : (viewRec fuel x term rel (rd.getSymbol nReciprocalOf) s).id = s.id := rfl
    simp only [FLoops.relLoop, hview]
    rw [relInner_direct _ _ s.id g hid]
    have hany : (viewRec fuel x term rel (rd.getSymbol nReciprocalOf) s).entries.any
          (fun e => e.rel == FLoops.DefVal.sym true && e.ref == some g)
        = s.tags.any (fun t => defVal fuel x term t.key rel == FLoops.DefVal.sym true && t.ref == some g) := by
      simp only [viewRec, List.any_map]
      rfl
    rw [hany]
    cases s.tags.any (fun t => defVal fuel x term t.key rel == FLoops.DefVal.sym true && t.ref == some g) <;> rfl
  · have hc' : inh.contains nRelationship = false := by simpa using hc
    simp only [hc', Bool.not_false, if_true, Bool.false_and]

end Hs.NsA

namespace Hs.NsA
open Hs Hs.Ns Relation

/-- with several reflected entity defs, a candidate for the entity type is in no OTHER reflected entity def's
inheritance: it is a most specific one -/
theorem entityCandidates_most_specific (rows : List Row) (fuel : Nat) (hf : fuelFor (make rows).defs ≤ fuel)
    (reflected : List Name) :
    ∃ cands tw, entityCandidates fuel (make rows) reflected = .ok cands ∧
      (defined (make rows).defs nEntity = true → entityTypes fuel (make rows) (extendSet [] reflected) = .ok tw) ∧
      (tw.length ≠ 1 → ∀ c, c ∈ cands → ∀ e inh, (e, inh) ∈ tw → e ≠ c → c ∉ inh) := by
  unfold entityCandidates
  by_cases he : defined (make rows).defs nEntity = true
  · simp only [he, Bool.not_true, Bool.false_eq_true, if_false]
    obtain ⟨tw, h1, _⟩ := entityTypes_spec rows fuel hf (extendSet [] reflected)
    rw [h1]
    by_cases hl : tw.length = 1
    · simp only [hl, if_true]
      exact ⟨_, tw, rfl, fun _ => rfl, fun h => absurd hl h⟩
    · simp only [hl, if_false]
      refine ⟨_, tw, rfl, fun _ => rfl, fun _ c hc e inh hm hne => ?_⟩
      obtain ⟨⟨c', i⟩, hcm, rfl⟩ := List.mem_map.1 hc
      have hf' := (List.mem_filter.1 hcm).2
      simp only [Bool.not_eq_true', List.any_eq_false] at hf'
      have h2 := hf' (e, inh) hm
      intro hcin
      apply h2
      simp only [Bool.and_eq_true, List.contains_iff_mem]
      exact ⟨by simpa using hne, hcin⟩
  · have he' : defined (make rows).defs nEntity = false := by simpa using he
    simp only [he', Bool.not_false, if_true]
    exact ⟨[], [], rfl, fun h => by simp at h, fun _ c hc => by simp at hc⟩

end Hs.NsA

namespace Hs.NsA
open Hs Hs.Ns

/-! ### the indexes built by `make` -/

theorem mem_features (x : NsX) (n : Name) : n ∈ features x ↔ ∃ d, d ∈ x.xd ∧ d.name = n ∧ isFeature n = true := by
  unfold features
  simp only [List.mem_map, List.mem_filter]
  constructor
  · rintro ⟨d, ⟨hd, hf⟩, rfl⟩; exact ⟨d, hd, rfl, hf⟩
  · rintro ⟨d, hd, rfl, hf⟩; exact ⟨d, ⟨hd, hf⟩, rfl⟩

theorem mem_conjuncts (x : NsX) (n : Name) : n ∈ conjuncts x ↔ ∃ d, d ∈ x.xd ∧ d.name = n ∧ isConjunct n = true := by
  unfold conjuncts
  simp only [List.mem_map, List.mem_filter]
  constructor
  · rintro ⟨d, ⟨hd, hf⟩, rfl⟩; exact ⟨d, hd, rfl, hf⟩
  · rintro ⟨d, hd, rfl, hf⟩; exact ⟨d, ⟨hd, hf⟩, rfl⟩

/-- `tag_on_names`: exactly the Symbol items of the `tagOn` lists of all defs, each once -/
theorem mem_tagOnNames (x : NsX) (n : Name) :
    n ∈ tagOnNames x ↔ ∃ d l, d ∈ x.xd ∧ d.getList nTagOn = some l ∧ some n ∈ l := by
  unfold tagOnNames
  rw [mem_extendSet]
  simp only [List.not_mem_nil, false_or, List.mem_flatMap]
  constructor
  · rintro ⟨d, hd, hm⟩
    cases hl : d.getList nTagOn with
    | none => simp [hl] at hm
    | some l =>
      simp only [hl, symItems, List.mem_filterMap, id] at hm
      obtain ⟨it, hit, rfl⟩ := hm
      exact ⟨d, l, hd, hl, hit⟩
  · rintro ⟨d, l, hd, hl, hn⟩
    refine ⟨d, hd, ?_⟩
    simp only [hl, symItems, List.mem_filterMap, id]
    exact ⟨some n, hn, rfl⟩

/-- `tag_on_defs`: one entry per def that has a `tagOn` list, holding the defined Symbol items in list order -/
theorem mem_tagOnDefs (x : NsX) (k : Name) (v : List Name) :
    (k, v) ∈ tagOnDefs x ↔ ∃ d l, d ∈ x.xd ∧ d.name = k ∧ d.getList nTagOn = some l ∧ v = definedSyms x.ns.defs l := by
  unfold tagOnDefs
  simp only [List.mem_filterMap]
  constructor
  · rintro ⟨d, hd, hm⟩
    cases hl : d.getList nTagOn with
    | none => simp [hl] at hm
    | some l =>
      simp only [hl, Option.some.injEq, Prod.mk.injEq] at hm
      exact ⟨d, l, hd, hm.1, hl, hm.2.symm⟩
  · rintro ⟨d, l, hd, rfl, hl, rfl⟩
    exact ⟨d, hd, by simp [hl]⟩

end Hs.NsA
