/-
  Hs.Lemmas.Filter — the coded evaluation (`Hs.Model.Filter`) against the specification
  (`Hs.Model.FilterSpec`): path resolution, comparisons, the wildcard loop, grid filtering.
-/
import Hs.Model.FilterSpec
namespace Hs

/-! ### path resolution -/

theorem Val.asValue_ne_null (v x : Val) (h : v.asValue = some x) : x ≠ .null := by
  cases v <;> simp [Val.asValue] at h <;> subst h <;> simp

theorem Val.asValue_of_not_null (v : Val) (h : v.isNull = false) : v.asValue = some v := by
  cases v <;> simp [Val.asValue, Val.isNull] at h ⊢

theorem lookupSpec_ne_null (deref : List Char → Option Tags) :
    ∀ (p : FPath) (d : Tags) (x : Val), lookupSpec deref d p = some x → x ≠ .null
  | [], d, x, h => by simp [lookupSpec] at h
  | seg :: rest, d, x, h => by
    rw [lookupSpec] at h
    cases hg : d.get? seg with
    | none => simp [hg] at h
    | some v =>
      simp only [hg] at h
      cases rest with
      | nil => exact Val.asValue_ne_null v x h
      | cons s2 r2 =>
        cases v <;> simp only [] at h <;> try (exact absurd h (by simp))
        case dict d' => exact lookupSpec_ne_null deref (s2 :: r2) d' x h
        case ref id dis =>
          cases hd : deref id with
          | none => simp [hd] at h
          | some d' =>
            simp only [hd] at h
            exact lookupSpec_ne_null deref (s2 :: r2) d' x h

/-- the value `resolve_for` hands back for what the specification's look-up finds -/
def orNull : Option Val → Val
  | some v => v
  | none => .null

theorem orNull_isNull (deref : List Char → Option Tags) (d : Tags) (p : FPath) :
    (orNull (lookupSpec deref d p)).isNull = (lookupSpec deref d p).isNone := by
  cases h : lookupSpec deref d p with
  | none => rfl
  | some x =>
    have := lookupSpec_ne_null deref p d x h
    cases x <;> simp [orNull, Val.isNull] at this ⊢

theorem walk_ref (recs : List Tags) (id : List Char) (dis : Option (List Char)) (seg : List Char)
    (rest : FPath) :
    walkPath (recsStep recs) (.ref id dis) (seg :: rest) =
      match recsResolveRef recs id with
      | some d => walkPath (recsStep recs) (.dict d) (seg :: rest)
      | none => .null := by
  rw [walkPath]
  cases h : recsResolveRef recs id with
  | none => simp [recsStep, h, Val.isNull]
  | some d =>
    simp only []
    rw [walkPath]
    simp only [recsStep, h]
    rfl

theorem lookupSpec_nil (deref : List Char → Option Tags) (d : Tags) : lookupSpec deref d [] = none := by
  simp [lookupSpec]
theorem lookupSpec_none (deref : List Char → Option Tags) (d : Tags) (seg : List Char) (rest : FPath)
    (h : d.get? seg = none) : lookupSpec deref d (seg :: rest) = none := by
  rw [lookupSpec]; simp [h]
theorem lookupSpec_last (deref : List Char → Option Tags) (d : Tags) (seg : List Char) (v : Val)
    (h : d.get? seg = some v) : lookupSpec deref d [seg] = v.asValue := by
  rw [lookupSpec]; simp [h]
theorem lookupSpec_dict (deref : List Char → Option Tags) (d : Tags) (seg s2 : List Char) (r2 : FPath)
    (d' : Tags) (h : d.get? seg = some (.dict d')) :
    lookupSpec deref d (seg :: s2 :: r2) = lookupSpec deref d' (s2 :: r2) := by
  rw [lookupSpec]; simp only [h]
theorem lookupSpec_ref (deref : List Char → Option Tags) (d : Tags) (seg s2 : List Char) (r2 : FPath)
    (id : List Char) (dis : Option (List Char)) (h : d.get? seg = some (.ref id dis)) :
    lookupSpec deref d (seg :: s2 :: r2) =
      match deref id with
      | some d' => lookupSpec deref d' (s2 :: r2)
      | none => none := by
  rw [lookupSpec]; simp only [h]; rfl
theorem lookupSpec_other (deref : List Char → Option Tags) (d : Tags) (seg s2 : List Char) (r2 : FPath)
    (v : Val) (h : d.get? seg = some v) (hd : ∀ d', v ≠ .dict d') (hr : ∀ i ds, v ≠ .ref i ds) :
    lookupSpec deref d (seg :: s2 :: r2) = none := by
  rw [lookupSpec]; simp only [h]

theorem walk_dict (recs : List Tags) :
    ∀ (p : FPath) (d : Tags), p ≠ [] →
      walkPath (recsStep recs) (.dict d) p = orNull (lookupSpec (recsResolveRef recs) d p)
  | [], _, h => absurd rfl h
  | seg :: rest, d, _ => by
    cases hg : d.get? seg with
    | none =>
      rw [lookupSpec_none _ _ _ _ hg, walkPath]
      simp [recsStep, Tags.getOrNull, hg, Val.isNull, orNull]
    | some v =>
      have hstep : recsStep recs (.dict d) seg = v := by simp [recsStep, Tags.getOrNull, hg]
      rw [walkPath]
      simp only [hstep]
      cases rest with
      | nil =>
        rw [lookupSpec_last _ _ _ _ hg]
        cases v <;> simp [walkPath, Val.isNull, Val.asValue, orNull]
      | cons s2 r2 =>
        cases v
        case null => simp [lookupSpec_other _ _ _ _ _ _ hg, Val.isNull, orNull]
        case dict d' =>
          rw [lookupSpec_dict _ _ _ _ _ _ hg]
          simp only [Val.isNull, Bool.false_eq_true, if_false]
          exact walk_dict recs (s2 :: r2) d' (by simp)
        case ref id dis =>
          rw [lookupSpec_ref _ _ _ _ _ _ _ hg, walk_ref]
          simp only [Val.isNull, Bool.false_eq_true, if_false]
          cases hd : recsResolveRef recs id with
          | none => simp [orNull]
          | some d' => exact walk_dict recs (s2 :: r2) d' (by simp)
        all_goals simp [lookupSpec_other _ _ _ _ _ _ hg, walkPath, recsStep, Val.isNull, orNull]

/-- `Recs::resolve_for` is the specification's look-up (`Null` for "does not resolve") -/
theorem recsResolveFor_spec (recs : List Tags) (root : Tags) (p : FPath) :
    recsResolveFor recs root p = orNull (lookupSpec (recsResolveRef recs) root p) := by
  unfold recsResolveFor
  cases p with
  | nil => simp [lookupSpec, orNull]
  | cons seg rest =>
    cases root with
    | nil => simp [Tags.isEmpty, lookupSpec, Tags.get?, orNull]
    | cons k v t =>
      simp only [List.isEmpty_cons, Tags.isEmpty, Bool.or_self, Bool.false_eq_true, if_false]
      exact walk_dict recs (seg :: rest) (.cons k v t) (by simp)

theorem dictStep_eq : dictStep = recsStep [] := by
  funext cur seg
  cases cur <;> simp [dictStep, recsStep, recsResolveRef]

/-- `impl PathResolver for Dict` is the record resolver without records -/
theorem dictResolver_eq : dictResolver = recsResolver [] := by
  simp only [dictResolver, recsResolver, List.length_nil, Nat.zero_add, Resolver.mk.injEq, and_true]
  constructor
  · funext root p
    simp [dictResolveFor, recsResolveFor, dictStep_eq]
  · funext id
    simp [recsResolveRef]

/-! ### comparisons -/

theorem pcmp_sameKind (a b : Val) (h : sameKind a b = true) : Val.pcmp a b = Val.pcmpSame a b := by
  have hk : a.kindIdx = b.kindIdx := by simpa [sameKind] using h
  simp [Val.pcmp, hk]

theorem ordered_lt (o : Option Ordering) : ordLt o = CmpOp.lt.ordered o := by
  cases o with
  | none => rfl
  | some x => cases x <;> rfl
theorem ordered_le (o : Option Ordering) : ordLe o = CmpOp.le.ordered o := by
  cases o with
  | none => rfl
  | some x => cases x <;> rfl
theorem ordered_gt (o : Option Ordering) : ordGt o = CmpOp.gt.ordered o := by
  cases o with
  | none => rfl
  | some x => cases x <;> rfl
theorem ordered_ge (o : Option Ordering) : ordGe o = CmpOp.ge.ordered o := by
  cases o with
  | none => rfl
  | some x => cases x <;> rfl

/-- the closure of an ordering operator: same discriminant, and the payloads ordered as stated -/
theorem apply_order (op : CmpOp) (h : op.isOrder = true) (a b : Val) :
    op.apply a b = (sameKind a b && op.ordered (Val.pcmpSame a b)) := by
  cases hs : sameKind a b with
  | false => cases op <;> simp [CmpOp.isOrder] at h <;> simp [CmpOp.apply, hs]
  | true =>
    cases op <;> simp [CmpOp.isOrder] at h <;>
      simp [CmpOp.apply, hs, pcmp_sameKind a b hs, ordered_lt, ordered_le, ordered_gt, ordered_ge]

/-- direct comparison: the closure the code applies is "stands in the stated relation", unless it
would have to order two Numbers with different units -/
theorem apply_eq_stands (env : SpecEnv) (op : CmpOp) (v lit : Val)
    (h : ∀ a b, v = .num a → lit = .num b → op.isOrder = true → a.unit = b.unit) :
    op.apply v lit = stands env op v lit := by
  cases hop : op.isOrder with
  | false => cases op <;> simp [CmpOp.isOrder] at hop <;> simp [CmpOp.apply, stands]
  | true =>
    rw [apply_order op hop]
    have hst : stands env op v lit = (v.kindIdx == lit.kindIdx && orderedSame env op v lit) := by
      cases op <;> simp [CmpOp.isOrder] at hop <;> rfl
    rw [hst, sameKind]
    cases hk : (v.kindIdx == lit.kindIdx) with
    | false => rfl
    | true =>
      simp only [Bool.true_and]
      cases v <;> simp only [orderedSame]
      case num a =>
        cases lit <;> simp [Val.kindIdx] at hk
        case num b =>
          have hu : a.unit = b.unit := h a b rfl rfl hop
          simp [Val.pcmpSame, Num.pcmp, hu]

theorem mixedIn_num (n a : Num) : mixedIn n (.num a) = (a.unit != n.unit) := by
  simp [mixedIn]

theorem holdsOf_null (env : SpecEnv) (op : CmpOp) (lit : Val) : holdsOf env op lit .null = false := by
  simp [holdsOf]

theorem cmpDispatch_other (op : CmpOp) (v lit : Val) (h1 : v.isNull = false) (h2 : v.isList = false) :
    cmpDispatch op v lit = op.apply v lit := by
  cases v <;> simp [Val.isNull, Val.isList] at h1 h2 <;> simp [cmpDispatch]

theorem holdsOf_other (env : SpecEnv) (op : CmpOp) (lit v : Val) (h1 : v.isNull = false)
    (h2 : v.isList = false) : holdsOf env op lit v = stands env op v lit := by
  cases v <;> simp [Val.isNull, Val.isList] at h1 h2 <;> simp [holdsOf]

theorem cmpDispatch_direct (env : SpecEnv) (op : CmpOp) (lit v : Val) (h1 : v.isNull = false)
    (h2 : v.isList = false) (hm : mixedVal op lit v = false) :
    cmpDispatch op v lit = holdsOf env op lit v := by
  rw [cmpDispatch_other op v lit h1 h2, holdsOf_other env op lit v h1 h2]
  refine apply_eq_stands env op _ lit ?_
  intro a b e1 e2 h3
  subst e1; subst e2
  simpa [mixedVal, h3, mixedIn] using hm

mutual
/-- `cmp_dispatch` decides "the comparison holds of this value" -/
theorem cmpDispatch_spec (env : SpecEnv) (op : CmpOp) (lit : Val) :
    (v : Val) → mixedVal op lit v = false → cmpDispatch op v lit = holdsOf env op lit v
  | .null, _ => by simp [cmpDispatch, holdsOf]
  | .list xs, hm => by
    rw [cmpDispatch, holdsOf]
    cases hl : lit.isList with
    | true =>
      simp only [Bool.not_true, Bool.false_eq_true, if_false, if_true]
      exact apply_eq_stands env op _ lit (by intro a b h; cases h)
    | false =>
      simp only [Bool.not_false, if_true, Bool.false_eq_true, if_false]
      refine cmpDispatchAny_spec env op lit xs ?_
      cases lit <;> simp [mixedVal] at hm ⊢
      case num n => simpa [mixedIn] using hm
  | .remove, hm => cmpDispatch_direct env op lit _ rfl rfl hm
  | .marker, hm => cmpDispatch_direct env op lit _ rfl rfl hm
  | .bool _, hm => cmpDispatch_direct env op lit _ rfl rfl hm
  | .na, hm => cmpDispatch_direct env op lit _ rfl rfl hm
  | .num _, hm => cmpDispatch_direct env op lit _ rfl rfl hm
  | .str _, hm => cmpDispatch_direct env op lit _ rfl rfl hm
  | .uri _, hm => cmpDispatch_direct env op lit _ rfl rfl hm
  | .ref _ _, hm => cmpDispatch_direct env op lit _ rfl rfl hm
  | .sym _, hm => cmpDispatch_direct env op lit _ rfl rfl hm
  | .date _, hm => cmpDispatch_direct env op lit _ rfl rfl hm
  | .time _, hm => cmpDispatch_direct env op lit _ rfl rfl hm
  | .dateTime _, hm => cmpDispatch_direct env op lit _ rfl rfl hm
  | .coord _ _, hm => cmpDispatch_direct env op lit _ rfl rfl hm
  | .xstr _ _, hm => cmpDispatch_direct env op lit _ rfl rfl hm
  | .dict _, hm => cmpDispatch_direct env op lit _ rfl rfl hm
  | .grid _ _ _ _, hm => cmpDispatch_direct env op lit _ rfl rfl hm
theorem cmpDispatchAny_spec (env : SpecEnv) (op : CmpOp) (lit : Val) :
    (xs : Vals) → (∀ n, lit = .num n → op.isOrder = true → mixedInSome n xs = false) →
      cmpDispatchAny op xs lit = holdsSome env op lit xs
  | .nil, _ => by simp [cmpDispatchAny, holdsSome]
  | .cons x xs, hm => by
    rw [cmpDispatchAny, holdsSome]
    have h1 : mixedVal op lit x = false := by
      cases lit <;> simp [mixedVal]
      case num n =>
        intro ho
        have := hm n rfl ho
        simp [mixedInSome] at this
        exact this.1
    have h2 : ∀ n, lit = .num n → op.isOrder = true → mixedInSome n xs = false := by
      intro n hn ho
      have := hm n hn ho
      simp [mixedInSome] at this
      exact this.2
    rw [cmpDispatch_spec env op lit x h1, cmpDispatchAny_spec env op lit xs h2]
end

/-! ### grids -/

theorem filterAllLoop_eq (flt : Tags → Bool) :
    ∀ (rows : Rows) (acc : List Tags), filterAllLoop flt rows acc = acc ++ rows.toList.filter flt
  | .nil, acc => by simp [filterAllLoop, Rows.toList]
  | .cons r rs, acc => by
    rw [filterAllLoop]
    cases h : flt r <;> simp [filterAllLoop_eq flt rs, Rows.toList, h]

end Hs
