/-
  C04 (write direction), rung 2: Str, Uri, Ref (with and without display name), Symbol, XStr and the literal
  kinds through the reference reader's `scalar`, whatever follows (for the kinds that end at a delimiter:
  whatever delimiter follows).
-/
import Hs.Lemmas.SpecRtStr
namespace Hs.Spec
open Hs Hs.Zinc Hs.Scan

theorem isRefChar_fun : isRefChar = isRefB := funext isRefChar_eq
theorem isIdChar_fun : isIdChar = isLitB := funext isIdChar_eq

theorem scalar_str (f : Nat) (s : List Char) (rest : List UInt8) :
    scalar (f + 1) (encQuoted s ++ rest) = some (.str s, rest) := by
  have h := spec_str s rest
  have hq : encQuoted s ++ rest = 34 :: (s.flatMap encStrChar ++ 34 :: rest) := by simp [encQuoted]
  rw [hq] at h ⊢
  rw [scalar.eq_def]
  simp [h]

theorem scalar_uri (f : Nat) (s : List Char) (rest : List UInt8) :
    scalar (f + 1) (encUri s ++ rest) = some (.uri s, rest) := by
  have h := spec_uri s rest
  have hq : encUri s ++ rest = 96 :: (s.flatMap encUriChar ++ 96 :: rest) := by simp [encUri]
  rw [hq] at h ⊢
  rw [scalar.eq_def]
  simp [h]

/-- Ref without display name; `RefEnd rest`: nothing, a byte outside the id alphabet other than a space, or
a space followed by a byte other than `"` -/
theorem scalar_ref_nodis (f : Nat) (id : List Char) (hid : isRefId id = true) (rest : List UInt8)
    (hend : RefEnd rest) :
    scalar (f + 1) (64 :: encChars id ++ rest) = some (.ref id none, rest) := by
  simp only [isRefId, Bool.and_eq_true, Bool.not_eq_eq_eq_not, Bool.not_true, List.isEmpty_eq_false_iff] at hid
  have hsp := span_chars hid.2 rest hend.stop
  rw [← isRefChar_fun] at hsp
  rw [scalar.eq_def]
  simp only [List.cons_append, hsp]
  rcases hend with rfl | ⟨b, r, rfl, hb, hb32⟩ | ⟨x, r, rfl, hx⟩
  · simp [hid.1, chars_map_byteOf (AllB_ascii hid.2)]
  · simp [hid.1, chars_map_byteOf (AllB_ascii hid.2), hb32]
  · simp [hid.1, chars_map_byteOf (AllB_ascii hid.2), hx]

/-- Ref with display name: any `dis`, any following input -/
theorem scalar_ref_dis (f : Nat) (id : List Char) (hid : isRefId id = true) (dis : List Char) (rest : List UInt8) :
    scalar (f + 1) (64 :: encChars id ++ 32 :: encQuoted dis ++ rest) = some (.ref id (some dis), rest) := by
  simp only [isRefId, Bool.and_eq_true, Bool.not_eq_eq_eq_not, Bool.not_true, List.isEmpty_eq_false_iff] at hid
  have hq : encQuoted dis ++ rest = 34 :: (dis.flatMap encStrChar ++ 34 :: rest) := by simp [encQuoted]
  have hsp := span_chars hid.2 (32 :: (encQuoted dis ++ rest)) (Stop_cons (by decide))
  rw [← isRefChar_fun] at hsp
  have hs := spec_str dis rest
  rw [hq] at hs hsp
  rw [scalar.eq_def]
  simp only [List.cons_append, List.append_assoc, hq, hsp]
  simp [hid.1, chars_map_byteOf (AllB_ascii hid.2), hs]

theorem scalar_sym (f : Nat) (s : List Char) (hs : isSymBody s = true) (rest : List UInt8)
    (hst : Stop isRefB rest) :
    scalar (f + 1) (94 :: encChars s ++ rest) = some (.sym s, rest) := by
  cases s with
  | nil => simp [isSymBody] at hs
  | cons c r =>
    simp only [isSymBody, Bool.and_eq_true, decide_eq_true_eq] at hs
    have hall : AllB isRefB (c :: r) = true :=
      AllB_cons.mpr ⟨⟨hs.1.1, by simp [isRefB, isAlnumB, hs.1.2]⟩, hs.2⟩
    have hsp := span_chars hall rest hst
    rw [← isRefChar_fun] at hsp
    have hc := chars_map_byteOf (AllB_ascii hall)
    rw [encChars_cons, encChar_ascii c hs.1.1] at hsp ⊢
    rw [scalar.eq_def]
    simp only [List.cons_append, List.nil_append] at hsp ⊢
    have hb : isLower (UInt8.ofNat c.toNat) = true := hs.1.2
    simp only [List.map_cons] at hc
    simp [hsp, hb, hc]

/-! ### tokens that start with an upper-case letter -/

theorem upper_dispatch' : ∀ b : UInt8, (!isUpperB b || (b != 34 && b != 96 && b != 64 && b != 94)) = true :=
  all_u8 (fun b => (!isUpperB b || (b != 34 && b != 96 && b != 64 && b != 94))) (by decide +kernel)

theorem map_byteOf_ne_C {ty : List Char} (hasc : ∀ c ∈ ty, c.toNat < 128) (h : ty ≠ ['C']) :
    ty.map byteOf ≠ [67] := by
  intro e
  apply h
  have := congrArg asciiChars e
  rw [asciiChars_map_byteOf hasc] at this
  rw [this]; decide

/-- XStr: capitalised ASCII type other than the reserved `C`, any value text, any following input -/
theorem scalar_xstr (f : Nat) (ty : List Char) (hty : isXStrType ty = true) (v : List Char) (rest : List UInt8) :
    scalar (f + 1) (enc (.xstr ty v) true ++ rest) = some (.xstr ty v, rest) := by
  simp only [isXStrType, Bool.and_eq_true, bne_iff_ne, ne_eq] at hty
  obtain ⟨hl, hne⟩ := isUpperName_lit hty.1
  have he : enc (.xstr ty v) true ++ rest = encChars ty ++ 40 :: (encQuoted v ++ 41 :: rest) := by
    rw [enc, upperFirst_of_upper hty.1]; simp
  rw [he]
  have hsp := span_chars hl (40 :: (encQuoted v ++ 41 :: rest)) (Stop_cons (by decide))
  rw [← isIdChar_fun] at hsp
  have hs := spec_str v (41 :: rest)
  have hq : encQuoted v ++ 41 :: rest = 34 :: (v.flatMap encStrChar ++ 34 :: 41 :: rest) := by simp [encQuoted]
  rw [hq] at hs hsp ⊢
  have hC := map_byteOf_ne_C (AllB_ascii hl) hty.2
  cases ty with
  | nil => exact absurd rfl hne
  | cons c r =>
    have h1 := hty.1
    simp only [isUpperName, Bool.and_eq_true, decide_eq_true_eq] at h1
    have hc := chars_map_byteOf (AllB_ascii hl)
    rw [encChars_cons, encChar_ascii c h1.1.1] at hsp ⊢
    simp only [List.cons_append, List.nil_append] at hsp ⊢
    have hu : isUpperB (UInt8.ofNat c.toNat) = true := h1.1.2
    have hd := upper_dispatch' (UInt8.ofNat c.toNat)
    simp only [hu, Bool.not_true, Bool.false_or, Bool.and_eq_true, bne_iff_ne, ne_eq] at hd
    have hC' : ¬ (byteOf c = 67 ∧ r = []) := by
      intro e; apply hC; simp [e.1, e.2]
    simp only [List.map_cons] at hc
    rw [scalar.eq_def]
    simp only [hsp]
    simp [hd.1.1.1, hd.1.1.2, hd.1.2, hd.2, isUpper_eq, hu, hC', hc, skipWs_cons, hs]

/-- a keyword (`N`, `M`, `R`, `T`, `F`, `NA`, `NaN`, `INF`) followed by a byte outside the name alphabet other
than `(` -/
def KwEnd (rest : List UInt8) : Prop := Stop isLitB rest ∧ ∀ r, rest ≠ 40 :: r

theorem _root_.Hs.Zinc.Delim.kwEnd {rest : List UInt8} (h : Delim rest) : KwEnd rest := ⟨h.stop_lit, h.not_paren⟩

theorem span_kw (kw rest : List UInt8) (hk : ∀ b ∈ kw, isLitB b = true) (h : KwEnd rest) :
    span isIdChar (kw ++ rest) = (kw, rest) := by
  rw [isIdChar_fun]; exact span_all isLitB kw rest hk h.1

theorem scalar_null (f : Nat) (rest : List UInt8) (h : KwEnd rest) : scalar (f + 1) (78 :: rest) = some (.null, rest) := by
  have hsp := span_kw [78] rest (by decide) h
  simp only [List.cons_append, List.nil_append] at hsp
  rw [scalar.eq_def]
  simp only [hsp]
  cases rest with
  | nil => simp [isUpper, chars]
  | cons b r =>
    have : b ≠ 40 := fun e => h.2 r (by rw [e])
    simp [isUpper, chars, this]

theorem scalar_marker (f : Nat) (rest : List UInt8) (h : KwEnd rest) :
    scalar (f + 1) (77 :: rest) = some (.marker, rest) := by
  have hsp := span_kw [77] rest (by decide) h
  simp only [List.cons_append, List.nil_append] at hsp
  rw [scalar.eq_def]
  simp only [hsp]
  cases rest with
  | nil => simp [isUpper, chars]
  | cons b r =>
    have : b ≠ 40 := fun e => h.2 r (by rw [e])
    simp [isUpper, chars, this]

theorem scalar_remove (f : Nat) (rest : List UInt8) (h : KwEnd rest) :
    scalar (f + 1) (82 :: rest) = some (.remove, rest) := by
  have hsp := span_kw [82] rest (by decide) h
  simp only [List.cons_append, List.nil_append] at hsp
  rw [scalar.eq_def]
  simp only [hsp]
  cases rest with
  | nil => simp [isUpper, chars]
  | cons b r =>
    have : b ≠ 40 := fun e => h.2 r (by rw [e])
    simp [isUpper, chars, this]

theorem scalar_true (f : Nat) (rest : List UInt8) (h : KwEnd rest) :
    scalar (f + 1) (84 :: rest) = some (.bool true, rest) := by
  have hsp := span_kw [84] rest (by decide) h
  simp only [List.cons_append, List.nil_append] at hsp
  rw [scalar.eq_def]
  simp only [hsp]
  cases rest with
  | nil => simp [isUpper, chars]
  | cons b r =>
    have : b ≠ 40 := fun e => h.2 r (by rw [e])
    simp [isUpper, chars, this]

theorem scalar_false (f : Nat) (rest : List UInt8) (h : KwEnd rest) :
    scalar (f + 1) (70 :: rest) = some (.bool false, rest) := by
  have hsp := span_kw [70] rest (by decide) h
  simp only [List.cons_append, List.nil_append] at hsp
  rw [scalar.eq_def]
  simp only [hsp]
  cases rest with
  | nil => simp [isUpper, chars]
  | cons b r =>
    have : b ≠ 40 := fun e => h.2 r (by rw [e])
    simp [isUpper, chars, this]

theorem scalar_na (f : Nat) (rest : List UInt8) (h : KwEnd rest) :
    scalar (f + 1) (78 :: 65 :: rest) = some (.na, rest) := by
  have hsp := span_kw [78, 65] rest (by decide) h
  simp only [List.cons_append, List.nil_append] at hsp
  rw [scalar.eq_def]
  simp only [hsp]
  cases rest with
  | nil => simp [isUpper, chars]
  | cons b r =>
    have : b ≠ 40 := fun e => h.2 r (by rw [e])
    simp [isUpper, chars, this]

theorem scalar_nan (f : Nat) (rest : List UInt8) (h : KwEnd rest) :
    scalar (f + 1) (78 :: 97 :: 78 :: rest) = some (.num { v := { bits := nanBits, txt := "NaN".toList }, unit := none }, rest) := by
  have hsp := span_kw [78, 97, 78] rest (by decide) h
  simp only [List.cons_append, List.nil_append] at hsp
  rw [scalar.eq_def]
  simp only [hsp]
  cases rest with
  | nil => simp [isUpper, chars]
  | cons b r =>
    have : b ≠ 40 := fun e => h.2 r (by rw [e])
    simp [isUpper, chars, this]

theorem scalar_posinf (f : Nat) (rest : List UInt8) (h : KwEnd rest) :
    scalar (f + 1) (73 :: 78 :: 70 :: rest) = some (.num { v := { bits := posInfBits, txt := "inf".toList }, unit := none }, rest) := by
  have hsp := span_kw [73, 78, 70] rest (by decide) h
  simp only [List.cons_append, List.nil_append] at hsp
  rw [scalar.eq_def]
  simp only [hsp]
  cases rest with
  | nil => simp [isUpper, chars]
  | cons b r =>
    have : b ≠ 40 := fun e => h.2 r (by rw [e])
    simp [isUpper, chars, this]

theorem scalar_neginf (f : Nat) (rest : List UInt8) :
    scalar (f + 1) (45 :: 73 :: 78 :: 70 :: rest) =
      some (.num { v := { bits := negInfBits, txt := "-inf".toList }, unit := none }, rest) := by
  rw [scalar.eq_def]
  simp [isUpper]

end Hs.Spec
