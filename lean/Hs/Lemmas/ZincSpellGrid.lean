/-
  C04 read direction, grids part 4: the header (`<<` line ending, `ver:"3.0"`, meta, line ending, column line, line
  ending) and `parse_grid` on every spelled layout, nested and at top level.
-/
import Hs.Lemmas.ZincSpellCols
import Hs.Lemmas.ZincRtGrid
namespace Hs.Zinc
open Hs Hs.Scan Hs.Spell

/-- what the grid reader needs of a spelled grid (from `ver` on): `m` meta, `cl` column line, `rw` rows, blanks `w1`
`w2` before the line endings `nl1` `nl2`; `tlf`: the text after the grid may start with LF -/
structure GridOkW (tlf : Bool) (md : OTags) (cols : Cols) (rows : Rows) (ver : List Char)
    (m w1 nl1 cl w2 nl2 rw : List UInt8) : Prop where
  okVer : ver = ['3', '.', '0']
  okMeta : MetaOkW (RdTagsW dictParts 10) md m
  okCols : ColsOkW cols cl
  okNodup : cols.names.Nodup
  okRows : RowsOkW cols.names (cols.length == 1) tlf rows rw
  okW1 : Blanks w1
  okNl1 : Nl nl1
  okW2 : Blanks w2
  okNl2 : Nl nl2
  okCr2 : CrOk nl2 rw tlf

theorem colsOkW_cons {cols : Cols} {cl : List UInt8} (h : ColsOkW cols cl) : ∃ n cm c, cols = .cons n cm c := by
  cases h with
  | one n md m hn hm => exact ⟨n, md, .nil, rfl⟩
  | cons n md n2 md2 c m w rest hn hm hw t => exact ⟨n, md, _, rfl⟩

theorem FirstW.head_ne {bs : List UInt8} (h : FirstW bs) : bs.head? ≠ some 10 := by
  obtain ⟨b, r, rfl, hb⟩ := h
  simp only [List.head?_cons, ne_eq, Option.some.injEq]
  exact hb.2.2.2

/-- the reads from the `:` after `ver` to the line ending after the column line -/
theorem header_chainW {md : OTags} {cols : Cols} {m w1 nl1 cl w2 nl2 : List UInt8}
    (hmd : MetaOkW (RdTagsW dictParts 10) md m) (hcok : ColsOkW cols cl) (hw1 : Blanks w1) (hn1 : Nl nl1)
    (hw2 : Blanks w2) (hn2 : Nl nl2)
    (depth g : Nat) (s0 : Scan) (region : List UInt8) (hcr2 : NoLF nl2 region)
    (hat : At s0 (58 :: 34 :: 51 :: 46 :: 48 :: 34 :: (m ++ (w1 ++ (nl1 ++ (cl ++ (w2 ++ (nl2 ++ region))))))))
    (hs : s0.stash = []) (hf : 4 * (m.length + cl.length) + w1.length + w2.length + 48 ≤ g)
    (hd : depth + nestO md ≤ 64 ∧ depth + nestC cols ≤ 64) :
    ∃ (sQ : Scan) (p3 p4 p5 : PS) (mkvs : List (List Char × Val)),
      lexRead g s0 = .ok { sc := s0.advance, tok := .ch 58 } ∧
      lexRead g s0.advance = .ok { sc := sQ, tok := .val (.str ['3', '.', '0']) } ∧
      lexRead g sQ = .ok p3 ∧
      dictParts g depth p3 false [] = .ok (mkvs, p4) ∧ p4.tok = .ch 10 ∧
      (if mkvs.isEmpty then OTags.none else OTags.some (dictOf mkvs)) = lexImgO md ∧
      gridColumns g depth p4 [] = .ok ((lexImgC cols).toList, p5) ∧ p5.tok = .ch 10 ∧
      At p5.sc region ∧ p5.sc.stash = [] := by
  obtain ⟨g', rfl⟩ : ∃ g', g = g' + 2 := ⟨g - 2, by omega⟩
  have h1 := hat.advance
  have hs1 : s0.advance.stash = [] := by rw [At.advance_stash, hs]; rfl
  have hq : encQuoted ['3', '.', '0'] = [34, 51, 46, 48, 34] := by decide
  obtain ⟨sQ, eQ, hQ, hsQ⟩ := lexRead_str ['3', '.', '0'] s0.advance (m ++ (w1 ++ (nl1 ++ (cl ++ (w2 ++ (nl2 ++ region))))))
    (g' + 2) (by rw [hq]; simpa using h1) hs1 (by rw [hq]; simp; omega)
  have hnl1 : nl1.length ≤ 2 := by cases hn1 <;> simp
  have hcr1 : NoLF nl1 (cl ++ (w2 ++ (nl2 ++ region))) := NoLF_of_ne (hcok.firstW _).head_ne
  have hmeta : ∃ (p3 p4 : PS) (mkvs : List (List Char × Val)), lexRead (g' + 2) sQ = .ok p3 ∧
      dictParts (g' + 2) depth p3 false [] = .ok (mkvs, p4) ∧ p4.tok = .ch 10 ∧
      (if mkvs.isEmpty then OTags.none else OTags.some (dictOf mkvs)) = lexImgO md ∧
      At p4.sc (cl ++ (w2 ++ (nl2 ++ region))) ∧ p4.sc.stash = [] := by
    cases hmd with
    | none =>
      simp only [List.nil_append] at hQ
      obtain ⟨s', e, h', hs'⟩ := lexRead_nlW w1 hw1 nl1 hn1 sQ _ hQ hcr1 (by simp [hsQ]) (fun _ => hsQ) (g' + 2) (by omega)
      refine ⟨{ sc := s', tok := .ch 10 }, { sc := s', tok := .ch 10 }, [], e, ?_, rfl, by simp [lexImgO], h', hs'⟩
      have heof : s'.eof = false := by
        obtain ⟨b, r, eb, _⟩ := hcok.firstW (w2 ++ (nl2 ++ region))
        rw [eb] at h'; exact h'.eof
      rw [dictParts]
      simp [isEof_mk, heof]
    | some k v t' w body hw hwne hks hrt =>
      obtain ⟨afterK, hb, hk, hstop, hrun⟩ := hrt k v t' rfl
      have hlenk : k.length ≤ (encChars k).length := encChars_length_ge k
      simp only [List.length_append] at hf
      have hlb : body.length = (encChars k).length + afterK.length := by rw [hb]; simp
      have hE : EndOk 10 (w1 ++ (nl1 ++ (cl ++ (w2 ++ (nl2 ++ region))))) (cl ++ (w2 ++ (nl2 ++ region))) :=
        EndOk.nl w1 nl1 _ hw1 hn1 hcr1
      have hQ' : At sQ (w ++ (encChars k ++ (afterK ++ (w1 ++ (nl1 ++ (cl ++ (w2 ++ (nl2 ++ region)))))))) := by
        rw [hb] at hQ; simpa using hQ
      obtain ⟨s2, e2, h2, hs2⟩ := lexRead_idW w hw k hk sQ _ hQ' (hstop _ _ hE) (by simp [hsQ])
        (fun _ => hsQ) (g' + 2) (by omega)
      obtain ⟨p4, e4, ht4, h4, hs4⟩ := hrun depth (g' + 2) s2 false [] _ _ hE h2 hs2
        (by simp only [List.length_append]; omega) (by simpa [nestO] using hd.1)
      have hdict : dictOf (lexImgT (.cons k v t')).toList = lexImgT (.cons k v t') :=
        dictOf_toList _ (by rw [lexImgT_keys]; exact hks)
      refine ⟨_, p4, _, e2, by simpa using e4, ht4, ?_, h4, hs4⟩
      have hdict' : dictOf ((k, lexImg v) :: (lexImgT t').toList) = Tags.cons k (lexImg v) (lexImgT t') := by
        simpa [lexImgT, Tags.toList] using hdict
      simp [lexImgT, Tags.toList, lexImgO, hdict']
  obtain ⟨p3, p4, mkvs, e3, e4, ht4, hmdeq, h4, hs4⟩ := hmeta
  obtain ⟨p5, e5, ht5, h5, hs5⟩ := gridColumnsW hcok depth (g' + 2) p4 [] region nl2 w2 [] hn2 hw2 hcr2 Blanks.nil
    (by simpa using h4) (by simp [hs4]) (fun _ => hs4) (by simp; omega) hd.2
  exact ⟨sQ, p3, p4, p5, mkvs, lexRead_special hat (by decide) (by decide) (g' + 1), eQ, e3, e4, ht4, hmdeq,
    by simpa using e5, ht5, h5, hs5⟩

theorem cols_singleW (cols : Cols) : cols.names.length = 1 → (cols.length == 1) = true := by
  cases cols with
  | nil => simp [Cols.names]
  | cons n cm c => exact cols_single n cm c

/-- `parse_grid` from the `:` after `ver` on (both the nested and the top-level entry end up here) -/
theorem parseGrid_tailW {tlf : Bool} {md : OTags} {cols : Cols} {rows : Rows} {ver : List Char}
    {m w1 nl1 cl w2 nl2 rw : List UInt8}
    (hok : GridOkW tlf md cols rows ver m w1 nl1 cl w2 nl2 rw) {nested : Bool} {tail final : List UInt8}
    (hE : GridEnd nested tail final) (htl : tlf = false → tail.head? ≠ some 10) (D g : Nat) (s0 : Scan)
    (hat : At s0 (58 :: 34 :: 51 :: 46 :: 48 :: 34 :: (m ++ (w1 ++ (nl1 ++ (cl ++ (w2 ++ (nl2 ++ (rw ++ tail)))))))))
    (hs : s0.stash = []) (hf : 4 * (m.length + cl.length + rw.length) + w1.length + w2.length + 48 ≤ g)
    (hfu : nested = false → 4 * rw.length + tail.length + 20 ≤ g)
    (hd : D + nestV (.grid md cols rows ver) ≤ 64) :
    ∃ (sQ : Scan) (p3 p4 p5 p6 : PS) (mkvs : List (List Char × Val)) (r' : RowState),
      lexRead g s0 = .ok { sc := s0.advance, tok := .ch 58 } ∧
      lexRead g s0.advance = .ok { sc := sQ, tok := .val (.str ['3', '.', '0']) } ∧
      lexRead g sQ = .ok p3 ∧
      dictParts g D p3 false [] = .ok (mkvs, p4) ∧ PS.isChar p4 10 = true ∧
      (if mkvs.isEmpty then OTags.none else OTags.some (dictOf mkvs)) = lexImgO md ∧
      gridColumns g D p4 [] = .ok ((lexImgC cols).toList, p5) ∧ PS.isChar p5 10 = true ∧
      lexRead g p5.sc = .ok p6 ∧
      rowsLoop (g + 1) D { p := p6, nestedStart := nested, nestedEnd := false } cols.names []
        = .ok ((lexImgR rows).toList, r') ∧
      At r'.p.sc final ∧ r'.p.sc.stash = [] := by
  simp only [nestV] at hd
  have hcr2 : NoLF nl2 (rw ++ tail) := by
    intro e
    by_cases hr : rw = []
    · subst hr; simpa using htl (hok.okCr2 e rfl)
    · exact hok.okRows.head_ne (cols_singleW cols) hr tail
  obtain ⟨sQ, p3, p4, p5, mkvs, e1, e2, e3, e4, ht4, hmd, e5, ht5, h5, hs5⟩ := header_chainW hok.okMeta hok.okCols
    hok.okW1 hok.okNl1 hok.okW2 hok.okNl2 D g s0 _ hcr2 hat hs (by omega) (by omega)
  obtain ⟨n, cm, c, hcols⟩ := colsOkW_cons hok.okCols
  have hne : cols.names ≠ [] := by rw [hcols]; simp [Cols.names]
  obtain ⟨p6, r', e6, e7, h7, hs7⟩ := rows_allW cols.names (cols.length == 1) nested tlf tail final hE htl hne
    (cols_singleW cols) hok.okNodup D rows rw hok.okRows (by omega) g p5.sc h5 hs5 (by omega) hfu
  have i4 : PS.isChar p4 10 = true := by unfold PS.isChar; rw [ht4]; rfl
  have i5 : PS.isChar p5 10 = true := by unfold PS.isChar; rw [ht5]; rfl
  exact ⟨sQ, p3, p4, p5, p6, mkvs, r', e1, e2, e3, e4, i4, hmd, e5, i5, e6, e7, h7, hs7⟩

/-- the text of a spelled grid from `ver` on -/
def gridText (m w1 nl1 cl w2 nl2 rw : List UInt8) : List UInt8 :=
  [118, 101, 114, 58, 34, 51, 46, 48, 34] ++ m ++ w1 ++ nl1 ++ cl ++ w2 ++ nl2 ++ rw

theorem gridText_length (m w1 nl1 cl w2 nl2 rw : List UInt8) :
    (gridText m w1 nl1 cl w2 nl2 rw).length =
      9 + m.length + w1.length + nl1.length + cl.length + w2.length + nl2.length + rw.length := by
  simp [gridText]; omega

/-- **a nested grid**: `<<` blanks line ending … `>>` through `parseValue` -/
theorem SpOk_grid {md : OTags} {cols : Cols} {rows : Rows} {ver : List Char} {m w1 nl1 cl w2 nl2 rw w nl : List UInt8}
    (hok : GridOkW false md cols rows ver m w1 nl1 cl w2 nl2 rw) (hw : Blanks w) (hn : Nl nl) :
    SpOk (.grid md cols rows ver) (60 :: 60 :: (w ++ nl ++ gridText m w1 nl1 cl w2 nl2 rw ++ [62, 62])) := by
  refine ⟨?_, ⟨60, _, rfl, by decide, by decide, by decide, by decide⟩⟩
  intro depth f1 f2 s rest hat hs hd hf1 hf2 hn'
  have hl := gridText_length m w1 nl1 cl w2 nl2 rw
  have hnl : 1 ≤ nl.length := by cases hn <;> simp
  simp only [List.length_cons, List.length_append, List.length_nil, hl] at hf1 hf2
  obtain ⟨g1, rfl⟩ : ∃ g, f1 = g + 1 := ⟨f1 - 1, by omega⟩
  obtain ⟨g, rfl⟩ : ∃ g, f2 = g + 3 := ⟨f2 - 3, by omega⟩
  have hndp : ¬ (depth ≥ maxNestingDepth) := by unfold maxNestingDepth; omega
  have hat' : At s (60 :: 60 :: ((w ++ nl) ++ (118 :: 101 :: 114 :: 58 :: 34 :: 51 :: 46 :: 48 :: 34 ::
      (m ++ (w1 ++ (nl1 ++ (cl ++ (w2 ++ (nl2 ++ (rw ++ 62 :: 62 :: rest)))))))))) := by
    simpa [gridText] using hat
  have h1 := hat'.advance
  have h2 := h1.advance
  have hs2 : s.advance.advance.stash = [] := advN_stash_nil 2 s hs
  have hcw := cws_white_then (w ++ nl) (White.append (Blanks.white hw) (Nl.white hn)) _
    ⟨118, _, rfl, by decide, by decide, by decide, by decide⟩ s.advance.advance (g + 1) h2
    (by simp only [List.length_append]; omega)
  have h3 := h2.advN
  have hs3 : (advN (w ++ nl).length s.advance.advance).stash = [] := advN_stash_nil _ _ hs2
  obtain ⟨e0, h0⟩ := lexRead_id ['v', 'e', 'r'] isIdent_ver (advN (w ++ nl).length s.advance.advance) _ g
    (by rw [encChars_ver]; exact h3) (Stop_cons (by decide)) (by simp; omega)
  simp only [List.length_cons, List.length_nil] at e0 h0
  obtain ⟨sQ, p3, p4, p5, p6, mkvs, r', e1, e2, e3, e4, i4, hmd, e5, i5, e6, e7, h7, hs7⟩ :=
    parseGrid_tailW hok (GridEnd.nested rest) (fun _ => by simp) (depth + 1) g _ h0 (advN_stash_nil _ _ hs3) (by omega)
      (fun h => by cases h) (by simp only [nestV] at hn' ⊢; omega)
  refine ⟨{ sc := s.advance, tok := .ch 60 }, r'.p, lexRead_special hat' (by decide) (by decide) g1,
    fun _ => h1.eof, Or.inr (Or.inr rfl), ?_, Post.of_clean h7 hs7⟩
  rw [parseValue]
  simp only [hndp, if_false]
  have hsp1 : lexRead g s.advance = .ok { sc := s.advance.advance, tok := .ch 60 } := by
    obtain ⟨g', rfl⟩ : ∃ g', g = g' + 1 := ⟨g - 1, by omega⟩
    exact lexRead_special h1 (by decide) (by decide) g'
  have c1 : PS.isChar { sc := s.advance, tok := .ch 60 } 60 = true := rfl
  have c2 : PS.isChar { sc := s.advance.advance, tok := .ch 60 } 60 = true := rfl
  rw [parseGrid, gridHeader]
  simp only [c1, if_true, PS.read, hsp1, c2, Bool.not_true, Bool.false_eq_true, if_false, hcw, e0]
  have c4 : ∀ sc : Scan, PS.isChar { sc := sc, tok := .ch 58 } 58 = true := fun _ => rfl
  simp only [e1, e2, e3, e4, i4, e5, i5, e6, hmd, c4]
  simp [lexImgC_names, e7, lexImg, Cols.ofList_toList, Rows.ofList_toList, hok.okVer]

/-- **a grid document**: blanks, the text from `ver` on, then nothing or blank lines -/
theorem fromBytes_gridW {tlf : Bool} {md : OTags} {cols : Cols} {rows : Rows} {ver : List Char}
    {m w1 nl1 cl w2 nl2 rw lead tail : List UInt8}
    (hok : GridOkW tlf md cols rows ver m w1 nl1 cl w2 nl2 rw) (hl : Blanks lead) (hE : GridEnd false tail [])
    (htl : tlf = false → tail.head? ≠ some 10) (hn : nestV (.grid md cols rows ver) < 64) :
    fromBytes (lead ++ gridText m w1 nl1 cl w2 nl2 rw ++ tail) = .ok (lexImg (.grid md cols rows ver)) := by
  unfold fromBytes
  have hl' := gridText_length m w1 nl1 cl w2 nl2 rw
  generalize hfu : fuelFor (lead ++ gridText m w1 nl1 cl w2 nl2 rw ++ tail).length = fuel
  have hfuel : 8 * (lead.length + (gridText m w1 nl1 cl w2 nl2 rw).length + tail.length) + 64 = fuel := by
    rw [← hfu]; simp [fuelFor]; omega
  obtain ⟨g, rfl⟩ : ∃ g, fuel = g + 3 := ⟨fuel - 3, by omega⟩
  have hat : At (Scan.make (lead ++ gridText m w1 nl1 cl w2 nl2 rw ++ tail)) (lead ++ gridText m w1 nl1 cl w2 nl2 rw ++ tail) :=
    At_make_all' _
  have hs : (Scan.make (lead ++ gridText m w1 nl1 cl w2 nl2 rw ++ tail)).stash = [] := by
    cases hx : lead ++ gridText m w1 nl1 cl w2 nl2 rw ++ tail <;> simp [Scan.make]
  generalize Scan.make (lead ++ gridText m w1 nl1 cl w2 nl2 rw ++ tail) = s at hat hs
  have hat' : At s (lead ++ (encChars ['v', 'e', 'r'] ++ (58 :: 34 :: 51 :: 46 :: 48 :: 34 ::
      (m ++ (w1 ++ (nl1 ++ (cl ++ (w2 ++ (nl2 ++ (rw ++ tail)))))))))) := by
    rw [encChars_ver]; simpa [gridText] using hat
  obtain ⟨s0, e0, h0, hs0⟩ := lexRead_idW lead hl ['v', 'e', 'r'] isIdent_ver s _ hat' (Stop_cons (by decide))
    (by simp [hs]) (fun _ => hs) (g + 3) (by simp; omega)
  obtain ⟨sQ, p3, p4, p5, p6, mkvs, r', e1, e2, e3, e4, i4, hmd, e5, i5, e6, e7, h7, hs7⟩ :=
    parseGrid_tailW hok hE htl 1 g _ h0 hs0 (by omega) (fun _ => by omega) (by omega)
  have hndp : ¬ (0 ≥ maxNestingDepth) := by unfold maxNestingDepth; omega
  have c0 : PS.isChar { sc := s0, tok := .id ['v', 'e', 'r'] } 60 = false := rfl
  have c4 : ∀ sc : Scan, PS.isChar { sc := sc, tok := .ch 58 } 58 = true := fun _ => rfl
  simp only [e0]
  rw [parseValue]
  simp only [hndp, if_false]
  rw [parseGrid, gridHeader]
  simp only [c0, Bool.false_eq_true, if_false, PS.read]
  simp only [e1, e2, e3, e4, i4, e5, i5, e6, hmd, c4]
  simp [lexImgC_names, e7, lexImg, Cols.ofList_toList, Rows.ofList_toList, hok.okVer]

end Hs.Zinc
