/-
  Hs.Lemmas.CmpEq — on NaN-free values the model of `==` says exactly what the model of `cmp`
  calls `Equal`; equal values make the same writes to a hasher; and whenever `partial_cmp`
  answers, it answers what `cmp` answers.
-/
import Hs.Model.Cmp
import Hs.Lemmas.CmpOrd
namespace Hs

theorem cmpChars_eq_iff : ∀ a b : List Char, cmpChars a b = .eq ↔ a = b
  | [], [] => by simp [cmpChars]
  | [], _ :: _ => by simp [cmpChars]
  | _ :: _, [] => by simp [cmpChars]
  | a :: as, b :: bs => by
    simp only [cmpChars, Ordering.then_eq_eq, Nat.compare_eq_eq, Char.toNat_inj,
      cmpChars_eq_iff as bs, List.cons.injEq]

theorem cmpChars_refl (a : List Char) : cmpChars a a = .eq := (cmpChars_eq_iff a a).2 rfl

theorem cmpOptChars_eq_iff (a b : Option (List Char)) : cmpOpt cmpChars a b = .eq ↔ a = b := by
  cases a <;> cases b <;> simp [cmpOpt, cmpChars_eq_iff]

theorem cmpKeys_eq_iff : ∀ a b : List (List Char), cmpList cmpChars a b = .eq ↔ a = b
  | [], [] => by simp [cmpList]
  | [], _ :: _ => by simp [cmpList]
  | _ :: _, [] => by simp [cmpList]
  | a :: as, b :: bs => by
    simp only [cmpList, Ordering.then_eq_eq, cmpChars_eq_iff, cmpKeys_eq_iff as bs, List.cons.injEq]

theorem Num.eqv_iff (a b : Num) (ha : a.v.isNaN = false) (hb : b.v.isNaN = false) :
    a.eqv b = true ↔ a.cmp b = .eq := by
  rw [Num.cmp_of a b ha hb, Ordering.then_eq_eq, cmpOptChars_eq_iff, Int.compare_eq_eq]
  simp [Num.eqv, Flt.feq_of _ _ ha hb]

theorem coordEq_iff (a1 a2 b1 b2 : Flt) (h1 : a1.isNaN = false) (h2 : a2.isNaN = false)
    (h3 : b1.isNaN = false) (h4 : b2.isNaN = false) :
    coordEq a1 a2 b1 b2 = true ↔ coordCmp a1 a2 b1 b2 = .eq := by
  rw [coordCmp_of _ _ _ _ h1 h2 h3 h4, Ordering.then_eq_eq, Int.compare_eq_eq, Int.compare_eq_eq]
  simp [coordEq, Flt.feq_of _ _ h1 h3, Flt.feq_of _ _ h2 h4]

theorem kind_cmp_eq (a b : Val) : Val.cmp a b = .eq → a.kindIdx = b.kindIdx := by
  rw [Val.cmp, Ordering.then_eq_eq, Nat.compare_eq_eq]; exact fun h => h.1

theorem eqv_kind (a b : Val) : Val.eqv a b = true → a.kindIdx = b.kindIdx := by
  cases a <;> cases b <;> simp [Val.eqv, Val.kindIdx]

/-- keys-and-values form of `Tags.eqv` -/
theorem Tags.keys_cons (k v t) : (Tags.cons k v t).keys = k :: t.keys := rfl

mutual
theorem eqv_iff_val : (a b : Val) → NF a → NF b → (Val.eqv a b = true ↔ Val.cmp a b = .eq)
  | a, b, ha, hb => by
    by_cases hk : a.kindIdx = b.kindIdx
    · rw [Val.cmp, hk]
      simp only [Nat.compare_eq_eq.2 rfl, Ordering.then]
      cases a <;> cases b <;> simp [Val.kindIdx] at hk <;>
        simp only [Val.eqv, Val.cmpSame]
      case bool.bool x y => cases x <;> cases y <;> decide
      case num.num x y =>
        exact Num.eqv_iff x y (by simpa [NF, Val.nanFree] using ha) (by simpa [NF, Val.nanFree] using hb)
      case str.str x y => simp [cmpChars_eq_iff]
      case uri.uri x y => simp [cmpChars_eq_iff]
      case ref.ref x _ y _ => simp [cmpChars_eq_iff]
      case sym.sym x y => simp [cmpChars_eq_iff]
      case date.date x y => simp
      case time.time x y => simp
      case dateTime.dateTime x y => simp
      case coord.coord x1 x2 y1 y2 =>
        have ha' : x1.isNaN = false ∧ x2.isNaN = false := by simpa [NF, Val.nanFree] using ha
        have hb' : y1.isNaN = false ∧ y2.isNaN = false := by simpa [NF, Val.nanFree] using hb
        exact coordEq_iff _ _ _ _ ha'.1 ha'.2 hb'.1 hb'.2
      case xstr.xstr x1 x2 y1 y2 => simp [Ordering.then_eq_eq, cmpChars_eq_iff]
      case list.list xs ys =>
        exact eqv_iff_vals xs ys (by simpa [NF, Val.nanFree] using ha) (by simpa [NF, Val.nanFree] using hb)
      case dict.dict x y =>
        exact eqv_iff_tags x y (by simpa [NF, Val.nanFree] using ha) (by simpa [NF, Val.nanFree] using hb)
      case grid.grid m1 c1 r1 v1 m2 c2 r2 v2 =>
        have ha' : m1.nanFree = true ∧ c1.nanFree = true ∧ r1.nanFree = true := by
          simpa [NF, Val.nanFree, Bool.and_eq_true, and_assoc] using ha
        have hb' : m2.nanFree = true ∧ c2.nanFree = true ∧ r2.nanFree = true := by
          simpa [NF, Val.nanFree, Bool.and_eq_true, and_assoc] using hb
        simp only [Ordering.then_eq_eq, Bool.and_eq_true, cmpChars_eq_iff, beq_iff_eq,
          eqv_iff_otags m1 m2 ha'.1 hb'.1, eqv_iff_cols c1 c2 ha'.2.1 hb'.2.1,
          eqv_iff_rows r1 r2 ha'.2.2 hb'.2.2, and_assoc]
      all_goals simp
    · constructor
      · intro h; exact absurd (eqv_kind a b h) hk
      · intro h; exact absurd (kind_cmp_eq a b h) hk
theorem eqv_iff_vals : (a b : Vals) → NFs a → NFs b → (Vals.eqv a b = true ↔ Vals.cmp a b = .eq)
  | .nil, .nil, _, _ => by simp [Vals.eqv, Vals.cmp]
  | .nil, .cons _ _, _, _ => by simp [Vals.eqv, Vals.cmp]
  | .cons _ _, .nil, _, _ => by simp [Vals.eqv, Vals.cmp]
  | .cons a as, .cons b bs, ha, hb => by
    have ha' : a.nanFree = true ∧ as.nanFree = true := by simpa [NFs, Vals.nanFree] using ha
    have hb' : b.nanFree = true ∧ bs.nanFree = true := by simpa [NFs, Vals.nanFree] using hb
    simp only [Vals.eqv, Vals.cmp, Bool.and_eq_true, Ordering.then_eq_eq,
      eqv_iff_val a b ha'.1 hb'.1, eqv_iff_vals as bs ha'.2 hb'.2]
/-- `Tags.eqv` against keys-equal-and-values-equal -/
theorem eqv_iff_tags' : (a b : Tags) → NFt a → NFt b →
    (Tags.eqv a b = true ↔ a.keys = b.keys ∧ Tags.cmpVals a b = .eq)
  | .nil, .nil, _, _ => by simp [Tags.eqv, Tags.cmpVals, Tags.keys]
  | .nil, .cons _ _ _, _, _ => by simp [Tags.eqv, Tags.cmpVals, Tags.keys]
  | .cons _ _ _, .nil, _, _ => by simp [Tags.eqv, Tags.cmpVals, Tags.keys]
  | .cons k a as, .cons l b bs, ha, hb => by
    have ha' : a.nanFree = true ∧ as.nanFree = true := by simpa [NFt, Tags.nanFree] using ha
    have hb' : b.nanFree = true ∧ bs.nanFree = true := by simpa [NFt, Tags.nanFree] using hb
    simp only [Tags.eqv, Tags.cmpVals, Tags.keys, Bool.and_eq_true, Ordering.then_eq_eq, beq_iff_eq,
      List.cons.injEq, eqv_iff_val a b ha'.1 hb'.1, eqv_iff_tags' as bs ha'.2 hb'.2]
    constructor
    · rintro ⟨⟨h1, h2⟩, h3, h4⟩; exact ⟨⟨h1, h3⟩, h2, h4⟩
    · rintro ⟨⟨h1, h3⟩, h2, h4⟩; exact ⟨⟨h1, h2⟩, h3, h4⟩
theorem eqv_iff_tags : (a b : Tags) → NFt a → NFt b → (Tags.eqv a b = true ↔ Tags.cmp a b = .eq)
  | a, b, ha, hb => by
    rw [Tags.cmp, Ordering.then_eq_eq, cmpKeys_eq_iff]
    cases a with
    | nil => cases b <;> simp [Tags.eqv, Tags.cmpVals, Tags.keys]
    | cons k x as =>
      cases b with
      | nil => simp [Tags.eqv, Tags.cmpVals, Tags.keys]
      | cons l y bs =>
        have ha' : x.nanFree = true ∧ as.nanFree = true := by simpa [NFt, Tags.nanFree] using ha
        have hb' : y.nanFree = true ∧ bs.nanFree = true := by simpa [NFt, Tags.nanFree] using hb
        simp only [Tags.eqv, Tags.cmpVals, Tags.keys, Bool.and_eq_true, Ordering.then_eq_eq, beq_iff_eq,
          List.cons.injEq, eqv_iff_val x y ha'.1 hb'.1, eqv_iff_tags' as bs ha'.2 hb'.2]
        constructor
        · rintro ⟨⟨h1, h2⟩, h3, h4⟩; exact ⟨⟨h1, h3⟩, h2, h4⟩
        · rintro ⟨⟨h1, h3⟩, h2, h4⟩; exact ⟨⟨h1, h2⟩, h3, h4⟩
theorem eqv_iff_otags : (a b : OTags) → NFo a → NFo b → (OTags.eqv a b = true ↔ OTags.cmp a b = .eq)
  | .none, .none, _, _ => by simp [OTags.eqv, OTags.cmp]
  | .none, .some _, _, _ => by simp [OTags.eqv, OTags.cmp]
  | .some _, .none, _, _ => by simp [OTags.eqv, OTags.cmp]
  | .some a, .some b, ha, hb => by
    simp only [OTags.eqv, OTags.cmp]
    exact eqv_iff_tags a b (by simpa [NFo, OTags.nanFree] using ha) (by simpa [NFo, OTags.nanFree] using hb)
theorem eqv_iff_cols : (a b : Cols) → NFc a → NFc b → (Cols.eqv a b = true ↔ Cols.cmp a b = .eq)
  | .nil, .nil, _, _ => by simp [Cols.eqv, Cols.cmp]
  | .nil, .cons _ _ _, _, _ => by simp [Cols.eqv, Cols.cmp]
  | .cons _ _ _, .nil, _, _ => by simp [Cols.eqv, Cols.cmp]
  | .cons n m c, .cons n' m' c', ha, hb => by
    have ha' : m.nanFree = true ∧ c.nanFree = true := by simpa [NFc, Cols.nanFree] using ha
    have hb' : m'.nanFree = true ∧ c'.nanFree = true := by simpa [NFc, Cols.nanFree] using hb
    simp only [Cols.eqv, Cols.cmp, Bool.and_eq_true, Ordering.then_eq_eq, beq_iff_eq, cmpChars_eq_iff,
      eqv_iff_otags m m' ha'.1 hb'.1, eqv_iff_cols c c' ha'.2 hb'.2, and_assoc]
theorem eqv_iff_rows : (a b : Rows) → NFr a → NFr b → (Rows.eqv a b = true ↔ Rows.cmp a b = .eq)
  | .nil, .nil, _, _ => by simp [Rows.eqv, Rows.cmp]
  | .nil, .cons _ _, _, _ => by simp [Rows.eqv, Rows.cmp]
  | .cons _ _, .nil, _, _ => by simp [Rows.eqv, Rows.cmp]
  | .cons a as, .cons b bs, ha, hb => by
    have ha' : a.nanFree = true ∧ as.nanFree = true := by simpa [NFr, Rows.nanFree] using ha
    have hb' : b.nanFree = true ∧ bs.nanFree = true := by simpa [NFr, Rows.nanFree] using hb
    simp only [Rows.eqv, Rows.cmp, Bool.and_eq_true, Ordering.then_eq_eq,
      eqv_iff_tags a b ha'.1 hb'.1, eqv_iff_rows as bs ha'.2 hb'.2]
end

end Hs
