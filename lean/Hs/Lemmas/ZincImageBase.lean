/-
  C11, decoder image invariant: vocabulary.

  * `structV v`   — `v` has no lexical leaf (no Number / Date / Time / DateTime / Coord anywhere).
  * `decV v`      — the shape every value RETURNED by the Zinc reader has, whatever the text (proved in
                    `ZincImageLex`, `ZincImageParse`): ids over their alphabets, capitalised XStr types other than `C`,
                    identifier keys in strictly ascending order, grids with at least one column, identifier column
                    names, meta absent or non-empty, row keys ascending and among the column names; lexical leaves in
                    the reader's normal form (`bits = lexBits`, timestamp fields zero); dates and coordinate
                    components lexemes C01's round trip covers (`dateOk`, `decTextOk`).
  * `excluded v`  — the shapes the reader can return on which re-encoding is NOT stable (each with a kernel-checked
                    witness text in `Hs.Thm.C11`).
  * `dupCols v`   — a grid with two columns of the same name occurs in `v` (covered: `ZincImageDup*`).
  * `lexLeavesOk v` — every Number / Time / DateTime leaf of `v` is a lexeme C01's round trip covers (`wfV` of the leaf).
  * `image_good` (`ZincImageWf`) — `decV v`, `lexLeavesOk v`, not `excluded v`  ⟹  `GoodVG (asRead v)` (the hypotheses
                    of C01's round trip, column names possibly repeated) and `lexImg (asRead v) = v`.
-/
import Hs.Lemmas.ZincLazyReenc
namespace Hs.Zinc
open Hs Hs.Scan

/-! ### values without lexical leaves -/

mutual
def structV : Val → Bool
  | .null => true | .remove => true | .marker => true | .na => true | .bool _ => true
  | .str _ => true | .uri _ => true | .ref _ _ => true | .sym _ => true | .xstr _ _ => true
  | .list xs => structVs xs
  | .dict d => structT d
  | .grid md cols rows _ => structO md && structC cols && structR rows
  | .num _ => false | .date _ => false | .time _ => false | .dateTime _ => false | .coord _ _ => false
def structVs : Vals → Bool
  | .nil => true
  | .cons v vs => structV v && structVs vs
def structT : Tags → Bool
  | .nil => true
  | .cons _ v t => structV v && structT t
def structO : OTags → Bool
  | .none => true
  | .some t => structT t
def structC : Cols → Bool
  | .nil => true
  | .cons _ md c => structO md && structC c
def structR : Rows → Bool
  | .nil => true
  | .cons r rs => structT r && structR rs
end

/-! ### the shape of the reader's values -/

/-- keys ascending and among the column names -/
def rowDec (names : List (List Char)) (r : Tags) : Bool :=
  keysSorted r.keys && r.keys.all (fun k => names.contains k)
def rowsDec (names : List (List Char)) : Rows → Bool
  | .nil => true
  | .cons r rs => rowDec names r && rowsDec names rs

/-- every column has its cell in every row -/
def rowFull (names : List (List Char)) (r : Tags) : Bool := names.all (fun n => (r.get? n).isSome)
def rowsFull (names : List (List Char)) : Rows → Bool
  | .nil => true
  | .cons r rs => rowFull names r && rowsFull names rs

def colsNE : Cols → Bool
  | .nil => false
  | _ => true

mutual
def decV : Val → Bool
  | .null => true | .remove => true | .marker => true | .na => true | .bool _ => true
  | .str _ => true | .uri _ => true
  | .ref id _ => isRefId id
  | .sym s => isSymBody s
  | .xstr ty _ => isXStrType ty
  | .num n => decide (lexNumI n = n)
  | .date d => dateOk d
  | .time _ => true
  | .dateTime t => t.secs == 0 && t.ns == 0 && t.off == 0 && t.zone == [] && t.tzid == []
  | .coord a b => a.bits == lexBits && b.bits == lexBits && decTextOk a.txt && decTextOk b.txt
  | .list xs => decVs xs
  | .dict d => keysIdent d && keysSorted d.keys && decT d
  | .grid md cols rows _ =>
    metaShape md && colsNE cols && colsShapeAux cols && rowsDec cols.names rows && decO md && decC cols && decR rows
def decVs : Vals → Bool
  | .nil => true
  | .cons v vs => decV v && decVs vs
def decT : Tags → Bool
  | .nil => true
  | .cons _ v t => decV v && decT t
def decO : OTags → Bool
  | .none => true
  | .some t => decT t
def decC : Cols → Bool
  | .nil => true
  | .cons _ md c => decO md && decC c
def decR : Rows → Bool
  | .nil => true
  | .cons r rs => decT r && decR rs
end

/-! ### the exclusion list -/

mutual
/-- some grid inside `v` (or `v` itself) satisfies `P meta columns rows ver` -/
def anyGrid (P : OTags → Cols → Rows → List Char → Bool) : Val → Bool
  | .list xs => anyGridVs P xs
  | .dict d => anyGridT P d
  | .grid md cols rows ver => P md cols rows ver || anyGridO P md || anyGridC P cols || anyGridR P rows
  | _ => false
def anyGridVs (P : OTags → Cols → Rows → List Char → Bool) : Vals → Bool
  | .nil => false
  | .cons v vs => anyGrid P v || anyGridVs P vs
def anyGridT (P : OTags → Cols → Rows → List Char → Bool) : Tags → Bool
  | .nil => false
  | .cons _ v t => anyGrid P v || anyGridT P t
def anyGridO (P : OTags → Cols → Rows → List Char → Bool) : OTags → Bool
  | .none => false
  | .some t => anyGridT P t
def anyGridC (P : OTags → Cols → Rows → List Char → Bool) : Cols → Bool
  | .nil => false
  | .cons _ md c => anyGridO P md || anyGridC P c
def anyGridR (P : OTags → Cols → Rows → List Char → Bool) : Rows → Bool
  | .nil => false
  | .cons r rs => anyGridT P r || anyGridR P rs
end

/-- the grid version is not the one the writer prints -/
def exVer (ver : List Char) : Bool := ver != ['3', '.', '0']
/-- Z4: exactly one column and a row without its cell -/
def exZ4 (cols : Cols) (rows : Rows) : Bool := cols.length == 1 && !rowsFull cols.names rows
/-- two columns of the same name -/
def exDup (cols : Cols) : Bool := !nodupB cols.names

/-- `v` contains a grid whose `ver` is not "3.0" -/
def hasVer (v : Val) : Bool := anyGrid (fun _ _ _ ver => exVer ver) v
/-- `v` contains a single-column grid with a row lacking its cell (known finding Z4) -/
def hasZ4 (v : Val) : Bool := anyGrid (fun _ cols rows _ => exZ4 cols rows) v
/-- `v` contains a grid with two columns of the same name (NOT an exclusion: `ZincImageDup*` cover it) -/
def dupCols (v : Val) : Bool := anyGrid (fun _ cols _ _ => exDup cols) v

/-- **the exclusion list**: the two shapes the reader can return on which one re-encode changes the model's value.
`hasZ4` is known finding Z4.  `hasVer` is not a defect: `ver` is the format version of the document, not a component
of the value in the property's sense; the writer always writes 3.0, the model's `Val` carries the string, so the
literal statement needs the exclusion (witness `Hs.C11.verText`). -/
def excluded (v : Val) : Bool := hasVer v || hasZ4 v

/-- the two conditions at one grid node -/
def badNode (_md : OTags) (cols : Cols) (rows : Rows) (ver : List Char) : Bool :=
  exVer ver || exZ4 cols rows

mutual
theorem anyGrid_or (P Q : OTags → Cols → Rows → List Char → Bool) :
    ∀ v : Val, anyGrid (fun a b c d => P a b c d || Q a b c d) v = (anyGrid P v || anyGrid Q v)
  | .list xs => by simp only [anyGrid]; exact anyGridVs_or P Q xs
  | .dict d => by simp only [anyGrid]; exact anyGridT_or P Q d
  | .grid md cols rows ver => by
    simp only [anyGrid, anyGridO_or P Q md, anyGridC_or P Q cols, anyGridR_or P Q rows]
    cases P md cols rows ver <;> cases Q md cols rows ver <;> cases anyGridO P md <;> cases anyGridO Q md <;>
      cases anyGridC P cols <;> cases anyGridC Q cols <;> cases anyGridR P rows <;> cases anyGridR Q rows <;> rfl
  | .null => rfl | .remove => rfl | .marker => rfl | .na => rfl | .bool _ => rfl | .num _ => rfl
  | .str _ => rfl | .uri _ => rfl | .ref _ _ => rfl | .sym _ => rfl | .date _ => rfl | .time _ => rfl
  | .dateTime _ => rfl | .coord _ _ => rfl | .xstr _ _ => rfl
theorem anyGridVs_or (P Q : OTags → Cols → Rows → List Char → Bool) :
    ∀ xs : Vals, anyGridVs (fun a b c d => P a b c d || Q a b c d) xs = (anyGridVs P xs || anyGridVs Q xs)
  | .nil => rfl
  | .cons v vs => by
    simp only [anyGridVs, anyGrid_or P Q v, anyGridVs_or P Q vs]
    cases anyGrid P v <;> cases anyGrid Q v <;> cases anyGridVs P vs <;> cases anyGridVs Q vs <;> rfl
theorem anyGridT_or (P Q : OTags → Cols → Rows → List Char → Bool) :
    ∀ t : Tags, anyGridT (fun a b c d => P a b c d || Q a b c d) t = (anyGridT P t || anyGridT Q t)
  | .nil => rfl
  | .cons _ v t => by
    simp only [anyGridT, anyGrid_or P Q v, anyGridT_or P Q t]
    cases anyGrid P v <;> cases anyGrid Q v <;> cases anyGridT P t <;> cases anyGridT Q t <;> rfl
theorem anyGridO_or (P Q : OTags → Cols → Rows → List Char → Bool) :
    ∀ o : OTags, anyGridO (fun a b c d => P a b c d || Q a b c d) o = (anyGridO P o || anyGridO Q o)
  | .none => rfl
  | .some t => by simp only [anyGridO]; exact anyGridT_or P Q t
theorem anyGridC_or (P Q : OTags → Cols → Rows → List Char → Bool) :
    ∀ c : Cols, anyGridC (fun a b c d => P a b c d || Q a b c d) c = (anyGridC P c || anyGridC Q c)
  | .nil => rfl
  | .cons _ md c => by
    simp only [anyGridC, anyGridO_or P Q md, anyGridC_or P Q c]
    cases anyGridO P md <;> cases anyGridO Q md <;> cases anyGridC P c <;> cases anyGridC Q c <;> rfl
theorem anyGridR_or (P Q : OTags → Cols → Rows → List Char → Bool) :
    ∀ r : Rows, anyGridR (fun a b c d => P a b c d || Q a b c d) r = (anyGridR P r || anyGridR Q r)
  | .nil => rfl
  | .cons r rs => by
    simp only [anyGridR, anyGridT_or P Q r, anyGridR_or P Q rs]
    cases anyGridT P r <;> cases anyGridT Q r <;> cases anyGridR P rs <;> cases anyGridR Q rs <;> rfl
end

/-- no bad node anywhere = not excluded -/
theorem badNode_false (v : Val) (hx : excluded v = false) : anyGrid badNode v = false := by
  have h1 : anyGrid badNode v =
      (anyGrid (fun _ _ _ ver => exVer ver) v || anyGrid (fun _ cols rows _ => exZ4 cols rows) v) := by
    unfold badNode
    rw [anyGrid_or (fun _ _ _ ver => exVer ver) (fun _ cols rows _ => exZ4 cols rows)]
  rw [h1]
  simpa [excluded, hasVer, hasZ4] using hx

/-! ### the lexical leaves -/

mutual
/-- every Number / Time / DateTime leaf is a lexeme the round trip of C01 covers (`wfV` of the leaf, the timestamp
printed as read).  Date and Coord leaves need no hypothesis: the reader's dates and coordinates ARE such lexemes
(`ZincImageLeaf`, part of `decV`). -/
def lexLeavesOk : Val → Bool
  | .num n => numOk n
  | .time t => timeOk t
  | .dateTime t => dtOk { t with tzid := "UTC".toList }
  | .list xs => lexLeavesOks xs
  | .dict d => lexLeavesOkT d
  | .grid md cols rows _ => lexLeavesOkO md && lexLeavesOkC cols && lexLeavesOkR rows
  | _ => true
def lexLeavesOks : Vals → Bool
  | .nil => true
  | .cons v vs => lexLeavesOk v && lexLeavesOks vs
def lexLeavesOkT : Tags → Bool
  | .nil => true
  | .cons _ v t => lexLeavesOk v && lexLeavesOkT t
def lexLeavesOkO : OTags → Bool
  | .none => true
  | .some t => lexLeavesOkT t
def lexLeavesOkC : Cols → Bool
  | .nil => true
  | .cons _ md c => lexLeavesOkO md && lexLeavesOkC c
def lexLeavesOkR : Rows → Bool
  | .nil => true
  | .cons r rs => lexLeavesOkT r && lexLeavesOkR rs
end

mutual
theorem lexLeaves_of_struct : ∀ v : Val, structV v = true → lexLeavesOk v = true
  | .list xs, h => by simp only [structV] at h; simp only [lexLeavesOk]; exact lexLeaves_of_structs xs h
  | .dict d, h => by simp only [structV] at h; simp only [lexLeavesOk]; exact lexLeaves_of_structT d h
  | .grid md cols rows _, h => by
    simp only [structV, Bool.and_eq_true] at h
    simp only [lexLeavesOk, Bool.and_eq_true]
    exact ⟨⟨lexLeaves_of_structO md h.1.1, lexLeaves_of_structC cols h.1.2⟩, lexLeaves_of_structR rows h.2⟩
  | .null, _ => rfl | .remove, _ => rfl | .marker, _ => rfl | .na, _ => rfl | .bool _, _ => rfl
  | .str _, _ => rfl | .uri _, _ => rfl | .ref _ _, _ => rfl | .sym _, _ => rfl | .xstr _ _, _ => rfl
  | .num _, h => by simp [structV] at h
  | .date _, h => by simp [structV] at h
  | .time _, h => by simp [structV] at h
  | .dateTime _, h => by simp [structV] at h
  | .coord _ _, h => by simp [structV] at h
theorem lexLeaves_of_structs : ∀ xs : Vals, structVs xs = true → lexLeavesOks xs = true
  | .nil, _ => rfl
  | .cons v vs, h => by
    simp only [structVs, Bool.and_eq_true] at h
    simp only [lexLeavesOks, Bool.and_eq_true]; exact ⟨lexLeaves_of_struct v h.1, lexLeaves_of_structs vs h.2⟩
theorem lexLeaves_of_structT : ∀ t : Tags, structT t = true → lexLeavesOkT t = true
  | .nil, _ => rfl
  | .cons _ v t, h => by
    simp only [structT, Bool.and_eq_true] at h
    simp only [lexLeavesOkT, Bool.and_eq_true]; exact ⟨lexLeaves_of_struct v h.1, lexLeaves_of_structT t h.2⟩
theorem lexLeaves_of_structO : ∀ o : OTags, structO o = true → lexLeavesOkO o = true
  | .none, _ => rfl
  | .some t, h => by simp only [structO] at h; simp only [lexLeavesOkO]; exact lexLeaves_of_structT t h
theorem lexLeaves_of_structC : ∀ c : Cols, structC c = true → lexLeavesOkC c = true
  | .nil, _ => rfl
  | .cons _ md c, h => by
    simp only [structC, Bool.and_eq_true] at h
    simp only [lexLeavesOkC, Bool.and_eq_true]; exact ⟨lexLeaves_of_structO md h.1, lexLeaves_of_structC c h.2⟩
theorem lexLeaves_of_structR : ∀ r : Rows, structR r = true → lexLeavesOkR r = true
  | .nil, _ => rfl
  | .cons r rs, h => by
    simp only [structR, Bool.and_eq_true] at h
    simp only [lexLeavesOkR, Bool.and_eq_true]; exact ⟨lexLeaves_of_structT r h.1, lexLeaves_of_structR rs h.2⟩
end

end Hs.Zinc
