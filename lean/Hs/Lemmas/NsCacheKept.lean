/-
  Hs.Lemmas.NsCacheKept — callers that KEEP an answer of `supertypes_of` / `inheritance` (Hs.Model.NsCacheCaller):
  the concurrent system started with arbitrary thread programs.

  * `AInv`  (answers): `Inv` + every thread's remaining program is `Good`.  Preserved by every step of every
    thread WHATEVER guards are held - a kept answer never changes an answer.
  * `SInv`  (guards): every thread obeys `Safe` (drops each answer before its next cache operation).  Preserved
    by every step, needs no hypothesis on the caches; gives deadlock freedom.
  * `Stuck` states are fixed points of every step, hence deadlocks; a thread that is alone never finishes once it
    is stuck.
  * warm programs (`allHit`) never wait and finish after `hitLen` steps of their own.
  * caller scripts: `callerP` is `Good` for `scriptAns`; `dropsBeforeNext` scripts are `Safe`.
-/
import Hs.Model.NsCacheCaller
import Hs.Lemmas.NsCacheSys
namespace Hs.NsCache
open Hs Hs.Ns

variable {cfg : Cfg}

/-! ### `step`, thread by thread -/

theorem step_absent {s : State} {t : Nat} (h : s.thr[t]? = none) : step cfg s t = s := by
  unfold step; rw [h]

theorem step_length (s : State) (t : Nat) : (step cfg s t).thr.length = s.thr.length := by
  unfold step
  cases ht : s.thr[t]? with
  | none => rfl
  | some th =>
    simp only
    cases hp : th.prog with
    | ret a => rfl
    | get c k cont => simp
    | has c k cont => simp
    | ins c k v cont => simp only; split <;> simp
    | drop cont => simp

theorem run_length (sched : List Nat) : ∀ s : State, (run cfg s sched).thr.length = s.thr.length := by
  induction sched with
  | nil => intro s; rfl
  | cons t sched ih => intro s; exact (ih (step cfg s t)).trans (step_length s t)

theorem step_thr_other (s : State) {t u : Nat} (h : u ≠ t) : (step cfg s u).thr[t]? = s.thr[t]? := by
  unfold step
  cases hu : s.thr[u]? with
  | none => rfl
  | some th =>
    simp only
    cases hp : th.prog with
    | ret a => rfl
    | get c k cont => simp [List.getElem?_set_ne h]
    | has c k cont => simp [List.getElem?_set_ne h]
    | ins c k v cont => simp only; split <;> simp [List.getElem?_set_ne h]
    | drop cont => simp [List.getElem?_set_ne h]

theorem run_append (s : State) (a b : List Nat) : run cfg s (a ++ b) = run cfg (run cfg s a) b := by
  simp [run, List.foldl_append]

/-! ### answers: the invariant that ignores guards -/

/-- `Inv` and: every thread's remaining program is correct (against every invariant-preserving, growing
environment) for ITS post-condition.  Says nothing about guards. -/
structure AInv (cfg : Cfg) (post : Nat → List Ans → Prop) (s : State) : Prop where
  inv  : Inv cfg s.c
  good : ∀ (t : Nat) (th : Thread), s.thr[t]? = some th → Good cfg (post t) s.c th.prog

theorem ainv_update {post : Nat → List Ans → Prop} {s : State} (h : AInv cfg post s)
    (t : Nat) (th' : Thread) (cs' : Caches) (hle : Le s.c cs') (hinv : Inv cfg cs')
    (hg : Good cfg (post t) cs' th'.prog) :
    AInv cfg post { c := cs', thr := s.thr.set t th' } := by
  refine ⟨hinv, ?_⟩
  intro u thu hu
  simp only at hu
  by_cases hut : t = u
  · subst hut
    rw [List.getElem?_set] at hu
    simp only [if_true] at hu
    split at hu
    · cases hu; exact hg
    · cases hu
  · rw [List.getElem?_set_ne hut] at hu
    exact good_mono (h.good u thu hu) cs' hle

/-- every step of every thread preserves `AInv`, and the caches only grow -/
theorem ainv_step' {post : Nat → List Ans → Prop} {s : State} (h : AInv cfg post s) (t : Nat) :
    AInv cfg post (step cfg s t) ∧ Le s.c (step cfg s t).c := by
  unfold step
  cases ht : s.thr[t]? with
  | none => exact ⟨h, le_refl _⟩
  | some th =>
    simp only
    have hg := h.good t th ht
    cases hp : th.prog with
    | ret a => exact ⟨h, le_refl _⟩
    | get c k cont =>
      simp only
      rw [hp] at hg
      cases hg with
      | get hk => exact ⟨ainv_update h t _ s.c (le_refl _) h.inv (hk s.c (le_refl _) h.inv), le_refl _⟩
    | has c k cont =>
      simp only
      rw [hp] at hg
      cases hg with
      | has hk => exact ⟨ainv_update h t _ s.c (le_refl _) h.inv (hk s.c (le_refl _) h.inv), le_refl _⟩
    | ins c k v cont =>
      simp only
      split
      · exact ⟨h, le_refl _⟩
      · rw [hp] at hg
        cases hg with
        | ins hc hk =>
          exact ⟨ainv_update h t _ (put c k v s.c) (le_put h.inv hc) (inv_put h.inv hc)
            (hk _ (le_refl _) (inv_put h.inv hc)), le_put h.inv hc⟩
    | drop cont =>
      simp only
      rw [hp] at hg
      cases hg with
      | drop hk => exact ⟨ainv_update h t _ s.c (le_refl _) h.inv hk, le_refl _⟩

theorem ainv_step {post : Nat → List Ans → Prop} {s : State} (h : AInv cfg post s) (t : Nat) :
    AInv cfg post (step cfg s t) := (ainv_step' h t).1

theorem ainv_run {post : Nat → List Ans → Prop} (sched : List Nat) :
    ∀ s : State, AInv cfg post s → AInv cfg post (run cfg s sched) := by
  induction sched with
  | nil => intro s h; exact h
  | cons t sched ih => intro s h; exact ih _ (ainv_step h t)

theorem ainv_initP {post : Nat → List Ans → Prop} {c0 : Caches} (h0 : Inv cfg c0)
    {progs : List (Prog (List Ans))} (hg : ∀ t p, progs[t]? = some p → Good cfg (post t) c0 p) :
    AInv cfg post (initP c0 progs) := by
  refine ⟨h0, ?_⟩
  intro t th ht
  simp only [initP, List.getElem?_map] at ht
  cases hq : progs[t]? with
  | none => rw [hq] at ht; cases ht
  | some p =>
    rw [hq] at ht
    simp only [Option.map_some, Option.some.injEq] at ht
    subst ht
    exact hg t p hq

/-- a finished thread returned what its post-condition says -/
theorem ainv_answer {post : Nat → List Ans → Prop} {s : State} (h : AInv cfg post s) {t : Nat} {th : Thread}
    {as : List Ans} (ht : s.thr[t]? = some th) (hp : th.prog = .ret as) : post t as := by
  have hg := h.good t th ht
  rw [hp] at hg
  cases hg with
  | ret h => exact h

/-! ### guards: the discipline alone -/

/-- every thread drops each answer before its next cache operation and holds at most one guard -/
def SInv (s : State) : Prop :=
  ∀ (t : Nat) (th : Thread), s.thr[t]? = some th → Safe (!th.held.isEmpty) th.prog ∧ th.held.length ≤ 1

theorem sinv_update {s : State} (h : SInv s) (t : Nat) (th' : Thread) (cs' : Caches)
    (hs : Safe (!th'.held.isEmpty) th'.prog ∧ th'.held.length ≤ 1) :
    SInv { c := cs', thr := s.thr.set t th' } := by
  intro u thu hu
  simp only at hu
  by_cases hut : t = u
  · subst hut
    rw [List.getElem?_set] at hu
    simp only [if_true] at hu
    split at hu
    · cases hu; exact hs
    · cases hu
  · rw [List.getElem?_set_ne hut] at hu
    exact h u thu hu

/-- the discipline is preserved by every step, whatever the caches contain -/
theorem sinv_step {s : State} (h : SInv s) (t : Nat) : SInv (step cfg s t) := by
  unfold step
  cases ht : s.thr[t]? with
  | none => exact h
  | some th =>
    simp only
    have hs := h t th ht
    cases hp : th.prog with
    | ret a => exact h
    | get c k cont =>
      simp only
      have hheld : th.held = [] := by
        apply held_nil_of_safe_false hs.1
        intro cont' h'; rw [hp] at h'; cases h'
      rw [hp] at hs
      have hsafe := hs.1
      rw [hheld] at hsafe
      simp only [List.isEmpty_nil, Bool.not_true] at hsafe
      cases hsafe with
      | get s0 s1 =>
        refine sinv_update h t _ s.c ?_
        simp only [hheld]
        cases hl : look c k s.c with
        | none => simp; exact s0
        | some v => simp; exact s1 v
    | has c k cont =>
      simp only
      have hheld : th.held = [] := by
        apply held_nil_of_safe_false hs.1
        intro cont' h'; rw [hp] at h'; cases h'
      rw [hp] at hs
      refine sinv_update h t _ s.c ⟨?_, hs.2⟩
      have hsafe := hs.1
      rw [hheld] at hsafe ⊢
      simp only [List.isEmpty_nil, Bool.not_true] at hsafe ⊢
      cases hsafe with
      | has s0 => exact s0 _
    | ins c k v cont =>
      simp only
      split
      · exact h
      · have hheld : th.held = [] := by
          apply held_nil_of_safe_false hs.1
          intro cont' h'; rw [hp] at h'; cases h'
        rw [hp] at hs
        refine sinv_update h t _ _ ⟨?_, hs.2⟩
        have hsafe := hs.1
        rw [hheld] at hsafe ⊢
        simp only [List.isEmpty_nil, Bool.not_true] at hsafe ⊢
        cases hsafe with
        | ins s0 => exact s0
    | drop cont =>
      simp only
      rw [hp] at hs
      refine sinv_update h t _ s.c ?_
      simp only
      cases hh : th.held with
      | nil =>
        have hsafe := hs.1
        rw [hh] at hsafe
        simp only [List.isEmpty_nil, Bool.not_true] at hsafe
        cases hsafe
      | cons x xs =>
        have hlen := hs.2
        rw [hh] at hlen
        simp only [List.length_cons] at hlen
        have hxs : xs = [] := by
          cases xs with
          | nil => rfl
          | cons y ys => simp at hlen
        subst hxs
        have hsafe := hs.1
        rw [hh] at hsafe
        simp only [List.isEmpty_cons, Bool.not_false] at hsafe
        cases hsafe with
        | drop s0 => simp; exact s0

theorem sinv_run (sched : List Nat) : ∀ s : State, SInv s → SInv (run cfg s sched) := by
  induction sched with
  | nil => intro s h; exact h
  | cons t sched ih => intro s h; exact ih _ (sinv_step h t)

theorem sinv_initP (c0 : Caches) {progs : List (Prog (List Ans))} (hs : ∀ p ∈ progs, Safe false p) :
    SInv (initP c0 progs) := by
  intro t th ht
  simp only [initP, List.getElem?_map] at ht
  cases hq : progs[t]? with
  | none => rw [hq] at ht; cases ht
  | some p =>
    rw [hq] at ht
    simp only [Option.map_some, Option.some.injEq] at ht
    subst ht
    exact ⟨by simpa using hs p (List.mem_of_getElem? hq), by simp⟩

/-- under the discipline: a guard holder is about to drop, so it is enabled -/
theorem sinv_holder_enabled {s : State} (h : SInv s) {t : Nat} {th : Thread} (ht : s.thr[t]? = some th)
    (hh : th.held ≠ []) : enabled cfg s t = true := by
  have hs := (h t th ht).1
  cases hheld : th.held with
  | nil => exact absurd hheld hh
  | cons x xs =>
    rw [hheld] at hs
    simp only [List.isEmpty_cons, Bool.not_false] at hs
    obtain ⟨cont, hp⟩ := safe_true_is_drop hs
    simp [enabled, finished, blocked, ht, hp, Prog.isRet]

/-- under the discipline: as long as some thread has not finished, some thread can take a step -/
theorem sinv_some_enabled {s : State} (h : SInv s) (t : Nat) (hf : finished s t = false) :
    ∃ u, enabled cfg s u = true := by
  by_cases hb : blocked cfg s t = true
  · have hb' := hb
    unfold blocked at hb'
    cases ht : s.thr[t]? with
    | none => rw [ht] at hb'; cases hb'
    | some th =>
      rw [ht] at hb'
      cases hp : th.prog with
      | ins c k v cont =>
        simp only [hp, shardHeld] at hb'
        obtain ⟨u, hu, hany⟩ := List.any_eq_true.1 hb'
        obtain ⟨i, hi⟩ := List.mem_iff_getElem?.1 hu
        refine ⟨i, sinv_holder_enabled h hi ?_⟩
        intro hnil
        rw [hnil] at hany
        simp at hany
      | ret a => simp [hp] at hb'
      | get c k cont => simp [hp] at hb'
      | has c k cont => simp [hp] at hb'
      | drop cont => simp [hp] at hb'
  · exact ⟨t, by simp [enabled, hf, hb]⟩

/-! ### stuck states -/

/-- no thread of a stuck state can move -/
theorem stuck_step {s : State} (h : Stuck cfg s) (t : Nat) : step cfg s t = s := by
  cases hf : finished s t with
  | true =>
    unfold finished at hf
    unfold step
    cases ht : s.thr[t]? with
    | none => rfl
    | some th =>
      rw [ht] at hf
      simp only at hf ⊢
      cases hp : th.prog with
      | ret a => rfl
      | get c k cont => rw [hp] at hf; cases hf
      | has c k cont => rw [hp] at hf; cases hf
      | ins c k v cont => rw [hp] at hf; cases hf
      | drop cont => rw [hp] at hf; cases hf
  | false =>
    have hb := h.2 t hf
    unfold blocked at hb
    unfold step
    cases ht : s.thr[t]? with
    | none => rfl
    | some th =>
      rw [ht] at hb
      simp only at hb ⊢
      cases hp : th.prog with
      | ret a => rfl
      | get c k cont => rw [hp] at hb; cases hb
      | has c k cont => rw [hp] at hb; cases hb
      | ins c k v cont => rw [hp] at hb; simp only at hb ⊢; rw [hb]; rfl
      | drop cont => rw [hp] at hb; cases hb

theorem stuck_run {s : State} (h : Stuck cfg s) (sched : List Nat) : run cfg s sched = s := by
  induction sched with
  | nil => rfl
  | cons t sched ih =>
    show run cfg (step cfg s t) sched = s
    rw [stuck_step h t]; exact ih

/-- a stuck state is a deadlock: it stays stuck under every schedule extension -/
theorem stuck_deadlock {s : State} (h : Stuck cfg s) : Deadlock cfg s := fun sched => by
  rw [stuck_run h sched]; exact h

theorem deadlock_stuck {s : State} (h : Deadlock cfg s) : Stuck cfg s := h []

theorem stuck_no_enabled {s : State} (h : Stuck cfg s) (u : Nat) : enabled cfg s u = false := by
  unfold enabled
  cases hf : finished s u with
  | true => rfl
  | false => rw [h.2 u hf]; rfl

theorem finished_absent {s : State} {t : Nat} (h : s.thr.length ≤ t) : finished s t = true := by
  unfold finished
  rw [List.getElem?_eq_none h]

theorem stuckB_sound {s : State} (h : stuckB cfg s = true) : Stuck cfg s := by
  unfold stuckB at h
  rw [Bool.and_eq_true] at h
  obtain ⟨h1, h2⟩ := h
  constructor
  · obtain ⟨t, _, ht⟩ := List.any_eq_true.1 h1
    exact ⟨t, by simpa using ht⟩
  · intro t hf
    by_cases hlt : t < s.thr.length
    · have := List.all_eq_true.1 h2 t (List.mem_range.2 hlt)
      rw [hf] at this
      simpa using this
    · rw [finished_absent (Nat.le_of_not_lt hlt)] at hf; cases hf

/-! ### a thread that is alone -/

theorem run_replicate_succ (s : State) (t n : Nat) :
    run cfg s (List.replicate (n + 1) t) = run cfg (step cfg s t) (List.replicate n t) := rfl

/-- with one thread only the number of times it is scheduled matters -/
theorem run_single (sched : List Nat) : ∀ s : State, s.thr.length = 1 →
    run cfg s sched = run cfg s (List.replicate (sched.count 0) 0) := by
  induction sched with
  | nil => intro s _; rfl
  | cons t sched ih =>
    intro s hlen
    by_cases ht : t = 0
    · subst ht
      rw [List.count_cons_self, run_replicate_succ]
      exact ih (step cfg s 0) ((step_length s 0).trans hlen)
    · have hnone : s.thr[t]? = none := List.getElem?_eq_none (by omega)
      show run cfg (step cfg s t) sched = _
      rw [step_absent hnone, List.count_cons_of_ne ht]
      exact ih s hlen

/-- a lone thread that is unfinished during its first `N` steps and stuck after them never finishes, whatever
the schedule -/
theorem never_finishes_single {s : State} (hlen : s.thr.length = 1) (N : Nat)
    (hpre : ∀ n, n ≤ N → finished (run cfg s (List.replicate n 0)) 0 = false)
    (hst : Stuck cfg (run cfg s (List.replicate N 0))) (sched : List Nat) :
    finished (run cfg s sched) 0 = false := by
  rw [run_single sched s hlen]
  by_cases hn : sched.count 0 ≤ N
  · exact hpre _ hn
  · have : sched.count 0 = N + (sched.count 0 - N) := by omega
    rw [this, ← List.replicate_append_replicate, run_append, stuck_run hst]
    exact hpre N (Nat.le_refl N)

/-! ### warm programs never wait -/

theorem hitRun_mono {α : Type} {cs cs' : Caches} (hle : Le cs cs') {p : Prog α} {a : α}
    (h : hitRun cs p = some a) : hitRun cs' p = some a := by
  induction p with
  | ret b => exact h
  | get c k cont ih =>
    simp only [hitRun] at h ⊢
    cases hl : look c k cs with
    | none => rw [hl] at h; cases h
    | some v =>
      rw [hl] at h
      rw [hle _ _ _ hl]
      exact ih _ h
  | has c k cont ih =>
    simp only [hitRun] at h ⊢
    cases hl : look c k cs with
    | none => rw [hl] at h; simp at h
    | some v =>
      rw [hl] at h
      rw [hle _ _ _ hl]
      simp only [Option.isSome_some, if_true] at h ⊢
      exact ih _ h
  | ins c k v cont _ => simp [hitRun] at h
  | drop cont ih =>
    simp only [hitRun] at h ⊢
    exact ih h

theorem allHit_mono {α : Type} {cs cs' : Caches} (hle : Le cs cs') {p : Prog α}
    (h : allHit cs p = true) : allHit cs' p = true := by
  unfold allHit at h ⊢
  cases hr : hitRun cs p with
  | none => rw [hr] at h; cases h
  | some a => rw [hitRun_mono hle hr]; rfl

theorem hitLen_mono {α : Type} {cs cs' : Caches} (hle : Le cs cs') {p : Prog α}
    (h : allHit cs p = true) : hitLen cs' p = hitLen cs p := by
  induction p with
  | ret b => rfl
  | get c k cont ih =>
    simp only [allHit, hitRun, hitLen] at h ⊢
    cases hl : look c k cs with
    | none => rw [hl] at h; cases h
    | some v =>
      rw [hl] at h
      rw [hle _ _ _ hl]
      simp only
      rw [ih _ h]
  | has c k cont ih =>
    simp only [allHit, hitRun, hitLen] at h ⊢
    cases hl : look c k cs with
    | none => rw [hl] at h; simp at h
    | some v =>
      rw [hl] at h
      simp only [Option.isSome_some, if_true] at h
      rw [ih _ h]
  | ins c k v cont _ => simp [allHit, hitRun] at h
  | drop cont ih =>
    simp only [allHit, hitRun, hitLen] at h ⊢
    rw [ih h]

/-- the warm run of a sequence is the sequence of the warm runs -/
theorem hitRun_bind {α β : Type} (cs : Caches) (p : Prog α) (f : α → Prog β) :
    hitRun cs (p.bind f) = (hitRun cs p).bind fun a => hitRun cs (f a) := by
  induction p with
  | ret a => rfl
  | get c k cont ih =>
    simp only [Prog.bind, hitRun]
    cases look c k cs with
    | none => rfl
    | some v => exact ih _
  | has c k cont ih =>
    simp only [Prog.bind, hitRun]
    split
    · exact ih _
    · rfl
  | ins c k v cont _ => rfl
  | drop cont ih => simp only [Prog.bind, hitRun]; exact ih

/-- one step of ANY thread `u` keeps thread `t` warm; a step of `t` itself is one step of its warm run -/
theorem warm_step {post : Nat → List Ans → Prop} {s : State} (h : AInv cfg post s) {t : Nat} {th : Thread}
    (ht : s.thr[t]? = some th) (hw : allHit s.c th.prog = true) (u : Nat) :
    ∃ th', (step cfg s u).thr[t]? = some th' ∧ allHit (step cfg s u).c th'.prog = true ∧
      hitLen (step cfg s u).c th'.prog = hitLen s.c th.prog - (if u = t then 1 else 0) := by
  by_cases hut : u = t
  · subst hut
    simp only [if_true]
    unfold step
    rw [ht]
    simp only
    cases hp : th.prog with
    | ret a =>
      refine ⟨th, ht, hw, ?_⟩
      rw [hp]; rfl
    | get c k cont =>
      rw [hp] at hw
      simp only [allHit, hitRun] at hw
      cases hl : look c k s.c with
      | none => rw [hl] at hw; cases hw
      | some v =>
        rw [hl] at hw
        refine ⟨_, List.getElem?_set_self (List.getElem?_eq_some_iff.1 ht).1, ?_, ?_⟩
        · simpa [allHit, hl] using hw
        · simp [hitLen, hl]
    | has c k cont =>
      rw [hp] at hw
      simp only [allHit, hitRun] at hw
      cases hl : look c k s.c with
      | none => rw [hl] at hw; simp at hw
      | some v =>
        rw [hl] at hw
        simp only [Option.isSome_some, if_true] at hw
        refine ⟨_, List.getElem?_set_self (List.getElem?_eq_some_iff.1 ht).1, ?_, ?_⟩
        · simpa [allHit, hl] using hw
        · simp [hitLen, hl]
    | ins c k v cont =>
      rw [hp] at hw
      simp [allHit, hitRun] at hw
    | drop cont =>
      rw [hp] at hw
      simp only [allHit, hitRun] at hw
      refine ⟨_, List.getElem?_set_self (List.getElem?_eq_some_iff.1 ht).1, ?_, ?_⟩
      · simpa [allHit] using hw
      · simp [hitLen]
  · simp only [hut, if_false, Nat.sub_zero]
    have hle := (ainv_step' h u).2
    exact ⟨th, by rw [step_thr_other s hut]; exact ht, allHit_mono hle hw, hitLen_mono hle hw⟩

theorem warm_run {post : Nat → List Ans → Prop} {t : Nat} (sched : List Nat) :
    ∀ (s : State) (th : Thread), AInv cfg post s → s.thr[t]? = some th → allHit s.c th.prog = true →
    ∃ th', (run cfg s sched).thr[t]? = some th' ∧ allHit (run cfg s sched).c th'.prog = true ∧
      hitLen (run cfg s sched).c th'.prog = hitLen s.c th.prog - sched.count t := by
  induction sched with
  | nil => intro s th _ ht hw; exact ⟨th, ht, hw, by show hitLen s.c th.prog = _; simp⟩
  | cons u sched ih =>
    intro s th h ht hw
    obtain ⟨th1, ht1, hw1, hl1⟩ := warm_step h ht hw u
    obtain ⟨th2, ht2, hw2, hl2⟩ := ih (step cfg s u) th1 (ainv_step h u) ht1 hw1
    refine ⟨th2, ht2, hw2, ?_⟩
    show hitLen (run cfg (step cfg s u) sched).c th2.prog = _
    rw [hl2, hl1, List.count_cons]
    by_cases hut : u = t
    · simp [hut]; omega
    · simp [hut]

theorem allHit_not_ins {α : Type} {cs : Caches} {p : Prog α} (h : allHit cs p = true) :
    ∀ c k v cont, p ≠ .ins c k v cont := by
  intro c k v cont hp
  rw [hp] at h
  simp [allHit, hitRun] at h

theorem allHit_hitLen_zero {α : Type} {cs : Caches} {p : Prog α} (h : allHit cs p = true)
    (h0 : hitLen cs p = 0) : p.isRet = true := by
  cases p with
  | ret a => rfl
  | get c k cont =>
    simp only [allHit, hitRun, hitLen] at h h0
    cases hl : look c k cs with
    | none => rw [hl] at h; cases h
    | some v => rw [hl] at h0; simp at h0
  | has c k cont => simp [hitLen] at h0
  | ins c k v cont => simp [allHit, hitRun] at h
  | drop cont => simp [hitLen] at h0

/-- a warm thread is never blocked, and has finished once it was scheduled `hitLen` times -/
theorem warm_never_blocked {post : Nat → List Ans → Prop} {s : State} (h : AInv cfg post s) {t : Nat}
    {th : Thread} (ht : s.thr[t]? = some th) (hw : allHit s.c th.prog = true) (sched : List Nat) :
    blocked cfg (run cfg s sched) t = false ∧
    (hitLen s.c th.prog ≤ sched.count t → finished (run cfg s sched) t = true) := by
  obtain ⟨th', ht', hw', hl'⟩ := warm_run sched s th h ht hw
  constructor
  · unfold blocked
    rw [ht']
    simp only
    cases hp : th'.prog with
    | ins c k v cont => exact absurd hp (allHit_not_ins hw' c k v cont)
    | ret a => rfl
    | get c k cont => rfl
    | has c k cont => rfl
    | drop cont => rfl
  · intro hle
    unfold finished
    rw [ht']
    exact allHit_hitLen_zero hw' (by rw [hl']; omega)

/-! ### the guard discipline with a result-dependent end state -/

/-- like `Safe`, but the program ends holding a guard exactly when `g` of its result is true -/
inductive SafeTo {α : Type} (g : α → Bool) : Bool → Prog α → Prop
  | ret {a : α} {h : Bool} : h = g a → SafeTo g h (.ret a)
  | get {c : CacheId} {k : Name} {cont : Option V → Prog α} :
      SafeTo g false (cont none) → (∀ v, SafeTo g true (cont (some v))) → SafeTo g false (.get c k cont)
  | has {c : CacheId} {k : Name} {cont : Bool → Prog α} :
      (∀ b, SafeTo g false (cont b)) → SafeTo g false (.has c k cont)
  | ins {c : CacheId} {k : Name} {v : V} {cont : Prog α} : SafeTo g false cont → SafeTo g false (.ins c k v cont)
  | drop {cont : Prog α} : SafeTo g false cont → SafeTo g true (.drop cont)

theorem safeTo_bind {α β : Type} {g : α → Bool} {h : Bool} {p : Prog α} {f : α → Prog β}
    (hp : SafeTo g h p) (hf : ∀ a, Safe (g a) (f a)) : Safe h (p.bind f) := by
  induction hp with
  | ret e => subst e; exact hf _
  | get _ _ ih1 ih2 => exact .get ih1 ih2
  | has _ ih => exact .has ih
  | ins _ ih => exact .ins ih
  | drop _ ih => exact .drop ih

theorem safe_bind_to {α β : Type} {g : β → Bool} {h : Bool} {p : Prog α} {f : α → Prog β}
    (hp : Safe h p) (hf : ∀ a, SafeTo g false (f a)) : SafeTo g h (p.bind f) := by
  induction hp with
  | ret => exact hf _
  | get _ _ ih1 ih2 => exact .get ih1 ih2
  | has _ ih => exact .has ih
  | ins _ ih => exact .ins ih
  | drop _ ih => exact .drop ih

def isOkB {α : Type} : Res α → Bool
  | .ok _ => true
  | _ => false

theorem safeTo_readK (c : CacheId) (k : Name) : SafeTo isOkB false (readK c k) :=
  .get (.ret rfl) (fun _ => .ret rfl)

theorem safeTo_storeK (c : CacheId) (k : Name) (val : V) : SafeTo isOkB false (storeK c k val) := by
  refine .has (fun b => ?_)
  cases b
  · exact .ins (safeTo_readK c k)
  · exact safeTo_readK c k

theorem safeTo_supK (g : Defs) (k : Name) : SafeTo isOkB false (supK g k) :=
  .get (safeTo_storeK _ _ _) (fun _ => .ret rfl)

theorem safeTo_inhK (fuel : Nat) (ns : Ns) (k : Name) : SafeTo isOkB false (inhK fuel ns k) := by
  refine .get ?_ (fun _ => .ret rfl)
  refine safe_bind_to (safe_computeInhP fuel ns k) (fun r => ?_)
  cases r <;> first | exact safeTo_storeK _ _ _ | exact .ret rfl

/-- the public functions hand out a guard exactly with an `ok` answer -/
theorem safeTo_keepP (cfg : Cfg) (c : CacheId) (k : Name) : SafeTo isOkB false (keepP cfg c k) := by
  cases c
  · exact safeTo_supK _ k
  · exact safeTo_inhK _ _ k

/-! ### caller scripts -/

/-- a script of `ask`s is the query list of Hs.Model.NsCache -/
theorem callerP_ask (cfg : Cfg) : ∀ qs : List Query, callerP cfg (qs.map .ask) 0 = runQs cfg qs := by
  intro qs
  induction qs with
  | nil => rfl
  | cons q qs ih => simp only [List.map_cons, callerP, runQs, ih]

/-- scripts that follow the discipline are `Safe` -/
theorem safe_callerP (cfg : Cfg) : ∀ sc : Script, dropsBeforeNext sc = true → Safe false (callerP cfg sc 0) := by
  intro sc
  induction sc using dropsBeforeNext.induct with
  | case1 => intro _; exact .ret
  | case2 q cs ih =>
    intro h
    simp only [dropsBeforeNext] at h
    simp only [callerP]
    exact safe_bind (safe_queryP cfg q) (fun _ => safe_bind (ih h) (fun _ => .ret))
  | case3 c k =>
    intro _
    simp only [callerP]
    refine safeTo_bind (safeTo_keepP cfg c k) (fun r => ?_)
    cases r <;> first | exact .drop .ret | exact .ret
  | case4 c k cs ih =>
    intro h
    simp only [dropsBeforeNext] at h
    simp only [callerP]
    refine safeTo_bind (safeTo_keepP cfg c k) (fun r => ?_)
    cases r <;> first
      | exact .drop (safe_bind (ih h) (fun _ => .ret))
      | exact safe_bind (ih h) (fun _ => .ret)
  | case5 c k cs h1 h2 =>
    intro h
    simp [dropsBeforeNext] at h
  | case6 cs ih =>
    intro h
    simp only [dropsBeforeNext] at h
    simp only [callerP]
    exact ih h

theorem good_readK {c : CacheId} {k : Name} {cs : Caches} {v0 : V} (h : look c k cs = some v0) :
    Good cfg (fun r => ∃ v, r = Res.ok v ∧ Correct cfg c k v) cs (readK c k) := by
  refine .get (fun cs' hle hinv => ?_)
  rw [hle _ _ _ h]
  exact .ret ⟨v0, rfl, hinv _ _ _ (hle _ _ _ h)⟩

theorem good_storeK {c : CacheId} {k : Name} {val : V} (hc : Correct cfg c k val) (cs : Caches) :
    Good cfg (fun r => ∃ v, r = Res.ok v ∧ Correct cfg c k v) cs (storeK c k val) := by
  refine .has (fun cs' _ _ => ?_)
  cases h : look c k cs' with
  | none =>
    simp only [Option.isSome_none, Bool.false_eq_true, if_false]
    exact .ins hc (fun cs'' hle' _ => good_readK (hle' _ _ _ (look_put_same c k val cs')))
  | some v =>
    simp only [Option.isSome_some, if_true]
    exact good_readK h

theorem good_supK (k : Name) (cs : Caches) :
    Good cfg (fun r => r = Res.ok (supertypesOf cfg.ns.defs k)) cs (supK cfg.ns.defs k) := by
  refine .get (fun cs' _ hinv => ?_)
  cases h : look .sup k cs' with
  | some v =>
    have : v = supertypesOf cfg.ns.defs k := hinv _ _ _ h
    exact .ret (by rw [this])
  | none =>
    refine good_weaken ?_ (good_storeK (c := .sup) (by simp [Correct]) cs')
    rintro r ⟨v, rfl, hv⟩
    simp only [Correct] at hv
    rw [hv]

theorem good_inhK (k : Name) (cs : Caches) :
    Good cfg (fun r => r = inheritance cfg.fuel cfg.ns k) cs (inhK cfg.fuel cfg.ns k) := by
  refine .get (fun cs' _ hinv => ?_)
  cases h : look .inh k cs' with
  | some v =>
    have : inheritance cfg.fuel cfg.ns k = .ok v := hinv _ _ _ h
    exact .ret this.symm
  | none =>
    simp only
    refine good_bind (good_computeInhP k cs') ?_
    intro a ha cs''
    subst ha
    cases hi : inheritance cfg.fuel cfg.ns k with
    | ok val =>
      simp only
      refine good_weaken ?_ (good_storeK (c := .inh) (k := k) (val := val) (by simp [Correct, hi]) cs'')
      rintro r ⟨v, rfl, hv⟩
      simp only [Correct] at hv
      rw [← hv, hi]
    | err => exact .ret rfl
    | panic => exact .ret rfl
    | diverge => exact .ret rfl
    | depth => exact .ret rfl

theorem good_dropN {α : Type} {post : α → Prop} {cs : Caches} {p : Prog α} (h : Good cfg post cs p) :
    ∀ n, Good cfg post cs (dropN n p) := by
  intro n
  induction n with
  | zero => exact h
  | succ n ih => exact .drop ih

/-- a caller's script returns the cache-free answers, in order, WHATEVER it keeps -/
theorem good_callerP : ∀ (sc : Script) (kept : Nat) (cs : Caches),
    Good cfg (fun as => as = scriptAns cfg sc) cs (callerP cfg sc kept) := by
  intro sc
  induction sc with
  | nil =>
    intro kept cs
    show Good cfg _ cs (dropN kept (.ret []))
    exact good_dropN (post := fun as => as = scriptAns cfg []) (.ret rfl) kept
  | cons call sc ih =>
    intro kept cs
    cases call with
    | ask q =>
      simp only [callerP]
      refine good_bind (good_queryP q cs) ?_
      intro a ha cs'
      refine good_bind (ih kept cs') ?_
      intro as has cs''
      exact .ret (by simp [scriptAns, ha, has])
    | keep c k =>
      cases c with
      | sup =>
        simp only [callerP, keepP]
        refine good_bind (good_supK k cs) ?_
        intro a ha cs'
        subst ha
        simp only
        refine good_bind (ih (kept + 1) cs') ?_
        intro as has cs''
        exact .ret (by simp [scriptAns, pureAns, has])
      | inh =>
        simp only [callerP, keepP]
        refine good_bind (good_inhK k cs) ?_
        intro a ha cs'
        subst ha
        cases hi : inheritance cfg.fuel cfg.ns k with
        | ok v =>
          simp only
          refine good_bind (ih (kept + 1) cs') ?_
          intro as has cs''
          exact .ret (by simp [scriptAns, pureAns, has, hi])
        | err =>
          simp only
          refine good_bind (ih kept cs') ?_
          intro as has cs''
          exact .ret (by simp [scriptAns, pureAns, has, hi])
        | panic =>
          simp only
          refine good_bind (ih kept cs') ?_
          intro as has cs''
          exact .ret (by simp [scriptAns, pureAns, has, hi])
        | diverge =>
          simp only
          refine good_bind (ih kept cs') ?_
          intro as has cs''
          exact .ret (by simp [scriptAns, pureAns, has, hi])
        | depth =>
          simp only
          refine good_bind (ih kept cs') ?_
          intro as has cs''
          exact .ret (by simp [scriptAns, pureAns, has, hi])
    | release =>
      cases kept with
      | zero => simp only [callerP, scriptAns]; exact ih 0 cs
      | succ n => simp only [callerP, scriptAns]; exact .drop (ih n cs)

theorem ainv_initC {c0 : Caches} (h0 : Inv cfg c0) (scripts : List Script) :
    AInv cfg (fun t as => as = scriptAns cfg (scripts.getD t [])) (initC cfg c0 scripts) := by
  refine ainv_initP h0 ?_
  intro t p hp
  simp only [List.getElem?_map] at hp
  cases hq : scripts[t]? with
  | none => rw [hq] at hp; cases hp
  | some sc =>
    rw [hq] at hp
    simp only [Option.map_some, Option.some.injEq] at hp
    subst hp
    have : scripts.getD t [] = sc := by simp [List.getD_eq_getElem?_getD, hq]
    rw [this]
    exact good_callerP sc 0 c0

end Hs.NsCache
