/-
  C11: grids with two columns of the same name, part 2: `parse_grid` on the writer's output without the hypothesis
  that the column names are distinct (as `parseGrid_tail`, `RdVal_grid`, `fromBytes_grid` of C01).
-/
import Hs.Lemmas.ZincImageDup1
namespace Hs.Zinc
open Hs Hs.Scan

/-- what the grid reader needs of a grid -/
structure GridOkG (md : OTags) (cols : Cols) (rows : Rows) (ver : List Char) : Prop where
  okVer : ver = ['3', '.', '0']
  okMeta : MetaOkG md
  okCols : ColsOk cols
  okRows : RowsOk cols.names (cols.length == 1) rows

/-- `parse_grid` from the `ver` identifier on (both the nested and the top-level entry end up here) -/
theorem parseGrid_tailG (md : OTags) (n : List Char) (cm : OTags) (c : Cols) (rows : Rows) (ver : List Char)
    (hok : GridOkG md (.cons n cm c) rows ver) (nested : Bool) (rest : List UInt8) (D g : Nat) (s0 : Scan)
    (hat : At s0 (58 :: 34 :: 51 :: 46 :: 48 :: 34 :: (metaPart md ++ 10 :: (encCols (.cons n cm c) ++ 10 ::
      (encRows rows (Cols.names (.cons n cm c)) (Cols.length (.cons n cm c) == 1) ++ tailR nested rest)))))
    (hs : s0.stash = [])
    (hf : 4 * ((metaPart md).length + colsLen (.cons n cm c)
      + (encRows rows (Cols.names (.cons n cm c)) (Cols.length (.cons n cm c) == 1)).length) + 40 ≤ g)
    (hd : D + nestV (.grid md (.cons n cm c) rows ver) ≤ 64) :
    ∃ (sQ : Scan) (p3 p4 p5 p6 : PS) (mkvs : List (List Char × Val)) (r' : RowState),
      lexRead g s0 = .ok { sc := s0.advance, tok := .ch 58 } ∧
      lexRead g s0.advance = .ok { sc := sQ, tok := .val (.str ['3', '.', '0']) } ∧
      lexRead g sQ = .ok p3 ∧
      dictParts g D p3 false [] = .ok (mkvs, p4) ∧ PS.isChar p4 10 = true ∧
      (if mkvs.isEmpty then OTags.none else OTags.some (dictOf mkvs)) = lexImgO md ∧
      gridColumns g D p4 [] = .ok ((lexImgC (.cons n cm c)).toList, p5) ∧ PS.isChar p5 10 = true ∧
      lexRead g p5.sc = .ok p6 ∧
      rowsLoop (g + 1) D { p := p6, nestedStart := nested, nestedEnd := false } (Cols.names (.cons n cm c)) []
        = .ok ((lexImgR rows).toList, r') ∧
      At r'.p.sc (finalR nested rest) ∧ r'.p.sc.stash = [] := by
  simp only [nestV] at hd
  obtain ⟨sQ, p3, p4, p5, mkvs, e1, e2, e3, e4, ht4, hmd, e5, ht5, h5, hs5⟩ := header_chain md hok.okMeta n cm c hok.okCols
    D g s0 _ hat hs (by omega) (by omega)
  have hne : Cols.names (.cons n cm c) ≠ [] := by simp [Cols.names]
  obtain ⟨p6, r', e6, e7, h7, hs7⟩ := rows_allG (Cols.names (.cons n cm c)) (Cols.length (.cons n cm c) == 1) nested rest
    hne (cols_single n cm c) D rows hok.okRows (by omega) g p5.sc h5 hs5 (by omega)
  have i4 : PS.isChar p4 10 = true := by unfold PS.isChar; rw [ht4]; rfl
  have i5 : PS.isChar p5 10 = true := by unfold PS.isChar; rw [ht5]; rfl
  exact ⟨sQ, p3, p4, p5, p6, mkvs, r', e1, e2, e3, e4, i4, hmd, e5, i5, e6, e7, h7, hs7⟩

/-- **rt_grid** (nested): `<< … >>` through `parseValue` -/
theorem RdVal_gridG (md : OTags) (n : List Char) (cm : OTags) (c : Cols) (rows : Rows) (ver : List Char)
    (hok : GridOkG md (.cons n cm c) rows ver) : RdVal (.grid md (.cons n cm c) rows ver) := by
  intro depth f1 f2 s rest hat hs hd hf1 hf2 hn
  rw [enc_grid_nested] at hat
  rw [enc_grid_length] at hf1 hf2
  obtain ⟨g1, rfl⟩ : ∃ g, f1 = g + 1 := ⟨f1 - 1, by omega⟩
  obtain ⟨g, rfl⟩ : ∃ g, f2 = g + 3 := ⟨f2 - 3, by omega⟩
  have hndp : ¬ (depth ≥ maxNestingDepth) := by unfold maxNestingDepth; omega
  have h1 := hat.advance
  have h2 := h1.advance
  simp only [gridBody, verBytes, List.cons_append, List.nil_append] at h2
  have hcw := cws_one_nl h2 (by decide) (g - 1)
  have hg : g - 1 + 2 = g + 1 := by omega
  rw [hg] at hcw
  have h3 := h2.advance
  have hs3 : s.advance.advance.advance.stash = [] := advN_stash_nil 3 s hs
  obtain ⟨e0, h0⟩ := lexRead_id ['v', 'e', 'r'] isIdent_ver s.advance.advance.advance _ g
    (by rw [encChars_ver]; exact h3) (Stop_cons (by decide)) (by simp; omega)
  simp only [List.length_cons, List.length_nil] at e0 h0
  obtain ⟨sQ, p3, p4, p5, p6, mkvs, r', e1, e2, e3, e4, i4, hmd, e5, i5, e6, e7, h7, hs7⟩ :=
    parseGrid_tailG md n cm c rows ver hok true rest (depth + 1) g _ h0 (advN_stash_nil _ _ hs3) (by omega) (by omega)
  refine ⟨{ sc := s.advance, tok := .ch 60 }, r'.p, lexRead_special hat (by decide) (by decide) g1,
    fun _ => h1.eof, Or.inr (Or.inr rfl), ?_, Post.of_clean (by simpa [finalR] using h7) hs7⟩
  rw [parseValue]
  simp only [hndp, if_false]
  have hsp1 : lexRead g s.advance = .ok { sc := s.advance.advance, tok := .ch 60 } := by
    obtain ⟨g', rfl⟩ : ∃ g', g = g' + 1 := ⟨g - 1, by omega⟩
    exact lexRead_special h1 (by decide) (by decide) g'
  have c1 : PS.isChar { sc := s.advance, tok := .ch 60 } 60 = true := rfl
  have c2 : PS.isChar { sc := s.advance.advance, tok := .ch 60 } 60 = true := rfl
  have c3 : PS.isChar { sc := s.advance, tok := .ch 60 } 91 = false := rfl
  rw [parseGrid, gridHeader]
  simp only [c1, if_true, PS.read, hsp1, c2, Bool.not_true,
    Bool.false_eq_true, if_false, hcw, e0]
  have c4 : ∀ sc : Scan, PS.isChar { sc := sc, tok := .ch 58 } 58 = true := fun _ => rfl
  simp only [e1, e2, e3, e4, i4, e5, i5, e6, hmd, c4]
  simp [lexImgC_names, e7, lexImg, Cols.ofList_toList, Rows.ofList_toList, hok.okVer]

/-- **rt_grid** (top level): `fromBytes ∘ encode` on a grid -/
theorem fromBytes_gridG (md : OTags) (n : List Char) (cm : OTags) (c : Cols) (rows : Rows) (ver : List Char)
    (hok : GridOkG md (.cons n cm c) rows ver) (hn : nestV (.grid md (.cons n cm c) rows ver) < 64) :
    fromBytes (encode (.grid md (.cons n cm c) rows ver)) = .ok (lexImg (.grid md (.cons n cm c) rows ver)) := by
  unfold encode fromBytes
  rw [enc_grid_top]
  have hlen : (gridBody md (.cons n cm c) rows false []).length =
      11 + (metaPart md).length + colsLen (.cons n cm c)
        + (encRows rows (Cols.names (.cons n cm c)) (Cols.length (.cons n cm c) == 1)).length := by
    have := encCols_length n cm c
    simp only [gridBody, verBytes, tailR, List.length_cons, List.length_append, List.length_nil,
      Bool.false_eq_true, if_false]
    omega
  generalize hfu : fuelFor (gridBody md (.cons n cm c) rows false []).length = fuel
  have hfuel : 8 * (11 + (metaPart md).length + colsLen (.cons n cm c)
      + (encRows rows (Cols.names (.cons n cm c)) (Cols.length (.cons n cm c) == 1)).length) + 64 = fuel := by
    rw [← hfu, hlen]; rfl
  obtain ⟨g, rfl⟩ : ∃ g, fuel = g + 3 := ⟨fuel - 3, by omega⟩
  have hat : At (Scan.make (gridBody md (.cons n cm c) rows false [])) (gridBody md (.cons n cm c) rows false []) :=
    At_make_all' _
  have hs : (Scan.make (gridBody md (.cons n cm c) rows false [])).stash = [] := by
    simp [gridBody, verBytes, Scan.make]
  generalize Scan.make (gridBody md (.cons n cm c) rows false []) = s at hat hs
  simp only [gridBody, verBytes, List.cons_append, List.nil_append] at hat
  obtain ⟨e0, h0⟩ := lexRead_id ['v', 'e', 'r'] isIdent_ver s _ (g + 3)
    (by rw [encChars_ver]; exact hat) (Stop_cons (by decide)) (by simp; omega)
  simp only [List.length_cons, List.length_nil] at e0 h0
  obtain ⟨sQ, p3, p4, p5, p6, mkvs, r', e1, e2, e3, e4, i4, hmd, e5, i5, e6, e7, h7, hs7⟩ :=
    parseGrid_tailG md n cm c rows ver hok false [] 1 g _ h0 (advN_stash_nil _ _ hs) (by omega) (by omega)
  have hndp : ¬ (0 ≥ maxNestingDepth) := by unfold maxNestingDepth; omega
  have c0 : PS.isChar { sc := advN 3 s, tok := .id ['v', 'e', 'r'] } 60 = false := rfl
  have c4 : ∀ sc : Scan, PS.isChar { sc := sc, tok := .ch 58 } 58 = true := fun _ => rfl
  simp only [e0]
  rw [parseValue]
  simp only [hndp, if_false]
  rw [parseGrid, gridHeader]
  simp only [c0, Bool.false_eq_true, if_false, PS.read]
  simp only [e1, e2, e3, e4, i4, e5, i5, e6, hmd, c4]
  simp [lexImgC_names, e7, lexImg, Cols.ofList_toList, Rows.ofList_toList, hok.okVer]

end Hs.Zinc
