/-
  C08, literals: the framing lemmas of the Zinc ladder (`Hs/Lemmas/ZincRt{Num,Num2,Date,Time,Zone,DateTime}.lean`)
  for what follows a literal in printed FILTER text.  In Zinc a value is followed by `,` `]` `}` newline or
  by a space and a lower-case tag name (`Delim`); in a filter a literal is followed by the end of the text or
  by one space and then `and`, `or` or `)`.  `GDelim` (nothing, or a space) is all the number, date and time
  readers need; the zone reader looks two bytes ahead after a `Z` (`Z Name`) and needs the byte after the
  space not to be an upper-case letter (`FDelim`).  The look-ahead part (`ndt_number`, `ndt_date`, `ndt_time…`)
  is delimiter-independent already and is used as it is.
-/
import Hs.Lemmas.ZincRtTok2
namespace Hs.Zinc
open Hs Hs.Scan

/-- what follows a literal: nothing, or a space -/
def GDelim (rest : List UInt8) : Prop := rest = [] ∨ ∃ r, rest = 32 :: r

/-- … nothing, or a space and then a byte that is not an upper-case letter (not a zone name) -/
def FDelim (rest : List UInt8) : Prop := rest = [] ∨ ∃ x r, rest = 32 :: x :: r ∧ isUpperB x = false

theorem FDelim.g {rest : List UInt8} (h : FDelim rest) : GDelim rest := by
  rcases h with h | ⟨x, r, h, _⟩
  · exact Or.inl h
  · exact Or.inr ⟨x :: r, h⟩

theorem GDelim.stop {P : UInt8 → Bool} {rest : List UInt8} (h : GDelim rest) (hP : P 32 = false) : Stop P rest := by
  rcases h with rfl | ⟨r, rfl⟩
  · exact Stop_nil _
  · exact Stop_cons hP

/-! ### numbers -/

theorem parseNumber_rt2 (tb : List UInt8) (htb : ∀ b ∈ tb, isNumB b = true) (hvalid : validDecimal tb = true)
    (uo : Option (List Char)) (hu : unitOk uo = true)
    (s : Scan) (rest : List UInt8) (fuel : Nat) (h : At s (tb ++ (unitBytes uo ++ rest)))
    (hs : s.stash.length ≤ tb.length) (hd : GDelim rest) (hf : tb.length + (unitBytes uo).length + 1 ≤ fuel) :
    ∃ s', parseNumber fuel s = .ok (mkNum tb none uo, s') ∧ At s' rest ∧ s'.stash = [] := by
  have hs1 : (advN tb.length s).stash = [] := by
    rw [advN_stash]; exact List.drop_eq_nil_of_le hs
  have h1 : At (advN tb.length s) (unitBytes uo ++ rest) := h.advN
  have hstopD : Stop isDecB rest := hd.stop (by decide)
  have hstopU : Stop isUnitB rest := hd.stop (by decide)
  cases uo with
  | none =>
    simp only [unitBytes, List.nil_append, List.length_nil] at h h1 hf
    refine ⟨advN tb.length s, ?_, h1, hs1⟩
    unfold parseNumber parseDecimal
    rw [decimalLoop_rt tb htb s rest fuel [] h hstopD (by omega)]
    simp only [List.nil_append, hvalid, if_true]
    rcases hd with rfl | ⟨r, rfl⟩
    · simp [At.eof_nil h1]
    · simp [h1.eof, h1.cur, isUnitChar_eq, show isUnitB 32 = false by decide]
  | some u =>
    simp only [unitOk, Bool.and_eq_true, Bool.not_eq_eq_eq_not, Bool.not_true, List.isEmpty_eq_false_iff,
      List.all_eq_true, bne_iff_ne, ne_eq, beq_iff_eq] at hu
    obtain ⟨⟨⟨⟨hne, hall⟩, h95⟩, he1, he2⟩, hsym⟩ := hu
    simp only [unitBytes] at h h1 hf
    obtain ⟨b0, ub', hub⟩ : ∃ b0 ub', encChars u = b0 :: ub' := by
      cases hx : encChars u with
      | nil => exact absurd hx hne
      | cons b0 ub' => exact ⟨b0, ub', rfl⟩
    have hb0 : isUnitB b0 = true := hall b0 (by rw [hub]; simp)
    have hb0' : b0 ≠ 95 := by
      intro e; apply h95; rw [hub, e]; rfl
    have hstop : Stop isDecB (encChars u ++ rest) := by
      rw [hub]; apply Stop_cons
      have := unit_not_dec b0
      simp only [hb0, Bool.not_true, Bool.false_or, Bool.or_eq_true, beq_iff_eq, hb0', false_or,
        Bool.not_eq_eq_eq_not] at this
      exact this
    have h2 : At (advN (encChars u).length (advN tb.length s)) rest := h1.advN
    have tailFact : ∀ s3 : Scan, At s3 (encChars u ++ rest) →
        unitLoop fuel s3 [] = .ok (encChars u, advN (encChars u).length s3) ∧ s3.eof = false
          ∧ isUnitChar s3 = true := by
      intro s3 hat3
      have e := unitLoop_rt (encChars u) hall s3 rest fuel [] hat3 hstopU (by omega)
      rw [hub] at hat3
      simp only [List.cons_append] at hat3
      exact ⟨by simpa using e, hat3.eof, by rw [isUnitChar_eq, hat3.cur]; exact hb0⟩
    have hlen1 : 1 ≤ (encChars u).length := by rw [hub]; simp
    have h1' := h1
    rw [hub] at h1'
    simp only [List.cons_append] at h1'
    unfold parseNumber parseDecimal
    rw [decimalLoop_rt tb htb s _ fuel [] h hstop (by omega)]
    simp only [List.nil_append, hvalid, if_true]
    by_cases hee : (b0 == 101 || b0 == 69) = true
    · obtain ⟨x, r', hx⟩ : ∃ x r', ub' ++ rest = x :: r' := by
        cases hx : ub' ++ rest with
        | cons x r' => exact ⟨x, r', rfl⟩
        | nil =>
          exfalso
          simp only [List.append_eq_nil_iff] at hx
          rw [hx.1] at hub
          simp only [Bool.or_eq_true, beq_iff_eq] at hee
          rcases hee with rfl | rfl
          · exact he1 hub
          · exact he2 hub
      have h1x := h1'
      rw [hx] at h1x
      obtain ⟨s2, e2, hat2, hs2, _, _⟩ := h1x.peek0' hs1
      have hxn : (x == 43 || x == 45 || isDigitB x) = false := by
        cases ub' with
        | cons y ys =>
          simp only [List.cons_append, List.cons.injEq] at hx
          have hy : isUnitB y = true := hall y (by rw [hub]; simp)
          have := unit_not_expnext y
          rw [← hx.1]
          simp only [hy, Bool.not_true, Bool.false_or, Bool.and_eq_true, bne_iff_ne, ne_eq,
            Bool.not_eq_eq_eq_not] at this
          simp [this.1.1, this.1.2, this.2]
        | nil =>
          simp only [List.nil_append] at hx
          rcases hd with rfl | ⟨r, rfl⟩
          · cases hx
          · cases hx; decide
      have hat3 : At s2 (encChars u ++ rest) := by rw [hub, List.cons_append, hx]; exact hat2
      obtain ⟨t1, t2, t3⟩ := tailFact s2 hat3
      refine ⟨advN (encChars u).length s2, ?_, hat3.advN, ?_⟩
      · simp [h1'.eof, h1'.cur, hee, e2, hxn, t1, t2, t3, lossy_encChars, hsym]
      · rw [advN_stash]; apply List.drop_eq_nil_of_le; omega
    · obtain ⟨t1, t2, t3⟩ := tailFact (advN tb.length s) h1
      refine ⟨advN (encChars u).length (advN tb.length s), ?_, h1.advN, advN_stash_nil _ _ hs1⟩
      simp only [Bool.not_eq_true] at hee
      simp [h1'.eof, h1'.cur, hee, t1, t3, lossy_encChars, hsym]

theorem afterDec_unit_rest2 (uo : Option (List Char)) (hu : unitOk uo = true) (rest : List UInt8) (hd : GDelim rest) :
    AfterDec (unitBytes uo ++ rest) := by
  intro x r hx
  cases uo with
  | none =>
    simp only [unitBytes, List.nil_append] at hx
    rcases hd with rfl | ⟨r', rfl⟩
    · cases hx
    · cases hx; decide
  | some u =>
    simp only [unitOk, Bool.and_eq_true, Bool.not_eq_eq_eq_not, Bool.not_true, List.isEmpty_eq_false_iff,
      List.all_eq_true] at hu
    simp only [unitBytes] at hx
    cases hub : encChars u with
    | nil => exact absurd hub hu.1.1.1.1
    | cons b0 ub' =>
      rw [hub] at hx
      simp only [List.cons_append, List.cons.injEq] at hx
      have hb0 : isUnitB b0 = true := hu.1.1.1.2 b0 (by rw [hub]; simp)
      have := unit_afterdec b0
      rw [← hx.1]
      simp only [hb0, Bool.not_true, Bool.false_or, Bool.and_eq_true, bne_iff_ne, ne_eq,
        Bool.not_eq_eq_eq_not] at this
      exact ⟨this.1.1, this.1.2, this.2⟩

/-- `parse_number_date_time` on the printed text of a finite number: decimal text, optional unit -/
theorem ndt_num_rt (tb : List UInt8) (hok : numBytesOk tb = true) (uo : Option (List Char)) (hu : unitOk uo = true)
    (s : Scan) (rest : List UInt8) (fuel : Nat) (h : At s (tb ++ (unitBytes uo ++ rest))) (hs : s.stash = [])
    (hd : GDelim rest) (hf : tb.length + (unitBytes uo).length + 1 ≤ fuel) :
    ∃ s', parseNumberDateTime fuel s = .ok (mkNum tb none uo, s') ∧ At s' rest ∧ s'.stash = [] := by
  obtain ⟨s1, e1, h1, hs1⟩ := ndt_number tb hok _ (afterDec_unit_rest2 uo hu rest hd) s fuel h hs
  have hok' := hok
  simp only [numBytesOk, Bool.and_eq_true, List.all_eq_true] at hok'
  obtain ⟨s', e', h', hs'⟩ := parseNumber_rt2 tb hok'.1.1.1 hok'.1.1.2 uo hu s1 rest fuel h1 hs1 hd hf
  exact ⟨s', by rw [e1, e'], h', hs'⟩

/-! ### dates and times -/

theorem ndt_date_rt (d : Date) (hok : dateOk d = true) (s : Scan) (rest : List UInt8) (fuel : Nat)
    (h : At s (encChars d.txt ++ rest)) (hs : s.stash = []) (hd : GDelim rest) :
    ∃ s', parseNumberDateTime fuel s = .ok (.date d, s') ∧ At s' rest ∧ s'.stash = [] := by
  simp only [dateOk, Bool.and_eq_true] at hok
  obtain ⟨hasc, hm⟩ := hok
  rw [encChars_all_ascii hasc] at h
  split at hm
  · rename_i y0 y1 y2 y3 m0 m1 d0 d1 heq
    simp only [Bool.and_eq_true, beq_iff_eq] at hm
    obtain ⟨⟨⟨⟨⟨⟨⟨⟨hy0, hy1⟩, hy2⟩, hy3⟩, hm0⟩, hm1⟩, hd0⟩, hd1⟩, hmk⟩ := hm
    rw [heq] at h
    simp only [List.cons_append, List.nil_append] at h
    have hseq := eq_at_of_At h hs
    rw [pk_zero] at hseq
    rcases hd with rfl | ⟨r, rfl⟩
    · obtain ⟨s', e, h', hs'⟩ := ndt_date_eof y0 y1 y2 y3 m0 m1 d0 d1 hy0 hy1 hy2 hy3 hm0 hm1 hd0 hd1 d hmk
        s.lastPeek s.pos fuel
      exact ⟨s', by rw [hseq, e], h', hs'⟩
    · obtain ⟨s', e, h', hs'⟩ := ndt_date y0 y1 y2 y3 m0 m1 d0 d1 hy0 hy1 hy2 hy3 hm0 hm1 hd0 hd1 d hmk
        32 r (by decide) s.lastPeek s.pos fuel
      exact ⟨s', by rw [hseq, e], h', hs'⟩
  · simp at hm

theorem ndt_time_rt (t : Time) (hok : timeOk t = true) (s : Scan) (rest : List UInt8) (fuel : Nat)
    (h : At s (encChars t.txt ++ rest)) (hs : s.stash = []) (hd : GDelim rest) (hf : t.txt.length + 1 ≤ fuel) :
    ∃ s', parseNumberDateTime fuel s = .ok (.time t, s') ∧ At s' rest ∧ s'.stash = [] := by
  simp only [timeOk, Bool.and_eq_true] at hok
  obtain ⟨hasc, hm⟩ := hok
  rw [encChars_all_ascii hasc] at h
  have hlen : (t.txt.map byteOf).length = t.txt.length := by simp
  split at hm
  · rename_i h0 h1 m0 m1 s0 s1 tl heq
    simp only [Bool.and_eq_true] at hm
    obtain ⟨⟨⟨⟨⟨⟨hh0, hh1⟩, hm0⟩, hm1⟩, hs0⟩, hs1⟩, htl⟩ := hm
    rw [heq] at h hlen
    simp only [List.cons_append] at h
    have hseq := eq_at_of_At h hs
    rw [pk_zero] at hseq
    split at htl
    · simp only [beq_iff_eq] at htl
      simp only [List.nil_append] at hseq
      rcases hd with rfl | ⟨r, rfl⟩
      · obtain ⟨s', e, h', hs'⟩ := ndt_time_eof h0 h1 m0 m1 s0 s1 hh0 hh1 hm0 hm1 hs0 hs1 t htl s.lastPeek s.pos fuel
        exact ⟨s', by rw [hseq, e], h', hs'⟩
      · obtain ⟨s', e, h', hs'⟩ := ndt_time h0 h1 m0 m1 s0 s1 hh0 hh1 hm0 hm1 hs0 hs1 t htl 32 r
          (by decide) s.lastPeek s.pos fuel
        exact ⟨s', by rw [hseq, e], h', hs'⟩
    · rename_i f0 fr
      simp only [Bool.and_eq_true, beq_iff_eq, List.all_eq_true] at htl
      simp only [List.cons_append] at hseq
      simp only [List.length_cons] at hlen
      obtain ⟨s', e, h', hs'⟩ := ndt_time_frac h0 h1 m0 m1 s0 s1 hh0 hh1 hm0 hm1 hs0 hs1 f0 fr htl.1 t htl.2 rest
        (hd.stop (by decide)) s.lastPeek s.pos fuel (by omega)
      exact ⟨s', by rw [hseq, e], h', hs'⟩
    · simp at htl
  · simp at hm

/-! ### timestamps -/

/-- `Z` alone (UTC), followed by the end of the text or by a space and a byte that does not start a zone name -/
theorem parseTimeZone_Z2 (s : Scan) (rest : List UInt8) (fuel : Nat) (h : At s (90 :: rest)) (hs : s.stash = [])
    (hd : FDelim rest) :
    ∃ s', parseTimeZone fuel s = .ok ([90], s') ∧ Post s' rest := by
  unfold parseTimeZone
  simp only [h.cur, beq_self_eq_true, if_true]
  rcases hd with rfl | ⟨y, r, rfl, hyu⟩
  · have hp := h.peek_none (by simp [hs])
    obtain ⟨he, hc, hu⟩ := h
    rw [hs] at hu
    simp only [List.nil_append] at hu
    refine ⟨{ s with eof := true }, ?_, ⟨by simp [At, hs, hu], by simp [hs], fun _ => by simp [hs]⟩⟩
    rw [hp]
    simp
  · obtain ⟨s1, e1, h1, hs1, _, _⟩ := h.peek0' hs
    obtain ⟨s2, e2, h2, hs2, _, _⟩ := h1.peek_some' (k := 1) hs1 (c := y) (by simp)
    refine ⟨s2.advance, ?_, ⟨h2.advance, by rw [At.advance_stash]; cases hx : s2.stash <;> simp_all,
      fun hh => absurd rfl hh⟩⟩
    rw [e1]
    simp only [e2, hyu]
    simp [h2.eof, h2.readQ]

theorem parseTimeZone_any2 (z : List UInt8) (hz : zoneOk z = true) (s : Scan) (rest : List UInt8) (fuel : Nat)
    (h : At s (z ++ rest)) (hs : s.stash = []) (hd : FDelim rest) (hf : z.length < fuel) :
    ∃ s', parseTimeZone fuel s = .ok (z, s') ∧ Post s' rest ∧
      (zoneNameOf z = Option.none ∨
        ∃ name, zoneNameOf z = some name ∧ (name != [85, 84, 67] && !tzResolves name) = false) ∧
      ∃ z0 zr, z = z0 :: zr ∧ isDigitB z0 = false ∧ z0 ≠ 46 := by
  have hstz : Stop isTzB rest := hd.g.stop (by decide)
  unfold zoneOk at hz
  split at hz
  · obtain ⟨s', e, hp⟩ := parseTimeZone_Z2 s rest fuel (by simpa using h) hs hd
    exact ⟨s', e, hp, Or.inl (by simp [zoneNameOf]), 90, [], rfl, by decide, by decide⟩
  · rename_i name
    simp only [Bool.and_eq_true] at hz
    obtain ⟨s', e, h', hs'⟩ := parseTimeZone_ZName name hz.1 s rest fuel (by simpa using h) hs hstz
      (by simp at hf; omega)
    refine ⟨s', e, Post.of_clean h' hs', ?_, 90, 32 :: name, rfl, by decide, by decide⟩
    have : zoneNameOf (90 :: 32 :: name) = some name := by
      cases name with
      | nil => simp [tzNameOk] at hz
      | cons a tl => simp [zoneNameOf]
    exact Or.inr ⟨name, this, zoneCheck_of_resolves hz.2⟩
  · rename_i _ sg o0 o1 o2 o3 name _
    simp only [Bool.and_eq_true, Bool.or_eq_true, beq_iff_eq] at hz
    obtain ⟨⟨⟨⟨⟨⟨hsg, ho0⟩, ho1⟩, ho2⟩, ho3⟩, hn⟩, hres⟩ := hz
    obtain ⟨s', e, h', hs'⟩ := parseTimeZone_offset sg o0 o1 o2 o3 hsg ho0 ho1 ho2 ho3 name hn s rest fuel
      (by simpa using h) hs hstz (by simp at hf; omega)
    refine ⟨s', e, Post.of_clean h' hs', ?_, sg, _, rfl, ?_, ?_⟩
    · have : zoneNameOf (sg :: o0 :: o1 :: 58 :: o2 :: o3 :: 32 :: name) = some name := by
        rcases hsg with rfl | rfl <;> simp [zoneNameOf]
      exact Or.inr ⟨name, this, zoneCheck_of_resolves hres⟩
    · rcases hsg with rfl | rfl <;> decide
    · rcases hsg with rfl | rfl <;> decide
  · simp at hz

/-- timestamp without a fraction -/
theorem ndt_datetime2 (y0 y1 y2 y3 m0 m1 d0 d1 h0 h1 i0 i1 s0 s1 : UInt8)
    (hy0 : isDigitB y0 = true) (hy1 : isDigitB y1 = true) (hy2 : isDigitB y2 = true) (hy3 : isDigitB y3 = true)
    (hm0 : isDigitB m0 = true) (hm1 : isDigitB m1 = true) (hd0 : isDigitB d0 = true) (hd1 : isDigitB d1 = true)
    (hh0 : isDigitB h0 = true) (hh1 : isDigitB h1 = true) (hi0 : isDigitB i0 = true) (hi1 : isDigitB i1 = true)
    (hs0 : isDigitB s0 = true) (hs1 : isDigitB s1 = true)
    (hmk : (mkDate [y0, y1, y2, y3, 45, m0, m1, 45, d0, d1]).isSome = true)
    (hmt : (mkTime [h0, h1, 58, i0, i1, 58, s0, s1] Option.none).isSome = true)
    (z : List UInt8) (hz : zoneOk z = true) (rest : List UInt8) (hd : FDelim rest)
    (lp : UInt8) (pos fuel : Nat) (hf : z.length < fuel) :
    ∃ s', parseNumberDateTime fuel (Scan.at y0 (y1 :: y2 :: y3 :: 45 :: m0 :: m1 :: 45 :: d0 :: d1 :: 84 :: h0 :: h1
        :: 58 :: i0 :: i1 :: 58 :: s0 :: s1 :: (z ++ rest)) lp pos)
      = .ok (dtVal (asciiChars (y0 :: y1 :: y2 :: y3 :: 45 :: m0 :: m1 :: 45 :: d0 :: d1 :: 84 :: h0 :: h1 :: 58 :: i0
            :: i1 :: 58 :: s0 :: s1 :: z)), s') ∧ Post s' rest := by
  obtain ⟨d, hd'⟩ := Option.isSome_iff_exists.mp hmk
  obtain ⟨t, ht'⟩ := Option.isSome_iff_exists.mp hmt
  obtain ⟨z0, zr, rfl⟩ : ∃ z0 zr, z = z0 :: zr := by
    cases z with
    | nil => simp [zoneOk] at hz
    | cons a b => exact ⟨a, b, rfl⟩
  have hat : At (Scan.at z0 (zr ++ rest) 84
      (pos + 1 + 1 + 1 + 1 + 1 + 1 + 1 + 1 + 1 + 1 + 1 + 1 + 1 + 1 + 1 + 1 + 1 + 1 + 1)) ((z0 :: zr) ++ rest) := At_at ..
  obtain ⟨s', e, hp, hzc, z0', zr', hzz, hz0, hz046⟩ := parseTimeZone_any2 (z0 :: zr) hz _ rest fuel hat rfl hd hf
  cases hzz
  refine ⟨s', ?_, hp⟩
  simp only [Scan.at] at e
  unfold parseNumberDateTime
  simp only [Scan.at, digit_ne_minus hy0, Bool.false_eq_true, if_false, List.cons_append]
  rcases hzc with hnone | ⟨name, hsome, hres⟩
  · simp [ndtPeeks, Scan.peek, Scan.readByte, hy0, hy1, hy2, hy3, isPartialDate, hm0, hm1, hd0, hd1, hz046,
      parseDateTime, parseDateRaw, parseTimeRaw, takeDigits, Scan.advance, Scan.read, hd', ht', hh0, hh1, hi0, hi1,
      hs0, hs1, e, hnone, dtVal]
  · simp [ndtPeeks, Scan.peek, Scan.readByte, hy0, hy1, hy2, hy3, isPartialDate, hm0, hm1, hd0, hd1, hz046,
      parseDateTime, parseDateRaw, parseTimeRaw, takeDigits, Scan.advance, Scan.read, hd', ht', hh0, hh1, hi0, hi1,
      hs0, hs1, e, hsome, hres, dtVal]

/-- timestamp with a fraction -/
theorem ndt_datetime_frac2 (y0 y1 y2 y3 m0 m1 d0 d1 h0 h1 i0 i1 s0 s1 : UInt8)
    (hy0 : isDigitB y0 = true) (hy1 : isDigitB y1 = true) (hy2 : isDigitB y2 = true) (hy3 : isDigitB y3 = true)
    (hm0 : isDigitB m0 = true) (hm1 : isDigitB m1 = true) (hd0 : isDigitB d0 = true) (hd1 : isDigitB d1 = true)
    (hh0 : isDigitB h0 = true) (hh1 : isDigitB h1 = true) (hi0 : isDigitB i0 = true) (hi1 : isDigitB i1 = true)
    (hs0 : isDigitB s0 = true) (hs1 : isDigitB s1 = true)
    (f0 : UInt8) (fr : List UInt8) (hfr : ∀ b ∈ f0 :: fr, isDigitB b = true)
    (hmk : (mkDate [y0, y1, y2, y3, 45, m0, m1, 45, d0, d1]).isSome = true)
    (hmt : (mkTime [h0, h1, 58, i0, i1, 58, s0, s1] (some (f0 :: fr))).isSome = true)
    (z : List UInt8) (hz : zoneOk z = true) (rest : List UInt8) (hd : FDelim rest)
    (lp : UInt8) (pos fuel : Nat) (hf : fr.length + 1 + z.length < fuel) :
    ∃ s', parseNumberDateTime fuel (Scan.at y0 (y1 :: y2 :: y3 :: 45 :: m0 :: m1 :: 45 :: d0 :: d1 :: 84 :: h0 :: h1
        :: 58 :: i0 :: i1 :: 58 :: s0 :: s1 :: 46 :: f0 :: (fr ++ (z ++ rest))) lp pos)
      = .ok (dtVal (asciiChars (y0 :: y1 :: y2 :: y3 :: 45 :: m0 :: m1 :: 45 :: d0 :: d1 :: 84 :: h0 :: h1 :: 58 :: i0
            :: i1 :: 58 :: s0 :: s1 :: 46 :: f0 :: (fr ++ z))), s') ∧ Post s' rest := by
  obtain ⟨d, hd'⟩ := Option.isSome_iff_exists.mp hmk
  obtain ⟨t, ht'⟩ := Option.isSome_iff_exists.mp hmt
  have hat : At (Scan.at f0 (fr ++ (z ++ rest)) 84
      (pos + 1 + 1 + 1 + 1 + 1 + 1 + 1 + 1 + 1 + 1 + 1 + 1 + 1 + 1 + 1 + 1 + 1 + 1 + 1 + 1))
      ((f0 :: fr) ++ (z ++ rest)) := At_at ..
  have hstz : ∃ z0 zr, z = z0 :: zr ∧ isDigitB z0 = false := by
    obtain ⟨_, _, _, _, z0, zr, e, h0', _⟩ := parseTimeZone_any2 z hz (Scan.make (z ++ rest)) rest (z.length + 1)
      (At_make_all'' _) (by cases hx : z ++ rest <;> simp [Scan.make]) hd (by omega)
    exact ⟨z0, zr, e, h0'⟩
  have hstop : Stop isDigitB (z ++ rest) := by
    obtain ⟨z0, zr, rfl, h0'⟩ := hstz
    exact Stop_cons h0'
  have efr := fracLoop_rt (f0 :: fr) hfr _ (z ++ rest) fuel [] hat hstop (by simp; omega)
  have hat2 : At (advN (f0 :: fr).length (Scan.at f0 (fr ++ (z ++ rest)) 84
      (pos + 1 + 1 + 1 + 1 + 1 + 1 + 1 + 1 + 1 + 1 + 1 + 1 + 1 + 1 + 1 + 1 + 1 + 1 + 1 + 1))) (z ++ rest) := hat.advN
  obtain ⟨s', e, hp, hzc, _⟩ := parseTimeZone_any2 z hz _ rest fuel hat2 (advN_stash_nil _ _ rfl) hd (by omega)
  refine ⟨s', ?_, hp⟩
  simp only [Scan.at, List.nil_append, List.length_cons] at efr e
  unfold parseNumberDateTime
  simp only [Scan.at, digit_ne_minus hy0, Bool.false_eq_true, if_false]
  rcases hzc with hnone | ⟨name, hsome, hres⟩
  · simp [ndtPeeks, Scan.peek, Scan.readByte, hy0, hy1, hy2, hy3, isPartialDate, hm0, hm1, hd0, hd1,
      parseDateTime, parseDateRaw, parseTimeRaw, takeDigits, Scan.advance, Scan.read, Scan.readQ, hd', ht', hh0, hh1,
      hi0, hi1, hs0, hs1, efr, e, hnone, dtVal]
  · simp [ndtPeeks, Scan.peek, Scan.readByte, hy0, hy1, hy2, hy3, isPartialDate, hm0, hm1, hd0, hd1,
      parseDateTime, parseDateRaw, parseTimeRaw, takeDigits, Scan.advance, Scan.read, Scan.readQ, hd', ht', hh0, hh1,
      hi0, hi1, hs0, hs1, efr, e, hsome, hres, dtVal]

/-- `parse_number_date_time` on a timestamp token -/
theorem ndt_datetime_rt (w : List UInt8) (hok : dtBytesOk w = true) (s : Scan) (rest : List UInt8) (fuel : Nat)
    (h : At s (w ++ rest)) (hs : s.stash = []) (hd : FDelim rest) (hf : w.length + 1 ≤ fuel) :
    ∃ s', parseNumberDateTime fuel s = .ok (dtVal (asciiChars w), s') ∧ Post s' rest := by
  unfold dtBytesOk at hok
  split at hok
  · rename_i y0 y1 y2 y3 m0 m1 d0 d1 h0 h1 i0 i1 s0 s1 tl
    simp only [Bool.and_eq_true] at hok
    obtain ⟨⟨⟨⟨⟨⟨⟨⟨⟨⟨⟨⟨⟨⟨⟨hy0, hy1⟩, hy2⟩, hy3⟩, hm0⟩, hm1⟩, hd0⟩, hd1⟩, hh0⟩, hh1⟩, hi0⟩, hi1⟩, hs0⟩, hs1⟩, hmk⟩, htl⟩ := hok
    simp only [List.cons_append] at h
    have hseq := eq_at_of_At h hs
    rw [pk_zero] at hseq
    simp only [List.length_cons] at hf
    split at htl
    · rename_i f0 more
      simp only [Bool.and_eq_true] at htl
      obtain ⟨⟨hf0, hmt⟩, hz⟩ := htl
      have hsplit : more = more.takeWhile isDigitB ++ more.dropWhile isDigitB := (List.takeWhile_append_dropWhile).symm
      have hfr : ∀ b ∈ f0 :: more.takeWhile isDigitB, isDigitB b = true := by
        intro b hb
        simp only [List.mem_cons] at hb
        rcases hb with rfl | hb
        · exact hf0
        · have := List.all_takeWhile (p := isDigitB) (l := more)
          rw [List.all_eq_true] at this
          exact this b hb
      have hlen : (more.takeWhile isDigitB).length + (more.dropWhile isDigitB).length = more.length := by
        have := congrArg List.length hsplit
        simp only [List.length_append] at this
        omega
      simp only [List.length_cons] at hf
      obtain ⟨s', e, hp⟩ := ndt_datetime_frac2 y0 y1 y2 y3 m0 m1 d0 d1 h0 h1 i0 i1 s0 s1 hy0 hy1 hy2 hy3 hm0 hm1 hd0 hd1
        hh0 hh1 hi0 hi1 hs0 hs1 f0 (more.takeWhile isDigitB) hfr hmk hmt (more.dropWhile isDigitB) hz rest hd
        s.lastPeek s.pos fuel (by omega)
      refine ⟨s', ?_, hp⟩
      rw [hseq]
      have e1 : (46 :: f0 :: more ++ rest) = 46 :: f0 :: (more.takeWhile isDigitB ++ (more.dropWhile isDigitB ++ rest)) := by
        rw [← List.append_assoc, ← hsplit]; rfl
      have e2 : 46 :: f0 :: (more.takeWhile isDigitB ++ more.dropWhile isDigitB) = 46 :: f0 :: more := by
        rw [← hsplit]
      rw [e1, e, e2]
    · simp only [Bool.and_eq_true] at htl
      obtain ⟨s', e, hp⟩ := ndt_datetime2 y0 y1 y2 y3 m0 m1 d0 d1 h0 h1 i0 i1 s0 s1 hy0 hy1 hy2 hy3 hm0 hm1 hd0 hd1
        hh0 hh1 hi0 hi1 hs0 hs1 hmk htl.1 tl htl.2 rest hd s.lastPeek s.pos fuel (by omega)
      refine ⟨s', ?_, hp⟩
      rw [hseq, e]
  · simp at hok

end Hs.Zinc
