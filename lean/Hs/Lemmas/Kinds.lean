/-
  Hs.Lemmas.Kinds — general lemmas for C19: the `match`-table lookup, and the sorted de-duplicated
  union that `Grid::make_from_dicts` computes.
-/
import Hs.Model.Kinds
import Hs.Lemmas.CmpEq
namespace Hs.Kinds
open Hs

/-! ### lookup in a `match` table -/

theorem lookup_some_mem {β : Type} {k : List Char} {b : β} :
    ∀ {l : List (List Char × β)}, lookup k l = some b → (k, b) ∈ l
  | [], h => by simp [lookup] at h
  | (a, c) :: rest, h => by
    unfold lookup at h
    split at h
    · next hk => cases h; subst hk; exact List.mem_cons_self ..
    · exact List.mem_cons_of_mem _ (lookup_some_mem h)

theorem lookup3_some_mem {k b c : List Char} :
    ∀ {l : List (List Char × List Char × List Char)}, lookup3 k l = some (b, c) → (k, b, c) ∈ l
  | [], h => by simp [lookup3] at h
  | (a, b', c') :: rest, h => by
    unfold lookup3 at h
    split at h
    · next hk =>
      simp only [Option.some.injEq, Prod.mk.injEq] at h
      obtain ⟨rfl, rfl⟩ := h; subst hk; exact List.mem_cons_self ..
    · exact List.mem_cons_of_mem _ (lookup3_some_mem h)

theorem firstArm_some_mem {n : Nat} {k : Kind} :
    ∀ {l : List (List Char × List Char)}, firstArm n l = some k → ∃ a, (a, k) ∈ l ∧ kindCode a = some n
  | [], h => by simp [firstArm] at h
  | (a, b) :: rest, h => by
    unfold firstArm at h
    split at h
    · next hk => cases h; exact ⟨a, List.mem_cons_self .., hk⟩
    · obtain ⟨a', hm, hc⟩ := firstArm_some_mem h
      exact ⟨a', List.mem_cons_of_mem _ hm, hc⟩

/-! ### every constructor of `Val` is one of 18 variant names -/

/-- the hand-written variant names, in the order of `Val.kindIdx` -/
def ctorNames : List (List Char) :=
  [cl! "Null", cl! "Remove", cl! "Marker", cl! "Bool",
   cl! "Na", cl! "Number", cl! "Str", cl! "Uri", cl! "Ref",
   cl! "Symbol", cl! "Date", cl! "Time",
   cl! "DateTime", cl! "Coord", cl! "XStr",
   cl! "List", cl! "Dict", cl! "Grid"]

theorem ctorNames_get (v : Val) : ctorNames[v.kindIdx]? = some v.ctorName := by
  cases v <;> rfl

theorem ctorName_mem (v : Val) : v.ctorName ∈ ctorNames :=
  List.mem_of_getElem? (ctorNames_get v)

/-- a representative value of each variant (used for non-vacuity and to show the list is tight) -/
def sampleOf : Nat → Val
  | 0 => .null | 1 => .remove | 2 => .marker | 3 => .bool true | 4 => .na
  | 5 => .num { v := { bits := 0, txt := ['0'] }, unit := none }
  | 6 => .str [] | 7 => .uri [] | 8 => .ref ['a'] none | 9 => .sym ['a']
  | 10 => .date { y := 2020, m := 1, d := 1, txt := [] } | 11 => .time { h := 0, mi := 0, s := 0, ns := 0, txt := [] }
  | 12 => .dateTime { secs := 0, ns := 0, off := 0, zone := [], tzid := [], txt := [] }
  | 13 => .coord { bits := 0, txt := ['0'] } { bits := 0, txt := ['0'] }
  | 14 => .xstr ['A'] [] | 15 => .list .nil | 16 => .dict .nil
  | _ => .grid .none .nil .nil []

theorem ctorNames_eq_samples : ctorNames = (List.range 18).map fun i => (sampleOf i).ctorName := by decide

theorem ctorNames_tight : ∀ n ∈ ctorNames, ∃ v : Val, v.ctorName = n := by
  intro n hn
  rw [ctorNames_eq_samples] at hn
  obtain ⟨i, _, rfl⟩ := List.mem_map.1 hn
  exact ⟨_, rfl⟩

/-! ### sorted de-duplicated union -/

/-- strictly ascending in `String` order -/
def Asc (l : List (List Char)) : Prop := l.Pairwise fun a b => cmpChars a b = .lt

theorem cmpChars_swap (a b : List Char) : cmpChars b a = (cmpChars a b).swap :=
  (ordAt_chars (P := fun _ => True) a).swap b trivial

theorem cmpChars_lt_trans {a b c : List Char} (h1 : cmpChars a b = .lt) (h2 : cmpChars b c = .lt) :
    cmpChars a c = .lt :=
  (ordAt_chars (P := fun _ => True) a).lt_lt b c trivial trivial h1 h2

theorem cmpChars_gt_lt {a b : List Char} (h : cmpChars a b = .gt) : cmpChars b a = .lt := by
  rw [cmpChars_swap, h]; rfl

theorem mem_insertKey {x k : List Char} : ∀ {l : List (List Char)}, x ∈ insertKey k l ↔ x = k ∨ x ∈ l
  | [] => by simp [insertKey]
  | y :: ys => by
    unfold insertKey
    split
    · simp
    · next h =>
      have := (cmpChars_eq_iff k y).1 h
      subst this
      simp
    · simp only [List.mem_cons, mem_insertKey (l := ys)]
      constructor
      · rintro (h | h | h)
        · exact .inr (.inl h)
        · exact .inl h
        · exact .inr (.inr h)
      · rintro (h | h | h)
        · exact .inr (.inl h)
        · exact .inl h
        · exact .inr (.inr h)

theorem asc_insertKey {k : List Char} : ∀ {l : List (List Char)}, Asc l → Asc (insertKey k l)
  | [], _ => by simp [insertKey, Asc]
  | y :: ys, h => by
    have hy : ∀ z ∈ ys, cmpChars y z = .lt := (List.pairwise_cons.1 h).1
    have hys : Asc ys := (List.pairwise_cons.1 h).2
    unfold insertKey
    split
    · next hlt =>
      refine List.pairwise_cons.2 ⟨?_, h⟩
      intro z hz
      rcases List.mem_cons.1 hz with rfl | hz
      · exact hlt
      · exact cmpChars_lt_trans hlt (hy z hz)
    · exact h
    · next hgt =>
      refine List.pairwise_cons.2 ⟨?_, asc_insertKey hys⟩
      intro z hz
      rcases mem_insertKey.1 hz with rfl | hz
      · exact cmpChars_gt_lt hgt
      · exact hy z hz

theorem asc_sortedUnion : ∀ ks : List (List Char), Asc (sortedUnion ks)
  | [] => by simp [sortedUnion, Asc]
  | k :: ks => by
    have := asc_sortedUnion ks
    simp only [sortedUnion, List.foldr_cons] at this ⊢
    exact asc_insertKey this

theorem mem_sortedUnion {x : List Char} : ∀ {ks : List (List Char)}, x ∈ sortedUnion ks ↔ x ∈ ks
  | [] => by simp [sortedUnion]
  | k :: ks => by
    have ih := mem_sortedUnion (x := x) (ks := ks)
    simp only [sortedUnion, List.foldr_cons] at ih ⊢
    rw [mem_insertKey, ih, List.mem_cons]

theorem Asc.nodup {l : List (List Char)} (h : Asc l) : l.Nodup := by
  refine List.Pairwise.imp ?_ h
  intro a b hab heq
  subst heq
  rw [cmpChars_refl] at hab
  cases hab

theorem mem_rowKeys {k : List Char} : ∀ {rows : List Tags}, k ∈ rowKeys rows ↔ ∃ r ∈ rows, k ∈ r.keys
  | [] => by simp [rowKeys]
  | r :: rs => by
    simp only [rowKeys, List.mem_append, mem_rowKeys (rows := rs), List.mem_cons, exists_eq_or_imp]

theorem names_colsOfNames : ∀ ns : List (List Char), (colsOfNames ns).names = ns
  | [] => rfl
  | n :: ns => by simp [colsOfNames, Cols.names, names_colsOfNames ns]

theorem colsOfNames_toList : ∀ ns : List (List Char), (colsOfNames ns).toList = ns.map fun n => (n, OTags.none)
  | [] => rfl
  | n :: ns => by simp [colsOfNames, Cols.toList, colsOfNames_toList ns]

theorem toList_ofList : ∀ rows : List Tags, (Rows.ofList rows).toList = rows
  | [] => rfl
  | r :: rs => by simp [Rows.ofList, Rows.toList, toList_ofList rs]

end Hs.Kinds
