/-
  Hs.Lemmas.NsCacheSys — the concurrent system of Hs.Model.NsCache: guard discipline (`Safe`), the global
  invariant `GInv` and its preservation by every step of every thread, deadlock freedom.
-/
import Hs.Lemmas.NsCacheGood
namespace Hs.NsCache
open Hs Hs.Ns

/-- Guard discipline.  `Safe h p`: a thread holding `h` guards (`false` = none, `true` = one) that runs `p`
performs `get` / `contains_key` / `insert` only while it holds NO guard, drops only a guard it holds, never
holds two, and finishes holding none. -/
inductive Safe {α : Type} : Bool → Prog α → Prop
  | ret {a : α} : Safe false (.ret a)
  | get {c : CacheId} {k : Name} {cont : Option V → Prog α} :
      Safe false (cont none) → (∀ v, Safe true (cont (some v))) → Safe false (.get c k cont)
  | has {c : CacheId} {k : Name} {cont : Bool → Prog α} : (∀ b, Safe false (cont b)) → Safe false (.has c k cont)
  | ins {c : CacheId} {k : Name} {v : V} {cont : Prog α} : Safe false cont → Safe false (.ins c k v cont)
  | drop {cont : Prog α} : Safe false cont → Safe true (.drop cont)

theorem safe_bind {α β : Type} {h : Bool} {p : Prog α} {f : α → Prog β} (hp : Safe h p)
    (hf : ∀ a, Safe false (f a)) : Safe h (p.bind f) := by
  induction hp with
  | ret => exact hf _
  | get _ _ ih1 ih2 => exact .get ih1 ih2
  | has _ ih => exact .has ih
  | ins _ ih => exact .ins ih
  | drop _ ih => exact .drop ih

theorem safe_readP (c : CacheId) (k : Name) : Safe false (readP c k) :=
  .get .ret (fun _ => .drop .ret)

theorem safe_storeP (c : CacheId) (k : Name) (val : V) : Safe false (storeP c k val) := by
  refine .has (fun b => ?_)
  cases b
  · exact .ins (safe_readP c k)
  · exact safe_readP c k

theorem safe_supG (g : Defs) (k : Name) : Safe false (supG g k) :=
  .get (safe_storeP _ _ _) (fun _ => .drop .ret)

theorem safe_forBodyP (g : Defs) : ∀ (ds : List Name) (st : List (List Name)) (acc : List Name),
    Safe false (forBodyP g ds st acc) := by
  intro ds
  induction ds with
  | nil => intro st acc; exact .ret
  | cons d ds ih =>
    intro st acc
    by_cases hd : d ∈ acc
    · simp only [forBodyP, hd, if_true]
      exact ih _ _
    · simp only [forBodyP, hd, if_false]
      refine safe_bind (safe_supG g d) (fun r => ?_)
      cases r <;> first | exact ih _ _ | exact .ret

theorem safe_wlP (g : Defs) : ∀ (fuel : Nat) (st : List (List Name)) (acc : List Name),
    Safe false (wlP g fuel st acc) := by
  intro fuel
  induction fuel with
  | zero => intro st acc; cases st <;> exact .ret
  | succ fuel ih =>
    intro st acc
    cases st with
    | nil => exact .ret
    | cons v st =>
      simp only [wlP]
      refine safe_bind (safe_forBodyP g v st acc) (fun r => ?_)
      cases r <;> first | exact ih _ _ | exact .ret

theorem safe_allSupP (fuel : Nat) (g : Defs) (s : Name) : Safe false (allSupP fuel g s) := by
  simp only [allSupP]
  refine safe_bind (safe_supG g s) (fun r => ?_)
  cases r <;> first | exact safe_wlP g _ _ _ | exact .ret

theorem safe_computeInhP (fuel : Nat) (ns : Ns) (k : Name) : Safe false (computeInhP fuel ns k) := by
  unfold computeInhP
  split
  · refine safe_bind (safe_allSupP fuel ns.defs k) (fun r => ?_)
    cases r <;> exact .ret
  · exact .ret

theorem safe_inhG (fuel : Nat) (ns : Ns) (k : Name) : Safe false (inhG fuel ns k) := by
  refine .get ?_ (fun _ => .drop .ret)
  refine safe_bind (safe_computeInhP fuel ns k) (fun r => ?_)
  cases r <;> first | exact safe_storeP _ _ _ | exact .ret

theorem safe_fitsP (fuel : Nat) (ns : Ns) (a b : Name) : Safe false (fitsP fuel ns a b) := by
  unfold fitsP
  split
  · refine safe_bind (safe_inhG fuel ns a) (fun r => ?_)
    cases r <;> exact .ret
  · exact .ret

theorem safe_findSupP (fuel : Nat) (g : Defs) : ∀ (ds acc : List Name), Safe false (findSupP fuel g ds acc) := by
  intro ds
  induction ds with
  | nil => intro acc; exact .ret
  | cons d ds ih =>
    intro acc
    simp only [findSupP]
    refine safe_bind (safe_allSupP fuel g d) (fun r => ?_)
    cases r <;> first | exact ih _ | exact .ret

theorem safe_entityP (fuel : Nat) (ns : Ns) : ∀ ds : List Name, Safe false (entityP fuel ns ds) := by
  intro ds
  induction ds with
  | nil => exact .ret
  | cons d ds ih =>
    simp only [entityP]
    refine safe_bind (safe_inhG fuel ns d) (fun r => ?_)
    cases r <;> first | exact ih | exact .ret

theorem safe_reflectP (fuel : Nat) (ns : Ns) (r : Rec) : Safe false (reflectP fuel ns r) := by
  unfold reflectP
  refine safe_bind (safe_findSupP fuel ns.defs _ _) (fun rv => ?_)
  cases rv with
  | ok ds =>
    simp only
    split
    · refine safe_bind (safe_entityP fuel ns ds) (fun e => ?_)
      cases e <;> exact .ret
    · exact .ret
  | err => exact .ret
  | panic => exact .ret
  | diverge => exact .ret
  | depth => exact .ret

theorem safe_anyFitsP (fuel : Nat) (ns : Ns) (base : Name) : ∀ ds : List Name, Safe false (anyFitsP fuel ns base ds) := by
  intro ds
  induction ds with
  | nil => exact .ret
  | cons d ds ih =>
    simp only [anyFitsP]
    refine safe_bind (safe_fitsP fuel ns d base) (fun r => ?_)
    cases r with
    | ok b => cases b <;> first | exact ih | exact .ret
    | err => exact .ret
    | panic => exact .ret
    | diverge => exact .ret
    | depth => exact .ret

theorem safe_reflFitsP (fuel : Nat) (ns : Ns) (r : Rec) (base : Name) : Safe false (reflFitsP fuel ns r base) := by
  unfold reflFitsP
  refine safe_bind (safe_reflectP fuel ns r) (fun rv => ?_)
  cases rv <;> first | exact safe_anyFitsP fuel ns base _ | exact .ret


section assoc
open Hs.NsA

theorem safe_findReciprocalP (fuel : Nat) (x : NsX) (p r : Name) : Safe false (findReciprocalP fuel x p r) := by
  unfold findReciprocalP
  refine safe_bind (safe_inhG fuel x.ns p) (fun ri => ?_)
  cases ri <;> exact .ret

theorem safe_associationsP (fuel : Nat) (x : NsX) (p a : Name) : Safe false (associationsP fuel x p a) := by
  unfold associationsP
  split
  · exact .ret
  · split
    · exact .ret
    · split
      · split
        · split <;> exact .ret
        · exact .ret
      · split
        · split
          · exact safe_findReciprocalP fuel x p _
          · exact .ret
        · exact .ret

theorem safe_supersOfAllP (fuel : Nat) (ns : Ns) : ∀ (ds acc : List Name), Safe false (supersOfAllP fuel ns ds acc) := by
  intro ds
  induction ds with
  | nil => intro acc; exact .ret
  | cons d ds ih =>
    intro acc
    simp only [supersOfAllP]
    refine safe_bind (safe_allSupP fuel ns.defs d) (fun r => ?_)
    cases r <;> first | exact ih _ | exact .ret

theorem safe_implementationP (fuel : Nat) (x : NsX) (s : Name) : Safe false (implementationP fuel x s) := by
  unfold implementationP
  refine safe_bind (safe_supersOfAllP fuel x.ns _ _) (fun r => ?_)
  cases r <;> exact .ret

theorem safe_relInnerP (fuel : Nat) (x : NsX) (recs : List RecX) (rel : Name) (recip term : Option Name) (tr : Bool)
    (id : Option Name) : ∀ (ts : List SubjTag) (q : List Name) (rt : Option Name),
      Safe false (relInnerP fuel x recs rel recip term tr id ts q rt) := by
  intro ts
  induction ts with
  | nil => intro q rt; exact .ret
  | cons t rest ih =>
    intro q rt
    simp only [relInnerP]
    split
    · rename_i s hs
      have hterm : Safe false (fitsTermP fuel x.ns term s) := by
        cases term with
        | none => exact .ret
        | some tm => exact safe_fitsP fuel x.ns s tm
      refine safe_bind hterm (fun fr => ?_)
      cases fr with
      | ok f =>
        dsimp only
        cases relDecide recs tr t q _ f with
        | inl st => exact .ret
        | inr p =>
          obtain ⟨q', rt'⟩ := p
          exact ih _ _
      | err => exact .ret
      | panic => exact .ret
      | diverge => exact .ret
      | depth => exact .ret
    · exact ih _ _

theorem safe_relLoopP (fuel : Nat) (x : NsX) (recs : List RecX) (rel : Name) (recip term : Option Name) (tr : Bool) :
    ∀ (lf : Nat) (s : RecX) (q : List Name) (rt : Option Name),
      Safe false (relLoopP fuel x recs rel recip term tr lf s q rt) := by
  intro lf
  induction lf with
  | zero => intro s q rt; exact .ret
  | succ n ih =>
    intro s q rt
    simp only [relLoopP]
    refine safe_bind (safe_relInnerP fuel x recs rel recip term tr s.id s.tags q rt) (fun r => ?_)
    cases r with
    | ok st =>
      cases st with
      | ret b => exact .ret
      | done => exact .ret
      | next s' q' rt' => exact ih _ _ _
    | err => exact .ret
    | panic => exact .ret
    | diverge => exact .ret
    | depth => exact .ret

theorem safe_hasRelationshipP (fuel lf : Nat) (x : NsX) (recs : List RecX) (rel : Name) (term target : Option Name)
    (s : RecX) : Safe false (hasRelationshipP fuel lf x recs rel term target s) := by
  unfold hasRelationshipP
  split
  · exact .ret
  · refine safe_bind (safe_inhG fuel x.ns rel) (fun ri => ?_)
    cases ri with
    | ok inh =>
      dsimp only
      split
      · exact .ret
      · exact safe_relLoopP fuel x recs rel _ term _ lf s [] target
    | err => exact .ret
    | panic => exact .ret
    | diverge => exact .ret
    | depth => exact .ret
end assoc

theorem safe_queryP (cfg : Cfg) (q : Query) : Safe false (queryP cfg q) := by
  cases q with
  | sup k => exact safe_bind (safe_supG _ k) (fun _ => .ret)
  | allSup k => exact safe_bind (safe_allSupP _ _ k) (fun _ => .ret)
  | inh k => exact safe_bind (safe_inhG _ _ k) (fun _ => .ret)
  | fits a b => exact safe_bind (safe_fitsP _ _ a b) (fun _ => .ret)
  | reflect r => exact safe_bind (safe_reflectP _ _ r) (fun _ => .ret)
  | reflFits r b => exact safe_bind (safe_reflFitsP _ _ r b) (fun _ => .ret)
  | assoc p a => exact safe_bind (safe_associationsP _ _ p a) (fun _ => .ret)
  | impl k => exact safe_bind (safe_implementationP _ _ k) (fun _ => .ret)
  | fitsRoot w k => exact safe_bind (safe_fitsP _ _ k _) (fun _ => .ret)
  | rel recs r term target s => exact safe_bind (safe_hasRelationshipP _ _ _ recs r term target s) (fun _ => .ret)

theorem safe_runQs (cfg : Cfg) : ∀ qs : List Query, Safe false (runQs cfg qs) := by
  intro qs
  induction qs with
  | nil => exact .ret
  | cons q qs ih =>
    simp only [runQs]
    exact safe_bind (safe_queryP cfg q) (fun _ => safe_bind ih (fun _ => .ret))

/-! ### the global invariant -/

/-- what thread `t` must return: the cache-free answers to its queries -/
def postOf (cfg : Cfg) (qss : List (List Query)) (t : Nat) (as : List Ans) : Prop :=
  as = (qss.getD t []).map (pureAns cfg)

structure GInv (cfg : Cfg) (qss : List (List Query)) (s : State) : Prop where
  inv  : Inv cfg s.c
  good : ∀ (t : Nat) (th : Thread), s.thr[t]? = some th → Good cfg (postOf cfg qss t) s.c th.prog
  safe : ∀ (t : Nat) (th : Thread), s.thr[t]? = some th → Safe (!th.held.isEmpty) th.prog ∧ th.held.length ≤ 1

theorem ginv_update {cfg : Cfg} {qss : List (List Query)} {s : State} (h : GInv cfg qss s)
    (t : Nat) (th' : Thread) (cs' : Caches) (hle : Le s.c cs') (hinv : Inv cfg cs')
    (hg : Good cfg (postOf cfg qss t) cs' th'.prog)
    (hs : Safe (!th'.held.isEmpty) th'.prog ∧ th'.held.length ≤ 1) :
    GInv cfg qss { c := cs', thr := s.thr.set t th' } := by
  refine ⟨hinv, ?_, ?_⟩
  · intro u thu hu
    simp only at hu
    by_cases hut : t = u
    · subst hut
      rw [List.getElem?_set] at hu
      simp only [if_true] at hu
      split at hu
      · cases hu; exact hg
      · cases hu
    · rw [List.getElem?_set_ne hut] at hu
      exact good_mono (h.good u thu hu) cs' hle
  · intro u thu hu
    simp only at hu
    by_cases hut : t = u
    · subst hut
      rw [List.getElem?_set] at hu
      simp only [if_true] at hu
      split at hu
      · cases hu; exact hs
      · cases hu
    · rw [List.getElem?_set_ne hut] at hu
      exact h.safe u thu hu

theorem safe_true_is_drop {α : Type} {p : Prog α} (h : Safe true p) : ∃ cont, p = .drop cont := by
  cases h with
  | drop _ => exact ⟨_, rfl⟩

theorem held_nil_of_safe_false {th : Thread} (h : Safe (!th.held.isEmpty) th.prog)
    (hp : ∀ cont, th.prog ≠ .drop cont) : th.held = [] := by
  cases hh : th.held with
  | nil => rfl
  | cons x xs =>
    rw [hh] at h
    simp only [List.isEmpty_cons, Bool.not_false] at h
    obtain ⟨cont, hc⟩ := safe_true_is_drop h
    exact absurd hc (hp cont)

/-- every step of every thread preserves the invariant -/
theorem ginv_step {cfg : Cfg} {qss : List (List Query)} {s : State} (h : GInv cfg qss s) (t : Nat) :
    GInv cfg qss (step cfg s t) := by
  unfold step
  cases ht : s.thr[t]? with
  | none => exact h
  | some th =>
    simp only
    have hg := h.good t th ht
    have hs := h.safe t th ht
    cases hp : th.prog with
    | ret a => exact h
    | get c k cont =>
      simp only
      rw [hp] at hg hs
      have hheld : th.held = [] := by
        apply held_nil_of_safe_false (by rw [hp]; exact hs.1)
        intro cont' h'; rw [hp] at h'; cases h'
      cases hg with
      | get hk =>
        have hsafe := hs.1
        rw [hheld] at hsafe
        simp only [List.isEmpty_nil, Bool.not_true] at hsafe
        cases hsafe with
        | get s0 s1 =>
          refine ginv_update h t _ s.c (le_refl _) h.inv (hk s.c (le_refl _) h.inv) ?_
          simp only [hheld]
          cases hl : look c k s.c with
          | none => simp; exact s0
          | some v => simp; exact s1 v
    | has c k cont =>
      simp only
      rw [hp] at hg hs
      cases hg with
      | has hk =>
        refine ginv_update h t _ s.c (le_refl _) h.inv (hk s.c (le_refl _) h.inv) ?_
        simp only
        refine ⟨?_, hs.2⟩
        have hheld : th.held = [] := by
          apply held_nil_of_safe_false (by rw [hp]; exact hs.1)
          intro cont' h'; rw [hp] at h'; cases h'
        have hsafe := hs.1
        rw [hheld] at hsafe ⊢
        simp only [List.isEmpty_nil, Bool.not_true] at hsafe ⊢
        cases hsafe with
        | has s0 => exact s0 _
    | ins c k v cont =>
      simp only
      split
      · exact h
      · rw [hp] at hg hs
        cases hg with
        | ins hc hk =>
          refine ginv_update h t _ (put c k v s.c) (le_put h.inv hc) (inv_put h.inv hc)
            (hk _ (le_refl _) (inv_put h.inv hc)) ?_
          simp only
          refine ⟨?_, hs.2⟩
          have hheld : th.held = [] := by
            apply held_nil_of_safe_false (by rw [hp]; exact hs.1)
            intro cont' h'; rw [hp] at h'; cases h'
          have hsafe := hs.1
          rw [hheld] at hsafe ⊢
          simp only [List.isEmpty_nil, Bool.not_true] at hsafe ⊢
          cases hsafe with
          | ins s0 => exact s0
    | drop cont =>
      simp only
      rw [hp] at hg hs
      cases hg with
      | drop hk =>
        refine ginv_update h t _ s.c (le_refl _) h.inv hk ?_
        simp only
        cases hh : th.held with
        | nil =>
          have hsafe := hs.1
          rw [hh] at hsafe
          simp only [List.isEmpty_nil, Bool.not_true] at hsafe
          cases hsafe
        | cons x xs =>
          have hlen := hs.2
          rw [hh] at hlen
          simp only [List.length_cons] at hlen
          have hxs : xs = [] := by
            cases xs with
            | nil => rfl
            | cons y ys => simp at hlen
          subst hxs
          have hsafe := hs.1
          rw [hh] at hsafe
          simp only [List.isEmpty_cons, Bool.not_false] at hsafe
          cases hsafe with
          | drop s0 => simp; exact s0

theorem ginv_run {cfg : Cfg} {qss : List (List Query)} (sched : List Nat) :
    ∀ s : State, GInv cfg qss s → GInv cfg qss (run cfg s sched) := by
  induction sched with
  | nil => intro s h; exact h
  | cons t sched ih => intro s h; exact ih _ (ginv_step h t)

theorem ginv_init (cfg : Cfg) (c0 : Caches) (h0 : Inv cfg c0) (qss : List (List Query)) :
    GInv cfg qss (init cfg c0 qss) := by
  refine ⟨h0, ?_, ?_⟩
  · intro t th ht
    simp only [init, List.getElem?_map] at ht
    cases hq : qss[t]? with
    | none => rw [hq] at ht; cases ht
    | some qs =>
      rw [hq] at ht
      simp only [Option.map_some, Option.some.injEq] at ht
      subst ht
      have hpost : postOf cfg qss t = fun as => as = qs.map (pureAns cfg) := by
        funext as
        simp [postOf, List.getD_eq_getElem?_getD, hq]
      rw [hpost]
      exact good_runQs qs c0
  · intro t th ht
    simp only [init, List.getElem?_map] at ht
    cases hq : qss[t]? with
    | none => rw [hq] at ht; cases ht
    | some qs =>
      rw [hq] at ht
      simp only [Option.map_some, Option.some.injEq] at ht
      subst ht
      exact ⟨by simpa using safe_runQs cfg qs, by simp⟩

/-! ### deadlock freedom -/

/-- a thread that holds a guard is about to drop it -/
theorem holder_drops {cfg : Cfg} {qss : List (List Query)} {s : State} (h : GInv cfg qss s)
    {t : Nat} {th : Thread} (ht : s.thr[t]? = some th) (hh : th.held ≠ []) : ∃ cont, th.prog = .drop cont := by
  have hs := (h.safe t th ht).1
  cases hheld : th.held with
  | nil => exact absurd hheld hh
  | cons x xs =>
    rw [hheld] at hs
    simp only [List.isEmpty_cons, Bool.not_false] at hs
    exact safe_true_is_drop hs

/-- no hold-and-wait: a thread that holds a guard is enabled -/
theorem holder_enabled {cfg : Cfg} {qss : List (List Query)} {s : State} (h : GInv cfg qss s)
    {t : Nat} {th : Thread} (ht : s.thr[t]? = some th) (hh : th.held ≠ []) : enabled cfg s t = true := by
  obtain ⟨cont, hp⟩ := holder_drops h ht hh
  simp [enabled, finished, blocked, ht, hp, Prog.isRet]

/-- a waiting thread holds nothing -/
theorem blocked_holds_nothing {cfg : Cfg} {qss : List (List Query)} {s : State} (h : GInv cfg qss s)
    {t : Nat} (hb : blocked cfg s t = true) : ∃ th, s.thr[t]? = some th ∧ th.held = [] := by
  unfold blocked at hb
  cases ht : s.thr[t]? with
  | none => rw [ht] at hb; cases hb
  | some th =>
    refine ⟨th, rfl, ?_⟩
    apply held_nil_of_safe_false (h.safe t th ht).1
    intro cont hp
    rw [ht] at hb
    simp only [hp] at hb
    cases hb

/-- as long as some thread has not finished, some thread can take a step -/
theorem some_enabled {cfg : Cfg} {qss : List (List Query)} {s : State} (h : GInv cfg qss s)
    (t : Nat) (hf : finished s t = false) : ∃ u, enabled cfg s u = true := by
  by_cases hb : blocked cfg s t = true
  · -- the guard that blocks `t` is held by a thread that is enabled
    have hb' := hb
    unfold blocked at hb'
    cases ht : s.thr[t]? with
    | none => rw [ht] at hb'; cases hb'
    | some th =>
      rw [ht] at hb'
      cases hp : th.prog with
      | ins c k v cont =>
        simp only [hp, shardHeld] at hb'
        obtain ⟨u, hu, hany⟩ := List.any_eq_true.1 hb'
        obtain ⟨i, hi⟩ := List.mem_iff_getElem?.1 hu
        refine ⟨i, holder_enabled h hi ?_⟩
        intro hnil
        rw [hnil] at hany
        simp at hany
      | ret a => simp [hp] at hb'
      | get c k cont => simp [hp] at hb'
      | has c k cont => simp [hp] at hb'
      | drop cont => simp [hp] at hb'
  · exact ⟨t, by simp [enabled, hf, hb]⟩

end Hs.NsCache
