/-
  C11 (lazy rows), part 5: the offsets used by `tokEnds` are what they are called.  In the text `t` of a
  top-level grid every row line starts where the previous one's newline ended, the blank line follows the
  last row, and ONE call of the lexer (`lexRead`) at the start of a row line consumes exactly `rowFirstLen` bytes:
  the line's first token.
-/
import Hs.Lemmas.ZincLazyCount
namespace Hs.Zinc
open Hs Hs.Scan

/-- `Layout t names single off rows`: at offset `off` of `t` the lines of `rows` begin, one after the other, each
ended by a newline, followed by the blank line that ends the grid; a clean scanner positioned at the start of a
row line is moved by one `lexRead` to the offset `off + rowFirstLen r names` -/
def Layout (t : List UInt8) (names : List (List Char)) (single : Bool) : Nat → Rows → Prop
  | off, .nil => t.drop off = [10]
  | off, .cons r rs =>
    (t.drop off = rowBytes r names single ++ 10 :: t.drop (off + (rowBytes r names single).length + 1) ∧
     1 ≤ rowFirstLen r names ∧ rowFirstLen r names ≤ (rowBytes r names single).length ∧
     ∀ (sc : Scan) (f : Nat), At sc (t.drop off) → sc.stash = [] → (rowBytes r names single).length + 3 ≤ f →
       ∃ q, lexRead f sc = .ok q ∧ At q.sc (t.drop (off + rowFirstLen r names)) ∧ q.sc.stash = []) ∧
    Layout t names single (off + (rowBytes r names single).length + 1) rs

theorem layout_rows (t : List UInt8) (names : List (List Char)) (single : Bool)
    (hne : names ≠ []) (hsingle : names.length = 1 → single = true) :
    ∀ (rows : Rows) (off : Nat), RowsOk names single rows → GoodR rows →
      t.drop off = encRows rows names single ++ [10] → Layout t names single off rows
  | .nil, off, _, _, ht => by simpa [Layout, encRows] using ht
  | .cons r rs, off, hok, hgood, ht => by
    obtain ⟨hrow, hrest⟩ := hok
    simp only [GoodR] at hgood
    rw [encRows_cons] at ht
    simp only [List.append_assoc, List.cons_append] at ht
    have hnext : t.drop (off + (rowBytes r names single).length + 1) = encRows rs names single ++ [10] := by
      have : t.drop (off + (rowBytes r names single).length + 1)
          = (t.drop off).drop ((rowBytes r names single).length + 1) := by
        rw [List.drop_drop, Nat.add_assoc]
      rw [this, ht]
      have h2 : (rowBytes r names single ++ 10 :: (encRows rs names single ++ [10]))
          = (rowBytes r names single ++ [10]) ++ (encRows rs names single ++ [10]) := by simp
      rw [h2, List.drop_left' (by simp)]
    refine ⟨⟨by rw [ht, hnext], ?_⟩, layout_rows t names single hne hsingle rs _ hrest hgood.2 hnext⟩
    have hgoodcell : ∀ n v, r.get? n = some v → GoodV v := fun n v hv => (rdCell r hgood.1 n v hv).2
    have hpres : single = true → ∀ n ∈ names, r.get? n ≠ none := fun h n hn => (hrow.cells n hn).2 h
    -- the length facts do not depend on the scanner: instantiate `rowFirst_at` once on a concrete one
    have hmk := At_make_all' (rowBytes r names single ++ 10 :: (encRows rs names single ++ [10]))
    have hmks : (Scan.make (rowBytes r names single ++ 10 :: (encRows rs names single ++ [10]))).stash = [] := by
      cases hx : rowBytes r names single ++ 10 :: (encRows rs names single ++ [10]) <;> simp [Scan.make]
    obtain ⟨_, _, _, _, hk1, hk2⟩ := rowFirst_at r names single _ hne hsingle hgoodcell hpres _
      ((rowBytes r names single).length + 3) hmk hmks (Nat.le_refl _)
    refine ⟨hk1, hk2, ?_⟩
    intro sc f hat hs hf
    rw [ht] at hat
    obtain ⟨q, e, hq, hsq, _, _⟩ := rowFirst_at r names single _ hne hsingle hgoodcell hpres sc f hat hs hf
    refine ⟨q, e, ?_, hsq⟩
    rw [← List.drop_drop, ht]
    exact hq

end Hs.Zinc
