/-
  Hs.Lemmas.HaysonOrd — the key order of the Hayson decoder's dictionary (`leChars`, code point
  order = Rust `String: Ord` on valid UTF-8) and `insertTag` (`BTreeMap::insert`).
-/
import Hs.Model.Hayson
namespace Hs.Hayson
open Hs

/-! ### `leChars` is a total order -/

theorem leChars_refl : ∀ a : List Char, leChars a a = true
  | [] => by simp [leChars]
  | c :: cs => by simp [leChars, leChars_refl cs]

theorem leChars_total : ∀ a b : List Char, leChars a b = true ∨ leChars b a = true
  | [], _ => by simp [leChars]
  | _ :: _, [] => by simp [leChars]
  | a :: as, b :: bs => by
    rcases Nat.lt_trichotomy a.toNat b.toNat with h | h | h
    · left; simp [leChars, h]
    · have := leChars_total as bs
      simpa [leChars, h] using this
    · right; simp [leChars, h]

theorem leChars_antisymm : ∀ a b : List Char, leChars a b = true → leChars b a = true → a = b
  | [], [], _, _ => rfl
  | [], _ :: _, _, h => by simp [leChars] at h
  | _ :: _, [], h, _ => by simp [leChars] at h
  | a :: as, b :: bs, h1, h2 => by
    rcases Nat.lt_trichotomy a.toNat b.toNat with h | h | h
    · have h' : ¬ b.toNat < a.toNat := by omega
      simp [leChars, h, h'] at h2
    · have hab : a = b := Char.toNat_inj.mp h
      subst hab
      simp [leChars] at h1 h2
      rw [leChars_antisymm as bs h1 h2]
    · have h' : ¬ a.toNat < b.toNat := by omega
      simp [leChars, h, h'] at h1

theorem leChars_trans : ∀ a b c : List Char, leChars a b = true → leChars b c = true → leChars a c = true
  | [], _, _, _, _ => by simp [leChars]
  | _ :: _, [], _, h, _ => by simp [leChars] at h
  | _ :: _, _ :: _, [], _, h => by simp [leChars] at h
  | a :: as, b :: bs, c :: cs, h1, h2 => by
    simp only [leChars] at h1 h2 ⊢
    by_cases hab : a.toNat < b.toNat
    · by_cases hbc : b.toNat < c.toNat
      · have : a.toNat < c.toNat := by omega
        simp [this]
      · by_cases hcb : b.toNat > c.toNat
        · simp [hbc, hcb] at h2
        · have : a.toNat < c.toNat := by omega
          simp [this]
    · by_cases hba : a.toNat > b.toNat
      · simp [hab, hba] at h1
      · simp [hab, hba] at h1
        have hEq : a.toNat = b.toNat := by omega
        by_cases hbc : b.toNat < c.toNat
        · have : a.toNat < c.toNat := by omega
          simp [this]
        · by_cases hcb : b.toNat > c.toNat
          · simp [hbc, hcb] at h2
          · simp [hbc, hcb] at h2
            have h3 : ¬ a.toNat < c.toNat := by omega
            have h4 : ¬ a.toNat > c.toNat := by omega
            simp [h3, h4]
            exact leChars_trans as bs cs h1 h2

/-- strictly below: `a ≤ b` and `a ≠ b` -/
def ltChars (a b : List Char) : Bool := leChars a b && a != b

theorem ltChars_iff (a b : List Char) : ltChars a b = true ↔ leChars b a = false := by
  unfold ltChars
  constructor
  · intro h
    simp at h
    cases hba : leChars b a with
    | false => rfl
    | true => exact absurd (leChars_antisymm a b h.1 hba) h.2
  · intro h
    have hab : leChars a b = true := by
      rcases leChars_total a b with h' | h'
      · exact h'
      · rw [h] at h'; cases h'
    have hne : a ≠ b := by
      intro e; subst e; rw [leChars_refl] at h; cases h
    simp [hab, hne]

theorem ltChars_trans {a b c : List Char} (h1 : ltChars a b = true) (h2 : ltChars b c = true) :
    ltChars a c = true := by
  rw [ltChars_iff] at *
  cases h : leChars c a with
  | false => rfl
  | true =>
    -- c ≤ a and a ≤ b give c ≤ b, contradiction with b < c
    have hab : leChars a b = true := by
      rcases leChars_total a b with h' | h'
      · exact h'
      · rw [h1] at h'; cases h'
    have := leChars_trans c a b h hab
    rw [h2] at this; cases this

theorem ltChars_ne {a b : List Char} (h : ltChars a b = true) : a ≠ b := by
  unfold ltChars at h; simp at h; exact h.2

/-! ### strictly sorted key lists -/

/-- `a` is strictly below the head, and the list is strictly ascending -/
def sortedFrom : List Char → List (List Char) → Bool
  | _, [] => true
  | a, b :: r => ltChars a b && sortedFrom b r

/-- strictly ascending in code point order (hence pairwise distinct) -/
def strictSorted : List (List Char) → Bool
  | [] => true
  | a :: r => sortedFrom a r

theorem sortedFrom_all : ∀ (a : List Char) (l : List (List Char)), sortedFrom a l = true →
    ∀ b ∈ l, ltChars a b = true
  | _, [], _, _, hb => by cases hb
  | a, c :: r, h, b, hb => by
    simp [sortedFrom] at h
    rcases List.mem_cons.mp hb with e | hb'
    · subst e; exact h.1
    · exact ltChars_trans h.1 (sortedFrom_all c r h.2 b hb')

theorem strictSorted_pairwise : ∀ l : List (List Char), strictSorted l = true →
    l.Pairwise (fun a b => ltChars a b = true)
  | [], _ => List.Pairwise.nil
  | a :: r, h => by
    refine List.Pairwise.cons (sortedFrom_all a r h) ?_
    cases r with
    | nil => exact List.Pairwise.nil
    | cons b r' =>
      simp [strictSorted, sortedFrom] at h
      exact strictSorted_pairwise (b :: r') h.2

theorem pairwise_strictSorted : ∀ l : List (List Char),
    l.Pairwise (fun a b => ltChars a b = true) → strictSorted l = true
  | [], _ => rfl
  | [_], _ => rfl
  | a :: b :: r, h => by
    have h' := List.pairwise_cons.mp h
    have ih := pairwise_strictSorted (b :: r) h'.2
    simp [strictSorted, sortedFrom] at ih ⊢
    exact ⟨h'.1 b (by simp), ih⟩

/-! ### `insertTag` -/

/-- a key above every collected key is appended -/
theorem insertTag_append (k : List Char) (v : Val) :
    ∀ d : List (List Char × Val), (∀ p ∈ d, ltChars p.1 k = true) → insertTag k v d = d ++ [(k, v)]
  | [], _ => by simp [insertTag]
  | (k', v') :: rest, h => by
    have hk : ltChars k' k = true := h (k', v') (by simp)
    have hne : ¬ k = k' := fun e => ltChars_ne hk e.symm
    have hle : leChars k k' = false := (ltChars_iff k' k).mp hk
    have ih := insertTag_append k v rest (fun p hp => h p (List.mem_cons_of_mem _ hp))
    simp [insertTag, hne, hle, ih]

/-- feeding strictly ascending entries, all above what was collected, appends them in order -/
theorem foldl_insertTag_sorted : ∀ (l d : List (List Char × Val)),
    (d ++ l).map (·.1) |>.Pairwise (fun a b => ltChars a b = true) →
    l.foldl (fun acc p => insertTag p.1 p.2 acc) d = d ++ l
  | [], d, _ => by simp
  | (k, v) :: l, d, h => by
    have hd : ∀ p ∈ d, ltChars p.1 k = true := by
      intro p hp
      rw [List.map_append, List.pairwise_append] at h
      exact h.2.2 p.1 (List.mem_map_of_mem hp) k (by simp)
    have h' : ((d ++ [(k, v)]) ++ l).map (·.1) |>.Pairwise (fun a b => ltChars a b = true) := by
      simpa using h
    have ih := foldl_insertTag_sorted l (d ++ [(k, v)]) h'
    simp only [List.foldl_cons, insertTag_append k v d hd, ih]
    simp

/-- insertions of different keys commute (whatever was collected before) -/
theorem insertTag_comm (k1 k2 : List Char) (v1 v2 : Val) (hne : k1 ≠ k2) :
    ∀ d : List (List Char × Val),
      insertTag k1 v1 (insertTag k2 v2 d) = insertTag k2 v2 (insertTag k1 v1 d)
  | [] => by
    have hne' : ¬ k2 = k1 := fun e => hne e.symm
    rcases leChars_total k1 k2 with h | h
    · have h' : leChars k2 k1 = false := by
        cases hh : leChars k2 k1 with
        | false => rfl
        | true => exact absurd (leChars_antisymm k1 k2 h hh) hne
      simp [insertTag, hne, hne', h, h']
    · have h' : leChars k1 k2 = false := by
        cases hh : leChars k1 k2 with
        | false => rfl
        | true => exact absurd (leChars_antisymm k1 k2 hh h) hne
      simp [insertTag, hne, hne', h, h']
  | (k', v') :: rest => by
    have ih := insertTag_comm k1 k2 v1 v2 hne rest
    have hne' : ¬ k2 = k1 := fun e => hne e.symm
    have anti : ∀ a b : List Char, a ≠ b → leChars a b = true → leChars b a = false := by
      intro a b hab h
      cases hh : leChars b a with
      | false => rfl
      | true => exact absurd (leChars_antisymm a b h hh) hab
    have tot : ∀ a b : List Char, leChars a b = false → leChars b a = true := by
      intro a b h
      rcases leChars_total a b with h' | h'
      · rw [h] at h'; cases h'
      · exact h'
    by_cases e1 : k1 = k'
    · subst e1
      have e2 : ¬ k2 = k1 := hne'
      by_cases l2 : leChars k2 k1 = true
      · have l1 : leChars k1 k2 = false := anti k2 k1 e2 l2
        simp [insertTag, e2, l2, l1, hne]
      · have l2' : leChars k2 k1 = false := by simpa using l2
        simp [insertTag, e2, l2']
    · by_cases e2 : k2 = k'
      · subst e2
        by_cases l1 : leChars k1 k2 = true
        · have l2 : leChars k2 k1 = false := anti k1 k2 hne l1
          simp [insertTag, e1, l1, l2, hne']
        · have l1' : leChars k1 k2 = false := by simpa using l1
          simp [insertTag, e1, l1']
      · by_cases l1 : leChars k1 k' = true
        · by_cases l2 : leChars k2 k' = true
          · -- both go before the head
            by_cases l12 : leChars k1 k2 = true
            · have l21 : leChars k2 k1 = false := anti k1 k2 hne l12
              simp [insertTag, e1, e2, l1, l2, l12, l21, hne, hne']
            · have l12' : leChars k1 k2 = false := by simpa using l12
              have l21 : leChars k2 k1 = true := tot k1 k2 l12'
              simp [insertTag, e1, e2, l1, l2, l12', l21, hne, hne']
          · -- k1 before the head, k2 after it: k1 ≤ k' < k2
            have l2' : leChars k2 k' = false := by simpa using l2
            have l21 : leChars k2 k1 = false := by
              cases hh : leChars k2 k1 with
              | false => rfl
              | true => rw [leChars_trans k2 k1 k' hh l1] at l2'; cases l2'
            simp [insertTag, e1, e2, l1, l2', l21, hne']
        · have l1' : leChars k1 k' = false := by simpa using l1
          by_cases l2 : leChars k2 k' = true
          · have l12 : leChars k1 k2 = false := by
              cases hh : leChars k1 k2 with
              | false => rfl
              | true => rw [leChars_trans k1 k2 k' hh l2] at l1'; cases l1'
            simp [insertTag, e1, e2, l1', l2, l12, hne]
          · have l2' : leChars k2 k' = false := by simpa using l2
            simp [insertTag, e1, e2, l1', l2', ih]

end Hs.Hayson
