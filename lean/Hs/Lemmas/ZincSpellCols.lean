/-
  C04 read direction, grids part 3: the column line — `name [ meta]` separated by `,` and blanks, ended by a
  line ending — through `parse_grid_columns` / `parse_grid_column_meta`.
-/
import Hs.Lemmas.ZincSpellRows
import Hs.Lemmas.ZincRtCols
namespace Hs.Zinc
open Hs Hs.Scan Hs.Spell

/-- a spelled meta dict (grid meta, column meta): absent, or blanks and non-empty tags with ascending keys that
frame in the sense `P` -/
inductive MetaOkW (P : Tags → List UInt8 → Prop) : OTags → List UInt8 → Prop
  | none : MetaOkW P .none []
  | some (k : List Char) (v : Val) (t' : Tags) (w body : List UInt8) (hw : Blanks w) (hne : w ≠ [])
      (hs : keysSorted (Tags.cons k v t').keys = true) (h : P (.cons k v t') body) :
      MetaOkW P (.some (.cons k v t')) (w ++ body)

theorem stop_blanks {P : UInt8 → Bool} (hP : P 32 = false ∧ P 9 = false) {w : List UInt8} (hw : Blanks w) (hne : w ≠ [])
    (x : List UInt8) : Stop P (w ++ x) := by
  cases w with
  | nil => exact absurd rfl hne
  | cons b w' =>
    rcases Blanks.head hw with rfl | rfl
    · exact Stop_cons hP.1
    · exact Stop_cons hP.2

theorem blanks_one : Blanks [32] := by
  intro b hb; simp only [List.mem_singleton] at hb; exact Or.inl hb

/-- one column: blanks, its name and meta, up to and including the terminator -/
theorem col_stepW {term : UInt8} {ending after : List UInt8} (hE : EndOk term ending after)
    (hterm : term = 44 ∨ term = 10) (n : List Char) (md : OTags) (m : List UInt8) (hn : isIdent n = true)
    (hmd : MetaOkW (RdTagsW colMetaL term) md m) (depth fuel : Nat) (p : PS) (ws : List UInt8) (hws : Blanks ws)
    (hat : At p.sc (ws ++ (encChars n ++ (m ++ ending)))) (hs : p.sc.stash.length ≤ 1) (hs0 : ws = [] → p.sc.stash = [])
    (hafter : term = 44 → after ≠ [])
    (hf : 4 * ((encChars n).length + m.length) + ws.length + (ending.length - after.length) + 20 ≤ fuel)
    (hd : depth + nestO md ≤ 64) :
    ∃ p3 : PS, p3.tok = .ch term ∧ At p3.sc after ∧ p3.sc.stash = [] ∧
      ∀ (acc : List (List Char × OTags)),
        gridColumns (fuel + 1) depth p acc =
          if term = 10 then .ok (acc ++ [(n, lexImgO md)], p3)
          else gridColumns fuel depth p3 (acc ++ [(n, lexImgO md)]) := by
  have hlenn : n.length ≤ (encChars n).length := encChars_length_ge n
  cases hmd with
  | none =>
    simp only [List.nil_append, List.length_nil] at hat hf
    obtain ⟨s1, e1, h1, hs1⟩ := lexRead_idW ws hws n hn p.sc ending hat hE.stopLit hs hs0 fuel (by omega)
    obtain ⟨s2, e2, h2, hs2⟩ := hE.lex s1 h1 (by simp [hs1]) (fun _ => hs1) fuel (by omega)
    refine ⟨{ sc := s2, tok := .ch term }, rfl, h2, hs2, ?_⟩
    intro acc
    rw [gridColumns]
    simp only [PS.read, e1, e2, isChar_ch]
    rcases hterm with rfl | rfl <;> simp [lexImgO]
  | some k v t' w body hw hwne hks hrt =>
    obtain ⟨afterK, hb, hk, hstop, hrun⟩ := hrt k v t' rfl
    have hlenk : k.length ≤ (encChars k).length := encChars_length_ge k
    simp only [List.length_append] at hf
    have hlb : body.length = (encChars k).length + afterK.length := by rw [hb]; simp
    have hat' : At p.sc (ws ++ (encChars n ++ (w ++ (encChars k ++ (afterK ++ ending))))) := by
      rw [hb] at hat; simpa using hat
    obtain ⟨s1, e1, h1, hs1⟩ := lexRead_idW ws hws n hn p.sc _ hat' (stop_blanks (by decide) hw hwne _) hs hs0 fuel
      (by omega)
    obtain ⟨s2, e2, h2, hs2⟩ := lexRead_idW w hw k hk s1 (afterK ++ ending)
      h1 (hstop ending after hE) (by simp [hs1]) (fun _ => hs1) fuel (by omega)
    obtain ⟨p3, e3, ht3, h3, hs3⟩ := hrun depth fuel s2 false [] ending after hE h2 hs2 (by omega)
      (by simpa [nestO] using hd)
    have hdict : dictOf (lexImgT (.cons k v t')).toList = lexImgT (.cons k v t') :=
      dictOf_toList _ (by rw [lexImgT_keys]; exact hks)
    have heof2 : s2.eof = false := by
      cases hx : afterK ++ ending with
      | nil => exact absurd (List.append_eq_nil_iff.mp hx).2 hE.ne
      | cons b' r' => rw [hx] at h2; exact h2.eof
    have hne' : ((lexImgT (.cons k v t')).toList).isEmpty = false := by simp [lexImgT, Tags.toList]
    refine ⟨p3, ht3, h3, hs3, ?_⟩
    intro acc
    have e3' : colMeta fuel depth { sc := s2, tok := .id k } [] = .ok ((lexImgT (.cons k v t')).toList, p3) := by
      simpa [colMetaL] using e3
    rw [gridColumns]
    simp only [PS.read, e1, e2, PS.isChar, PS.isEof, heof2, Bool.false_eq_true, if_false, e3',
      hne', Bool.not_false, if_true, hdict, lexImgO]
    rcases hterm with rfl | rfl
    · have heof3 : p3.sc.eof = false := by
        cases hx : after with
        | nil => exact absurd hx (hafter rfl)
        | cons b' r' => rw [hx] at h3; exact h3.eof
      simp [ht3, heof3]
    · simp [ht3]

/-- the spelled column line -/
inductive ColsOkW : Cols → List UInt8 → Prop
  | one (n : List Char) (md : OTags) (m : List UInt8) (hn : isIdent n = true)
      (hm : MetaOkW (RdTagsW colMetaL 10) md m) : ColsOkW (.cons n md .nil) (encChars n ++ m)
  | cons (n : List Char) (md : OTags) (n2 : List Char) (md2 : OTags) (c : Cols) (m w rest : List UInt8)
      (hn : isIdent n = true) (hm : MetaOkW (RdTagsW colMetaL 44) md m) (hw : Blanks w)
      (t : ColsOkW (.cons n2 md2 c) rest) : ColsOkW (.cons n md (.cons n2 md2 c)) (encChars n ++ m ++ 44 :: (w ++ rest))

theorem ColsOkW.firstW {cols : Cols} {cl : List UInt8} (h : ColsOkW cols cl) (tl : List UInt8) : FirstW (cl ++ tl) := by
  have key : ∀ (n : List Char), isIdent n = true → ∀ x : List UInt8, FirstW (encChars n ++ x) := by
    intro n hn x
    obtain ⟨b, r, e, hb⟩ := ident_head hn
    refine ⟨b, r ++ x, by rw [e]; simp, ?_⟩
    refine ⟨?_, ?_, ?_, ?_⟩ <;> (intro e; subst e; revert hb; decide)
  cases h with
  | one n md m hn hm => simpa using key n hn (m ++ tl)
  | cons n md n2 md2 c m w rest hn hm hw t => simpa using key n hn (m ++ 44 :: (w ++ rest) ++ tl)

/-- **the column line** -/
theorem gridColumnsW {cols : Cols} {cl : List UInt8} (hok : ColsOkW cols cl) :
    ∀ (depth fuel : Nat) (p : PS) (acc : List (List Char × OTags)) (rest nl w2 ws : List UInt8), Nl nl → Blanks w2 →
    NoLF nl rest → Blanks ws →
    At p.sc (ws ++ (cl ++ (w2 ++ (nl ++ rest)))) → p.sc.stash.length ≤ 1 → (ws = [] → p.sc.stash = []) →
    4 * cl.length + ws.length + w2.length + 24 ≤ fuel → depth + nestC cols ≤ 64 →
    ∃ p', gridColumns fuel depth p acc = .ok (acc ++ (lexImgC cols).toList, p') ∧ p'.tok = .ch 10 ∧
      At p'.sc rest ∧ p'.sc.stash = [] := by
  induction hok with
  | one n md m hn hm =>
    intro depth fuel p acc rest nl w2 ws hnl hw2 hcr hws hat hs hs0 hf hd
    simp only [nestC] at hd
    simp only [List.length_append] at hf
    have hnl2 : nl.length ≤ 2 := by cases hnl <;> simp
    obtain ⟨f, rfl⟩ : ∃ f, fuel = f + 1 := ⟨fuel - 1, by omega⟩
    obtain ⟨p3, ht3, h3, hs3, e⟩ := col_stepW (EndOk.nl w2 nl rest hw2 hnl hcr) (Or.inr rfl) n md m hn hm depth f p ws hws
      (by simpa using hat) hs hs0 (fun h => absurd h (by decide)) (by simp only [List.length_append]; omega) (by omega)
    refine ⟨p3, ?_, ht3, h3, hs3⟩
    rw [e acc]
    simp [lexImgC, Cols.toList]
  | cons n md n2 md2 c m w restc hn hm hw t ih =>
    intro depth fuel p acc rest nl w2 ws hnl hw2 hcr hws hat hs hs0 hf hd
    simp only [nestC] at hd
    simp only [List.length_append, List.length_cons] at hf
    obtain ⟨f, rfl⟩ : ∃ f, fuel = f + 1 := ⟨fuel - 1, by omega⟩
    have hne : w ++ (restc ++ (w2 ++ (nl ++ rest))) ≠ [] := by
      obtain ⟨b, r, e, _⟩ := nl_head hnl rest
      rw [e]; simp
    obtain ⟨p3, ht3, h3, hs3, e⟩ := col_stepW (EndOk.comma (w ++ (restc ++ (w2 ++ (nl ++ rest))))) (Or.inl rfl) n md m hn hm
      depth f p ws hws (by simpa using hat) hs hs0 (fun _ => hne) (by simp only [List.length_cons]; omega) (by omega)
    obtain ⟨p', e', ht', h', hs'⟩ := ih depth f p3 (acc ++ [(n, lexImgO md)]) rest nl w2 w hnl hw2 hcr hw h3 (by simp [hs3])
      (fun _ => hs3) (by omega) (by simp only [nestC]; omega)
    refine ⟨p', ?_, ht', h', hs'⟩
    rw [e acc]
    simp only [show (44 : UInt8) ≠ 10 by decide, if_false, e', lexImgC_toList_cons]
    simp

end Hs.Zinc
