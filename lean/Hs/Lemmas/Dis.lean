/-
  Hs.Lemmas.Dis — helper lemmas for C20 (display names): what each alternative of the macro
  regex accepts, that a match is a prefix of the text at the `$`, and the behaviour of the scan.
-/
import Hs.Model.Dis
namespace Hs.Dis
open Hs

/-! ### greedy runs -/

theorem mem_takeWhile {p : Char → Bool} {l : List Char} {x : Char} (h : x ∈ l.takeWhile p) : p x = true := by
  have := List.all_takeWhile (p := p) (l := l)
  exact (List.all_eq_true.1 this) x h

theorem head_dropWhile_false (p : Char → Bool) (l : List Char) (x : Char)
    (h : (l.dropWhile p).head? = some x) : p x = false := by
  have := List.head?_dropWhile_not p l
  rw [h] at this
  simpa using this

theorem takeWhile_run {p : Char → Bool} {run after : List Char}
    (hrun : ∀ x ∈ run, p x = true) (hstop : ∀ x, after.head? = some x → p x = false) :
    (run ++ after).takeWhile p = run ∧ (run ++ after).dropWhile p = after := by
  have h1 : (run ++ after).takeWhile p = run ++ after.takeWhile p := List.takeWhile_append_of_pos hrun
  have h2 : (run ++ after).dropWhile p = after.dropWhile p := List.dropWhile_append_of_pos hrun
  cases after with
  | nil =>
    simp only [List.append_nil, List.takeWhile_nil, List.dropWhile_nil] at h1 h2 ⊢
    exact ⟨h1, h2⟩
  | cons a as =>
    have ha : p a = false := hstop a rfl
    simp [h1, h2, ha]

/-! ### the three alternatives, declaratively -/

/-- `rest` (the text after a `$`) starts with the tag name `name`, maximal, followed by `after` -/
def IsTag (rest name after : List Char) : Prop :=
  rest = name ++ after ∧
  (∃ c run, name = c :: run ∧ isHead1 c = true ∧ (∀ x ∈ run, isTail1 x = true) ∧ Gen.Dis.tailMin1 ≤ run.length) ∧
  (∀ x, after.head? = some x → isTail1 x = false)

/-- `rest` starts with `{name}` followed by `after` -/
def IsBrace (rest name after : List Char) : Prop :=
  rest = '{' :: (name ++ '}' :: after) ∧
  (∃ c run, name = c :: run ∧ isHead2 c = true ∧ (∀ x ∈ run, isTail2 x = true) ∧ Gen.Dis.tailMin2 ≤ run.length)

/-- `rest` starts with `<key>` followed by `after` -/
def IsKey (rest k after : List Char) : Prop :=
  rest = '<' :: (k ++ keyStop :: after) ∧ (∀ x ∈ k, x ≠ keyStop) ∧ Gen.Dis.keyMin ≤ k.length

theorem alt1_iff (rest : List Char) (t : Tok) (after : List Char) :
    alt1 rest = some (t, after) ↔ ∃ name, t = .tag name ∧ IsTag rest name after := by
  constructor
  · intro h
    cases rest with
    | nil => simp [alt1] at h
    | cons c cs =>
      simp only [alt1] at h
      split at h
      · rename_i hc
        split at h
        · rename_i hmin
          simp only [Option.some.injEq, Prod.mk.injEq] at h
          obtain ⟨ht, ha⟩ := h
          refine ⟨c :: cs.takeWhile isTail1, ht.symm, ?_, ⟨c, cs.takeWhile isTail1, rfl, hc, fun x hx => mem_takeWhile hx, hmin⟩, ?_⟩
          · rw [← ha]; simp
          · intro x hx; rw [← ha] at hx; exact head_dropWhile_false _ _ _ hx
        · simp at h
      · simp at h
  · rintro ⟨name, rfl, hsplit, ⟨c, run, rfl, hc, hrun, hmin⟩, hmax⟩
    subst hsplit
    obtain ⟨h1, h2⟩ := takeWhile_run hrun hmax
    simp only [alt1, List.cons_append, hc, if_true, h1, h2, hmin]

/-- table fact: the closer of `${…}` is outside the identifier class (greedy = exact) -/
theorem brace_not_tail : isTail2 '}' = false := by decide

theorem alt2_iff (rest : List Char) (t : Tok) (after : List Char) :
    alt2 rest = some (t, after) ↔ ∃ name, t = .brace name ∧ IsBrace rest name after := by
  constructor
  · intro h
    cases rest with
    | nil => simp [alt2] at h
    | cons b r1 =>
      simp only [alt2] at h
      split at h
      · rename_i hb
        cases r1 with
        | nil => simp at h
        | cons c cs =>
          simp only at h
          split at h
          · rename_i hc
            split at h
            · rename_i hmin
              split at h
              · simp at h
              · rename_i e aft hdrop
                split at h
                · rename_i he
                  simp only [Option.some.injEq, Prod.mk.injEq] at h
                  obtain ⟨ht, ha⟩ := h
                  refine ⟨c :: cs.takeWhile isTail2, ht.symm, ?_, ⟨c, cs.takeWhile isTail2, rfl, hc, fun x hx => mem_takeWhile hx, hmin⟩⟩
                  have := List.takeWhile_append_dropWhile (p := isTail2) (l := cs)
                  rw [hdrop, he, ha] at this
                  rw [hb]; simp [this]
                · simp at h
            · simp at h
          · simp at h
      · simp at h
  · rintro ⟨name, rfl, hsplit, ⟨c, run, rfl, hc, hrun, hmin⟩⟩
    subst hsplit
    have hstop : ∀ x, ('}' :: after).head? = some x → isTail2 x = false := by
      intro x hx; simp at hx; rw [← hx]; exact brace_not_tail
    obtain ⟨h1, h2⟩ := takeWhile_run hrun hstop
    simp only [alt2, List.cons_append, if_true, hc, h1, h2, hmin]

theorem isKeyChar_iff (x : Char) : isKeyChar x = true ↔ x ≠ keyStop := by
  simp [isKeyChar]

theorem alt3_iff (rest : List Char) (t : Tok) (after : List Char) :
    alt3 rest = some (t, after) ↔ ∃ k, t = .key k ∧ IsKey rest k after := by
  constructor
  · intro h
    cases rest with
    | nil => simp [alt3] at h
    | cons b cs =>
      simp only [alt3] at h
      split at h
      · rename_i hb
        split at h
        · rename_i hmin
          split at h
          · simp at h
          · rename_i e aft hdrop
            simp only [Option.some.injEq, Prod.mk.injEq] at h
            obtain ⟨ht, ha⟩ := h
            have he : e = keyStop := by
              have := head_dropWhile_false isKeyChar cs e (by rw [hdrop]; rfl)
              simpa [isKeyChar] using this
            refine ⟨cs.takeWhile isKeyChar, ht.symm, ?_, fun x hx => (isKeyChar_iff x).1 (mem_takeWhile hx), hmin⟩
            have := List.takeWhile_append_dropWhile (p := isKeyChar) (l := cs)
            rw [hdrop, he, ha] at this
            rw [hb]; simp [this]
        · simp at h
      · simp at h
  · rintro ⟨k, rfl, hsplit, hk, hmin⟩
    subst hsplit
    have hrun : ∀ x ∈ k, isKeyChar x = true := fun x hx => (isKeyChar_iff x).2 (hk x hx)
    have hstop : ∀ x, (keyStop :: after).head? = some x → isKeyChar x = false := by
      intro x hx; simp at hx; rw [← hx]; simp [isKeyChar]
    obtain ⟨h1, h2⟩ := takeWhile_run hrun hstop
    simp only [alt3, if_true, h1, h2, hmin]

/-! ### a match is a prefix of the text at the `$` -/

theorem alt1_text {rest : List Char} {t : Tok} {after : List Char} (h : alt1 rest = some (t, after)) :
    '$' :: rest = t.text ++ after := by
  obtain ⟨name, rfl, hs, _, _⟩ := (alt1_iff rest t after).1 h
  simp [Tok.text, hs]

theorem alt2_text {rest : List Char} {t : Tok} {after : List Char} (h : alt2 rest = some (t, after)) :
    '$' :: rest = t.text ++ after := by
  obtain ⟨name, rfl, hs, _⟩ := (alt2_iff rest t after).1 h
  simp [Tok.text, hs]

theorem alt3_text {rest : List Char} {t : Tok} {after : List Char} (h : alt3 rest = some (t, after)) :
    '$' :: rest = t.text ++ after := by
  obtain ⟨k, rfl, hs, _, _⟩ := (alt3_iff rest t after).1 h
  simp [Tok.text, hs]

theorem matchAt_cases {rest : List Char} {m : Tok × List Char} (h : matchAt rest = some m) :
    alt1 rest = some m ∨ (alt1 rest = none ∧ alt2 rest = some m) ∨
      (alt1 rest = none ∧ alt2 rest = none ∧ alt3 rest = some m) := by
  unfold matchAt at h
  cases h1 : alt1 rest with
  | some m1 => rw [h1] at h; simp at h; left; rw [h]
  | none =>
    rw [h1] at h
    cases h2 : alt2 rest with
    | some m2 => rw [h2] at h; simp at h; right; left; exact ⟨rfl, by rw [h]⟩
    | none => rw [h2] at h; simp at h; right; right; exact ⟨rfl, rfl, h⟩

theorem matchAt_text {rest : List Char} {t : Tok} {after : List Char} (h : matchAt rest = some (t, after)) :
    '$' :: rest = t.text ++ after := by
  rcases matchAt_cases h with h | ⟨_, h⟩ | ⟨_, _, h⟩
  · exact alt1_text h
  · exact alt2_text h
  · exact alt3_text h

theorem matchAt_shorter {rest : List Char} {t : Tok} {after : List Char} (h : matchAt rest = some (t, after)) :
    after.length < rest.length := by
  have ht := congrArg List.length (matchAt_text h)
  simp only [List.length_cons, List.length_append] at ht
  have : 2 ≤ t.text.length := by
    rcases matchAt_cases h with h | ⟨_, h⟩ | ⟨_, _, h⟩
    · obtain ⟨name, rfl, _, ⟨c, run, rfl, _⟩, _⟩ := (alt1_iff rest t after).1 h
      simp [Tok.text]
    · obtain ⟨name, rfl, _⟩ := (alt2_iff rest t after).1 h
      simp [Tok.text]
    · obtain ⟨k, rfl, _⟩ := (alt3_iff rest t after).1 h
      simp [Tok.text]
  omega

/-! ### the scan -/

def srcOf : List Seg → List Char
  | [] => []
  | s :: ss => s.src ++ srcOf ss

/-- the segmentation `Regex::replace_all` performs, as a relation without fuel: a character that
is not a `$`, or a `$` at which no alternative matches, is a literal; a `$` at which the
leftmost-first alternation matches starts that match, and the scan resumes behind it -/
inductive Segm : List Char → List Seg → Prop where
  | nil : Segm [] []
  | lit (c : Char) (cs : List Char) (segs : List Seg) :
      (c ≠ '$' ∨ matchAt cs = none) → Segm cs segs → Segm (c :: cs) (.lit c :: segs)
  | mac (cs : List Char) (t : Tok) (after : List Char) (segs : List Seg) :
      matchAt cs = some (t, after) → Segm after segs → Segm ('$' :: cs) (.mac t :: segs)

theorem lex_total : ∀ (fuel : Nat) (s : List Char), s.length < fuel → ∃ segs, lex fuel s = .ok segs ∧ Segm s segs := by
  intro fuel
  induction fuel with
  | zero => intro s h; omega
  | succ fuel ih =>
    intro s h
    cases s with
    | nil => exact ⟨[], by rw [lex], .nil⟩
    | cons c cs =>
      rw [lex]
      simp only [List.length_cons] at h
      by_cases hc : c = '$'
      · rw [if_pos hc]
        cases hm : matchAt cs with
        | none =>
          obtain ⟨segs, hs, hsg⟩ := ih cs (by omega)
          exact ⟨.lit c :: segs, by simp [hs, pushSeg], .lit c cs segs (.inr hm) hsg⟩
        | some m =>
          obtain ⟨t, after⟩ := m
          have := matchAt_shorter hm
          obtain ⟨segs, hs, hsg⟩ := ih after (by omega)
          refine ⟨.mac t :: segs, by simp [hs, pushSeg], ?_⟩
          rw [hc]; exact .mac cs t after segs hm hsg
      · rw [if_neg hc]
        obtain ⟨segs, hs, hsg⟩ := ih cs (by omega)
        exact ⟨.lit c :: segs, by simp [hs, pushSeg], .lit c cs segs (.inl hc) hsg⟩

theorem segm_src : ∀ {s : List Char} {segs : List Seg}, Segm s segs → srcOf segs = s := by
  intro s segs h
  induction h with
  | nil => rfl
  | lit c cs segs _ _ ih => simp [srcOf, Seg.src, ih]
  | mac cs t after segs hm _ ih => simp only [srcOf, Seg.src, ih]; exact (matchAt_text hm).symm

theorem segm_unique : ∀ {s : List Char} {a b : List Seg}, Segm s a → Segm s b → a = b := by
  intro s a b ha
  induction ha generalizing b with
  | nil => intro hb; cases hb; rfl
  | lit c cs segs hno _ ih =>
    intro hb
    cases hb with
    | lit _ _ segs' _ h' => rw [ih h']
    | mac _ t after segs' hm h' =>
      rcases hno with h | h
      · exact absurd rfl h
      · rw [h] at hm; cases hm
  | mac cs t after segs hm _ ih =>
    intro hb
    cases hb with
    | lit _ _ segs' hno h' =>
      rcases hno with h | h
      · exact absurd rfl h
      · rw [h] at hm; cases hm
    | mac _ t' after' segs' hm' h' =>
      rw [hm] at hm'
      cases hm'
      rw [ih h']

theorem segm_no_dollar : ∀ (s : List Char), '$' ∉ s → Segm s (s.map Seg.lit) := by
  intro s
  induction s with
  | nil => intro _; exact .nil
  | cons c cs ih =>
    intro h
    simp only [List.mem_cons, not_or] at h
    exact .lit c cs _ (.inl (fun e => h.1 e.symm)) (ih h.2)

theorem render_lits (r : Rec) (loc : Loc) (s : List Char) : render r loc (s.map Seg.lit) = s := by
  induction s with
  | nil => rfl
  | cons c cs ih => simp [render, Seg.out, ih]

/-- `disMacro` is the rendering of the (unique) segmentation -/
theorem disMacro_eq (r : Rec) (loc : Loc) (s : List Char) :
    ∃ segs, Segm s segs ∧ disMacro r loc s = .ok (render r loc segs) := by
  obtain ⟨segs, h, hs⟩ := lex_total (fuelFor s) s (by simp [fuelFor])
  exact ⟨segs, hs, by simp [disMacro, h]⟩

/-! ### the precedence chain -/

theorem firstPresent_none (r : Rec) (chain : List (String × Nat))
    (h : ∀ e ∈ chain, r.get e.1.toList = none) : firstPresent r chain = none := by
  induction chain with
  | nil => rfl
  | cons e rest ih =>
    obtain ⟨t, sh⟩ := e
    have h0 := h (t, sh) (by simp)
    simp only at h0
    simp only [firstPresent, h0]
    exact ih (fun e he => h e (by simp [he]))

theorem firstPresent_split (r : Rec) (pre post : List (String × Nat)) (t : String) (sh : Nat) (v : DVal)
    (hpre : ∀ e ∈ pre, r.get e.1.toList = none) (hv : r.get t.toList = some v) :
    firstPresent r (pre ++ (t, sh) :: post) = some (t, sh, v) := by
  induction pre with
  | nil => simp [firstPresent, hv]
  | cons e rest ih =>
    obtain ⟨t0, sh0⟩ := e
    have h0 := hpre (t0, sh0) (by simp)
    simp only at h0
    simp only [List.cons_append, firstPresent, h0]
    exact ih (fun e he => hpre e (by simp [he]))

end Hs.Dis
