/-
  Hs.Lemmas.HaysonReadRef2 — the reference reader on ONE Hayson object whose members stand in any order:
  the scalar kinds, dict objects, grid meta, column objects, the grid object.
-/
import Hs.Lemmas.HaysonReadRef1
set_option linter.unusedSimpArgs false
namespace Hs.Spec.Hayson
open Hs Hs.Hayson

theorem Members.toList_ofList : ∀ l : Mems, (Members.ofList l).toList = l
  | [] => rfl
  | (k, j) :: l => by simp [Members.ofList, Members.toList, Members.toList_ofList l]

/-- for every kind but `dict` the reader's answer depends on the members only through `lookup`: an object
whose members are a reordering of `L` is read like `L` -/
theorem read_obj_of_perm {ms : Members} {L : Mems} (hp : ms.toList.Perm L) (nd : (L.map (·.1)).Nodup)
    {kind : List Char} (hk : lookup L "_kind" = some (.str kind)) (hnd : (kind == s "dict") = false)
    (f : Nat) : read (f + 1) (.obj ms) = read (f + 1) (.obj (Members.ofList L)) := by
  rw [Hs.Spec.Hayson.read, Hs.Spec.Hayson.read]
  simp only [Members.toList_ofList, lookup_of_perm hp nd, hk, hnd]
  simp

theorem succ_of_two_le {f : Nat} (h : 2 ≤ f) : ∃ f', f = f' + 1 := ⟨f - 1, by omega⟩

theorem two_le_size_obj (ms : Members) : 2 ≤ 2 * size (.obj ms) := by
  have := size_pos (.obj ms); omega

/-! ### scalar kinds -/

theorem rdr_numTok {f : Flt} {j : Json} (h : NumTok f j) (n : Nat) (hn : 2 * size j ≤ n) :
    read n j = some (.num { v := f, unit := none }) := by
  have := size_pos j
  obtain ⟨n', rfl⟩ := succ_of_two_le (show 2 ≤ n by omega)
  cases h <;> simp [Hs.Spec.Hayson.read]

theorem rdr_number {f : Flt} {jv : Json} {u : Option (List Char)} {um : Mems} {ms : Members}
    (hv : NumVal f jv) (hu : OptUnit u um) (hp : ms.toList.Perm (kindMem "number" :: (s "val", jv) :: um))
    (n : Nat) (hn : 2 ≤ n) : read n (.obj ms) = some (.num { v := f, unit := u }) := by
  obtain ⟨n', rfl⟩ := succ_of_two_le hn
  cases hu with
  | absent =>
    rw [read_obj_of_perm hp (by simp [kindMem, s]) (kind := s "number") (by simp [lookup, kindMem, s]) (by decide)]
    cases hv with
    | tok h =>
      cases h <;>
      simp [Hs.Spec.Hayson.read, Members.ofList, Members.toList, lookup, kindMem, s, numOf]
    | inf => simp [Hs.Spec.Hayson.read, Members.ofList, Members.toList, lookup, kindMem, s, numOf]
    | negInf => simp [Hs.Spec.Hayson.read, Members.ofList, Members.toList, lookup, kindMem, s, numOf]
    | nan => simp [Hs.Spec.Hayson.read, Members.ofList, Members.toList, lookup, kindMem, s, numOf]
  | present id sym hsym =>
    rw [read_obj_of_perm hp (by simp [kindMem, s]) (kind := s "number") (by simp [lookup, kindMem, s]) (by decide)]
    cases hv with
    | tok h =>
      cases h <;>
      simp [Hs.Spec.Hayson.read, Members.ofList, Members.toList, lookup, kindMem, s, numOf, hsym]
    | inf => simp [Hs.Spec.Hayson.read, Members.ofList, Members.toList, lookup, kindMem, s, numOf, hsym]
    | negInf => simp [Hs.Spec.Hayson.read, Members.ofList, Members.toList, lookup, kindMem, s, numOf, hsym]
    | nan => simp [Hs.Spec.Hayson.read, Members.ofList, Members.toList, lookup, kindMem, s, numOf, hsym]

theorem rdr_ref {id : List Char} {dis : Option (List Char)} {dm : Mems} {ms : Members}
    (hd : OptStr "dis" dis dm) (hp : ms.toList.Perm (kindMem "ref" :: (s "val", .str id) :: dm))
    (n : Nat) (hn : 2 ≤ n) : read n (.obj ms) = some (.ref id dis) := by
  obtain ⟨n', rfl⟩ := succ_of_two_le hn
  cases hd with
  | absent =>
    rw [read_obj_of_perm hp (by simp [kindMem, s]) (kind := s "ref") (by simp [lookup, kindMem, s]) (by decide)]
    simp [Hs.Spec.Hayson.read, Members.ofList, Members.toList, lookup, kindMem, s, strOf]
  | present x =>
    rw [read_obj_of_perm hp (by simp [kindMem, s]) (kind := s "ref") (by simp [lookup, kindMem, s]) (by decide)]
    simp [Hs.Spec.Hayson.read, Members.ofList, Members.toList, lookup, kindMem, s, strOf]

theorem rdr_symbol {x : List Char} {ms : Members} (hp : ms.toList.Perm [kindMem "symbol", (s "val", .str x)])
    (n : Nat) (hn : 2 ≤ n) : read n (.obj ms) = some (.sym x) := by
  obtain ⟨n', rfl⟩ := succ_of_two_le hn
  rw [read_obj_of_perm hp (by simp [kindMem, s]) (kind := s "symbol") (by simp [lookup, kindMem, s]) (by decide)]
  simp [Hs.Spec.Hayson.read, Members.ofList, Members.toList, lookup, kindMem, s, strOf]

theorem rdr_uri {x : List Char} {ms : Members} (hp : ms.toList.Perm [kindMem "uri", (s "val", .str x)])
    (n : Nat) (hn : 2 ≤ n) : read n (.obj ms) = some (.uri x) := by
  obtain ⟨n', rfl⟩ := succ_of_two_le hn
  rw [read_obj_of_perm hp (by simp [kindMem, s]) (kind := s "uri") (by simp [lookup, kindMem, s]) (by decide)]
  simp [Hs.Spec.Hayson.read, Members.ofList, Members.toList, lookup, kindMem, s, strOf]

theorem rdr_date {x : List Char} {ms : Members} (hp : ms.toList.Perm [kindMem "date", (s "val", .str x)])
    (n : Nat) (hn : 2 ≤ n) : read n (.obj ms) = some (lexDate x) := by
  obtain ⟨n', rfl⟩ := succ_of_two_le hn
  rw [read_obj_of_perm hp (by simp [kindMem, s]) (kind := s "date") (by simp [lookup, kindMem, s]) (by decide)]
  simp [Hs.Spec.Hayson.read, Members.ofList, Members.toList, lookup, kindMem, s, strOf]

theorem rdr_time {x : List Char} {ms : Members} (hp : ms.toList.Perm [kindMem "time", (s "val", .str x)])
    (n : Nat) (hn : 2 ≤ n) : read n (.obj ms) = some (lexTime x) := by
  obtain ⟨n', rfl⟩ := succ_of_two_le hn
  rw [read_obj_of_perm hp (by simp [kindMem, s]) (kind := s "time") (by simp [lookup, kindMem, s]) (by decide)]
  simp [Hs.Spec.Hayson.read, Members.ofList, Members.toList, lookup, kindMem, s, strOf]

theorem rdr_dateTime {x : List Char} {tz : Option (List Char)} {zm : Mems} {ms : Members}
    (hz : OptStr "tz" tz zm) (hp : ms.toList.Perm (kindMem "dateTime" :: (s "val", .str x) :: zm))
    (n : Nat) (hn : 2 ≤ n) : read n (.obj ms) = some (lexDateTime x tz) := by
  obtain ⟨n', rfl⟩ := succ_of_two_le hn
  cases hz with
  | absent =>
    rw [read_obj_of_perm hp (by simp [kindMem, s]) (kind := s "dateTime") (by simp [lookup, kindMem, s]) (by decide)]
    simp [Hs.Spec.Hayson.read, Members.ofList, Members.toList, lookup, kindMem, s, strOf]
  | present z =>
    rw [read_obj_of_perm hp (by simp [kindMem, s]) (kind := s "dateTime") (by simp [lookup, kindMem, s]) (by decide)]
    simp [Hs.Spec.Hayson.read, Members.ofList, Members.toList, lookup, kindMem, s, strOf]

theorem rdr_coord {a b : Flt} {ja jb : Json} {ms : Members} (ha : NumTok a ja) (hb : NumTok b jb)
    (hp : ms.toList.Perm [kindMem "coord", (s "lat", ja), (s "lng", jb)])
    (n : Nat) (hn : 2 ≤ n) : read n (.obj ms) = some (.coord a b) := by
  obtain ⟨n', rfl⟩ := succ_of_two_le hn
  rw [read_obj_of_perm hp (by simp [kindMem, s]) (kind := s "coord") (by simp [lookup, kindMem, s]) (by decide)]
  cases ha <;> cases hb <;>
  simp [Hs.Spec.Hayson.read, Members.ofList, Members.toList, lookup, kindMem, s, numOf]

theorem rdr_xstr {ty x : List Char} {ms : Members}
    (hp : ms.toList.Perm [kindMem "xstr", (s "type", .str ty), (s "val", .str x)])
    (n : Nat) (hn : 2 ≤ n) : read n (.obj ms) = some (.xstr ty x) := by
  obtain ⟨n', rfl⟩ := succ_of_two_le hn
  rw [read_obj_of_perm hp (by simp [kindMem, s]) (kind := s "xstr") (by simp [lookup, kindMem, s]) (by decide)]
  simp [Hs.Spec.Hayson.read, Members.ofList, Members.toList, lookup, kindMem, s, strOf]

/-! ### dict objects -/

/-- what the induction knows about a dict object of the tags `t'`: its members are a reordering of an
optional `"_kind":"dict"` and readable members `tm`, one per tag of `t'` -/
def DictRead (t' : Tags) (ms : Members) : Prop :=
  ∃ tm km : Mems, OptKindDict km ∧ ms.toList.Perm (km ++ tm) ∧ tm.map rd = t'.toList ∧
    (∀ p ∈ tm, Readable p) ∧ TagKeys t'

theorem keys_of_vals {tm : Mems} {t' : Tags} (hv : tm.map rd = t'.toList) : tm.map (·.1) = t'.keys := by
  rw [← map_rd_keys, hv, Tags.keys_eq]

theorem noKind_of_vals {tm : Mems} {t' : Tags} (hv : tm.map rd = t'.toList) (hk : TagKeys t') :
    ∀ p ∈ tm, p.1 ≠ s "_kind" := by
  intro p hp
  exact hk.2 p.1 (by rw [← keys_of_vals hv]; exact List.mem_map_of_mem hp)

theorem filter_noKind {tm : Mems} (h : ∀ p ∈ tm, p.1 ≠ s "_kind") :
    tm.filter (fun p => p.1 != s "_kind") = tm := by
  rw [List.filter_eq_self]
  intro p hp
  simpa using h p hp

/-- the members the reader folds over once `_kind` is set aside -/
theorem DictRead.tagsRead {t' : Tags} {ms : Members} (h : DictRead t' ms) :
    TagsRead t' (ms.toList.filter (fun p => p.1 != s "_kind")) := by
  obtain ⟨tm, km, hkm, hp, hv, hr, hk⟩ := h
  refine ⟨tm, ?_, hv, hr⟩
  have h1 := hp.filter (fun p => p.1 != s "_kind")
  have h2 := filter_noKind (noKind_of_vals hv hk)
  cases hkm with
  | absent => simpa [h2] using h1
  | present =>
    have : ([kindMem "dict"] ++ tm).filter (fun p => p.1 != s "_kind") = tm := by
      simp [kindMem, h2]
    rwa [this] at h1

theorem rdr_dictObj {t' : Tags} {ms : Members} (h : DictRead t' ms) (n : Nat) (hn : 2 * size (.obj ms) ≤ n) :
    read n (.obj ms) = some (.dict t') := by
  have htr := h.tagsRead
  obtain ⟨tm, km, hkm, hp, hv, hr, hk⟩ := h
  obtain ⟨n', rfl⟩ := succ_of_two_le (show 2 ≤ n by have := size_pos (.obj ms); omega)
  have hsz : 2 * sizeL ms.toList + 1 ≤ n' := by
    simp only [size, sizem_eq] at hn; omega
  have hnk := noKind_of_vals hv hk
  have hnd : (tm.map (·.1)).Nodup := by
    rw [keys_of_vals hv]; exact (strictSorted_pairwise _ hk.1).imp (fun h => ltChars_ne h)
  cases hkm with
  | absent =>
    have hlk : lookup ms.toList "_kind" = none :=
      lookup_none_of_not_mem _ _ (fun p hp' => hnk p ((by simpa using hp : ms.toList.Perm tm).mem_iff.mp hp'))
    have htr' : TagsRead t' ms.toList := ⟨tm, by simpa using hp, hv, hr⟩
    obtain ⟨kvs, h1, h2, _⟩ := htr'.readTags hk.1 n' hsz
    rw [Hs.Spec.Hayson.read]
    simp only [hlk, h1, Option.map_some, h2]
  | present =>
    have hlk : lookup ms.toList "_kind" = some (.str (s "dict")) := by
      rw [lookup_of_perm hp (by
        simp only [List.cons_append, List.nil_append, List.map_cons, List.nodup_cons]
        refine ⟨?_, hnd⟩
        intro hm
        obtain ⟨p, hp', e⟩ := List.mem_map.mp hm
        exact hnk p hp' e)]
      have : lookup tm "_kind" = none := lookup_none_of_not_mem _ _ hnk
      unfold lookup at this ⊢
      simp only [List.cons_append, List.nil_append, List.reverse_cons, List.find?_append]
      cases hf : tm.reverse.find? (fun p => p.1 == s "_kind") with
      | some q => rw [hf] at this; simp at this
      | none => simp [kindMem]
    obtain ⟨kvs, h1, h2, _⟩ := htr.readTags hk.1 n'
      (by have := sizeL_filter (fun p => p.1 != s "_kind") ms.toList; omega)
    rw [Hs.Spec.Hayson.read]
    simp only [hlk, h1, Option.map_some, h2]
    simp

/-! ### a grid meta -/

theorem rdr_meta {t' : Tags} {ver : List Char} {tm km vm : Mems} {mm : Members}
    (hv : tm.map rd = t'.toList) (hr : ∀ p ∈ tm, Readable p) (hk : TagKeys t')
    (hnv : ∀ k ∈ t'.keys, k ≠ s "ver") (hkm : OptKindDict km) (hvm : OptVer ver vm)
    (hp : mm.toList.Perm (km ++ vm ++ tm)) :
    (strOf (lookup mm.toList "ver")).getD (s "3.0") = ver ∧
      TagsRead t' (mm.toList.filter (fun p => p.1 != s "ver" && p.1 != s "_kind")) := by
  have hnv' : ∀ p ∈ tm, p.1 ≠ s "ver" := by
    intro p hp'
    exact hnv p.1 (by rw [← keys_of_vals hv]; exact List.mem_map_of_mem hp')
  have hnk := noKind_of_vals hv hk
  have hfl : tm.filter (fun p => p.1 != s "ver" && p.1 != s "_kind") = tm := by
    rw [List.filter_eq_self]
    intro p hp'
    have h1 := hnv' p hp'
    have h2 := hnk p hp'
    simp [h1, h2]
  have hnd : (tm.map (·.1)).Nodup := by
    rw [keys_of_vals hv]; exact (strictSorted_pairwise _ hk.1).imp (fun h => ltChars_ne h)
  have h1 := hp.filter (fun p => p.1 != s "ver" && p.1 != s "_kind")
  have hkmf : km.filter (fun p => p.1 != s "ver" && p.1 != s "_kind") = [] := by
    cases hkm <;> simp [kindMem]
  have hvmf : vm.filter (fun p => p.1 != s "ver" && p.1 != s "_kind") = [] := by
    cases hvm <;> simp
  rw [List.filter_append, List.filter_append, hkmf, hvmf, hfl] at h1
  refine ⟨?_, tm, by simpa using h1, hv, hr⟩
  -- the version: `ver` is looked up by name among `km ++ vm ++ tm`
  have hkmk : ∀ p ∈ km, p.1 = s "_kind" := by
    cases hkm <;> simp [kindMem]
  have hndL : ((km ++ vm ++ tm).map (·.1)).Nodup := by
    cases hkm <;> cases hvm <;>
      simp only [List.nil_append, List.cons_append, List.map_cons, List.nodup_cons, List.mem_cons, not_or, kindMem]
    · exact hnd
    · refine ⟨?_, hnd⟩
      intro hm
      obtain ⟨p, hp', e⟩ := List.mem_map.mp hm
      exact hnv' p hp' e
    · refine ⟨?_, hnd⟩
      intro hm
      obtain ⟨p, hp', e⟩ := List.mem_map.mp hm
      exact hnk p hp' e
    · refine ⟨⟨by simp [s], ?_⟩, ?_, hnd⟩
      · intro hm
        obtain ⟨p, hp', e⟩ := List.mem_map.mp hm
        exact hnk p hp' e
      · intro hm
        obtain ⟨p, hp', e⟩ := List.mem_map.mp hm
        exact hnv' p hp' e
  rw [lookup_of_perm hp hndL]
  have htm : lookup tm "ver" = none := lookup_none_of_not_mem _ _ hnv'
  unfold lookup at htm ⊢
  cases hf : tm.reverse.find? (fun p => p.1 == s "ver") with
  | some q => rw [hf] at htm; simp at htm
  | none =>
    have e1 : (s "_kind" == s "ver") = false := by decide
    cases hkm <;> cases hvm <;>
      simp [List.find?_append, hf, kindMem, strOf, e1]

end Hs.Spec.Hayson
