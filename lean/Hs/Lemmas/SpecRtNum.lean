/-
  C04 (write direction), rung 3: decimal texts, numbers with and without unit, coordinates through the
  reference reader.  The grammar's decimal is `["-"] digits ["." digits] [exp]`: a digit is required on
  both sides of the point (`strictDec`) — what Rust's `Display for f64` prints.
-/
import Hs.Lemmas.SpecRtIds
namespace Hs.Spec
open Hs Hs.Zinc Hs.Scan

/-! ### `decimal` in stages -/

def decSign (i : In) : In × In := match i with
  | 45 :: r => ([45], r)
  | r => (([] : In), r)
def decFrac (r1 : In) : In × In := match r1 with
  | 46 :: c :: r => if isDigit c then let (f, t) := digitsU (c :: r); ([46] ++ f, t) else (([] : In), r1)
  | _ => (([] : In), r1)
def decExp (r2 : In) : In × In := match r2 with
  | e :: rest =>
    if e == 101 || e == 69 then
      let (sg, r) := match rest with
        | 43 :: r => ([43], r)
        | 45 :: r => ([45], r)
        | r => (([] : In), r)
      match r with
      | c :: _ => if isDigit c then let (d, t) := digitsU r; ([101] ++ sg ++ d, t) else (([] : In), r2)
      | [] => (([] : In), r2)
    else (([] : In), r2)
  | [] => (([] : In), r2)

theorem decimal_eq (allowExp : Bool) (i : In) : decimal allowExp i =
    (match (decSign i).2 with
     | b :: _ =>
       if !isDigit b then none else
       some ((decSign i).1 ++ (digitsU (decSign i).2).1 ++ (decFrac (digitsU (decSign i).2).2).1 ++
          (if !allowExp then (([] : In), (decFrac (digitsU (decSign i).2).2).2)
            else decExp (decFrac (digitsU (decSign i).2).2).2).1,
          (if !allowExp then (([] : In), (decFrac (digitsU (decSign i).2).2).2)
            else decExp (decFrac (digitsU (decSign i).2).2).2).2)
     | [] => none) := by
  rfl

/-- the class of `digitsU`'s loop -/
def isDigU (b : UInt8) : Bool := isDigit b || b == 95

theorem digitsU_rt (ds rest : List UInt8) (hds : ∀ b ∈ ds, isDigitB b = true) (hst : Stop isDigU rest) :
    digitsU (ds ++ rest) = (ds, rest) := by
  unfold digitsU
  have : span (fun b => isDigit b || b == 95) (ds ++ rest) = (ds, rest) :=
    span_all _ ds rest (fun b hb => by simp [isDigit_eq, hds b hb]) hst
  rw [this]
  simp only [Prod.mk.injEq, and_true]
  rw [List.filter_eq_self]
  intro b hb; exact hds b hb

/-- what may follow a decimal text read with exponents allowed: not an exponent -/
def NoExp (rest : List UInt8) : Prop :=
  ∀ e r, rest = e :: r → (e = 101 ∨ e = 69) → ∀ c r', r = c :: r' → isDigitB c = false ∧ c ≠ 43 ∧ c ≠ 45

theorem decExp_none {rest : List UInt8} (h : NoExp rest) : decExp rest = ([], rest) := by
  cases rest with
  | nil => rfl
  | cons e r =>
    by_cases he : e = 101 ∨ e = 69
    · cases r with
      | nil => rcases he with rfl | rfl <;> simp [decExp]
      | cons c r' =>
        obtain ⟨h1, h2, h3⟩ := h e (c :: r') rfl he c r' rfl
        have h1' : isDigit c = false := h1
        rcases he with rfl | rfl <;> simp [decExp, h1', h2, h3]
    · have : (e == 101 || e == 69) = false := by
        simp only [not_or] at he
        simp [he.1, he.2]
      simp [decExp, this]

/-- what follows a decimal text: nothing, or a byte that is neither a digit nor `_` nor `.` -/
def isDecCont (b : UInt8) : Bool := isDigit b || b == 95 || b == 46

theorem stop_digU {rest : List UInt8} (h : Stop isDecCont rest) : Stop isDigU rest := by
  intro b r e
  have := h b r e
  simp only [isDecCont, Bool.or_eq_false_iff] at this
  simp [isDigU, this.1.1, this.1.2]

theorem decFrac_none {rest : List UInt8} (h : Stop isDecCont rest) : decFrac rest = ([], rest) := by
  cases rest with
  | nil => rfl
  | cons b r =>
    have := h b r rfl
    simp only [isDecCont, Bool.or_eq_false_iff, beq_eq_false_iff_ne, ne_eq] at this
    unfold decFrac
    split
    · rename_i heq; cases heq; exact absurd rfl this.2
    · rfl

theorem decFrac_some (c : UInt8) (fr rest : List UInt8) (hfr : ∀ b ∈ c :: fr, isDigitB b = true)
    (h : Stop isDecCont rest) : decFrac (46 :: c :: (fr ++ rest)) = (46 :: c :: fr, rest) := by
  have hd := digitsU_rt (c :: fr) rest hfr (stop_digU h)
  simp only [List.cons_append] at hd
  have hc : isDigit c = true := hfr c (by simp)
  simp [decFrac, hc, hd]

/-! ### the decimal texts of the grammar -/

def strictBody (body : List UInt8) : Bool :=
  !(body.takeWhile isDigitB).isEmpty &&
    (match body.dropWhile isDigitB with
     | [] => true
     | 46 :: fr => !fr.isEmpty && fr.all isDigitB
     | _ => false)

/-- `-?d+(.d+)?` -/
def strictDec (tb : List UInt8) : Bool :=
  match tb with
  | 45 :: r => strictBody r
  | r => strictBody r

/-- integer part and optional fraction of a strict decimal -/
structure DecParts (body : List UInt8) : Prop where
  ex : ∃ (b : UInt8) (ip fp : List UInt8), body = b :: ip ++ fp ∧ (∀ x ∈ b :: ip, isDigitB x = true) ∧
    (fp = [] ∨ ∃ c fr, fp = 46 :: c :: fr ∧ ∀ x ∈ c :: fr, isDigitB x = true)

theorem strictBody_parts {body : List UInt8} (h : strictBody body = true) : DecParts body := by
  simp only [strictBody, Bool.and_eq_true, Bool.not_eq_eq_eq_not, Bool.not_true, List.isEmpty_eq_false_iff] at h
  obtain ⟨h1, h2⟩ := h
  have hsplit : body = body.takeWhile isDigitB ++ body.dropWhile isDigitB := (List.takeWhile_append_dropWhile).symm
  have hall : ∀ x ∈ body.takeWhile isDigitB, isDigitB x = true := by
    have := List.all_takeWhile (p := isDigitB) (l := body)
    rw [List.all_eq_true] at this
    exact this
  cases hip : body.takeWhile isDigitB with
  | nil => exact absurd hip h1
  | cons b ip =>
    rw [hip] at hall hsplit
    refine ⟨b, ip, body.dropWhile isDigitB, hsplit, hall, ?_⟩
    split at h2
    · rename_i heq; exact Or.inl heq
    · rename_i fr heq
      simp only [Bool.and_eq_true, Bool.not_eq_eq_eq_not, Bool.not_true, List.isEmpty_eq_false_iff,
        List.all_eq_true] at h2
      cases fr with
      | nil => exact absurd rfl h2.1
      | cons c fr' => exact Or.inr ⟨c, fr', heq, h2.2⟩
    · simp at h2

theorem digit_ne_45 {b : UInt8} (h : isDigitB b = true) : b ≠ 45 := by
  intro e; subst e; revert h; decide

theorem decimal_body (allowExp : Bool) (body : List UInt8) (hp : DecParts body) (rest : List UInt8)
    (hst : Stop isDecCont rest) (hexp : allowExp = true → NoExp rest) :
    decimal allowExp (body ++ rest) = some (body, rest) ∧ decimal allowExp (45 :: body ++ rest) = some (45 :: body, rest) := by
  obtain ⟨b, ip, fp, rfl, hip, hfp⟩ := hp
  have hb : isDigit b = true := hip b (by simp)
  have hb45 : b ≠ 45 := digit_ne_45 hb
  have hs1 : decSign (b :: ip ++ fp ++ rest) = ([], b :: ip ++ fp ++ rest) := by
    simp only [List.cons_append]
    unfold decSign
    split
    · rename_i heq; cases heq; exact absurd rfl hb45
    · rfl
  have hs2 : decSign (45 :: (b :: ip ++ fp) ++ rest) = ([45], b :: ip ++ fp ++ rest) := by
    simp [decSign]
  have hex : (if !allowExp then (([] : In), rest) else decExp rest) = ([], rest) := by
    cases allowExp with
    | false => rfl
    | true => simp [decExp_none (hexp rfl)]
  rcases hfp with rfl | ⟨c, fr, rfl, hfr⟩
  · have hd : digitsU (b :: ip ++ [] ++ rest) = (b :: ip, rest) := by
      simpa using digitsU_rt (b :: ip) rest hip (stop_digU hst)
    have hf := decFrac_none hst
    constructor
    · rw [decimal_eq, hs1]
      simp only [hd, hf, hex]
      simp [hb]
    · rw [decimal_eq, hs2]
      simp only [hd, hf, hex]
      simp [hb]
  · have hd : digitsU (b :: ip ++ 46 :: c :: fr ++ rest) = (b :: ip, 46 :: c :: (fr ++ rest)) := by
      have := digitsU_rt (b :: ip) (46 :: c :: (fr ++ rest)) hip (Stop_cons (by decide))
      simpa using this
    have hf := decFrac_some c fr rest hfr hst
    constructor
    · rw [decimal_eq, hs1]
      simp only [hd, hf, hex]
      simp [hb]
    · rw [decimal_eq, hs2]
      simp only [hd, hf, hex]
      simp [hb]

/-- **decimal**: a strict decimal text followed by anything that does not continue it -/
theorem decimal_rt (allowExp : Bool) (tb : List UInt8) (h : strictDec tb = true) (rest : List UInt8)
    (hst : Stop isDecCont rest) (hexp : allowExp = true → NoExp rest) :
    decimal allowExp (tb ++ rest) = some (tb, rest) := by
  unfold strictDec at h
  split at h
  · exact (decimal_body allowExp _ (strictBody_parts h) rest hst hexp).2
  · exact (decimal_body allowExp _ (strictBody_parts h) rest hst hexp).1

end Hs.Spec
