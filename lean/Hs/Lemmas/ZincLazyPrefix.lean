/-
  C11 (lazy rows), part 8: rows of a still-arriving grid.  The calls of `rowNext` that hand out the rows in front of
  some row line depend only on the text up to the byte after that line's first token: whatever follows (nothing
  yet, more rows, garbage) does not matter.
-/
import Hs.Lemmas.ZincLazyMain
namespace Hs.Zinc
open Hs Hs.Scan

/-! ### the first token, with an arbitrary continuation -/

theorem firstTok_gen_scalar {v : Val} (h : TokRt v) (s : Scan) (X : List UInt8) (f : Nat)
    (hat : At s (enc v true ++ X)) (hs : s.stash = []) (hd : Delim X) (hf : (enc v true).length + 3 ≤ f) :
    ∃ p, lexRead f s = .ok p ∧ At p.sc X ∧ (X.head? ≠ some 32 → p.sc.stash = []) ∧ PS.isChar p 62 = false := by
  obtain ⟨s', e, hp⟩ := h.2 s X f hat hs hd hf
  exact ⟨_, e, hp.1, hp.2.2, rfl⟩

theorem firstTok_gen_open {s : Scan} {c : UInt8} {X : List UInt8} (hat : At s (c :: X))
    (hs : s.stash = []) (hc : isSpecial c = true) (h13 : c ≠ 13) (h62 : c ≠ 62) (f : Nat) (hf : 1 ≤ f) :
    ∃ p, lexRead f s = .ok p ∧ At p.sc X ∧ p.sc.stash = [] ∧ PS.isChar p 62 = false := by
  obtain ⟨g, rfl⟩ : ∃ g, f = g + 1 := ⟨f - 1, by omega⟩
  refine ⟨_, lexRead_special hat hc h13 g, hat.advance, ?_, ?_⟩
  · show s.advance.stash = []
    rw [At.advance_stash, hs]; rfl
  · rw [isChar_ch]; simpa using h62

/-- one `lexRead` at the first token of a well-behaved value's text, whatever follows the token (`X`); after a
scalar the continuation must begin like a delimiter -/
theorem firstTok_gen : ∀ v : Val, GoodV v → ∀ (s : Scan) (X : List UInt8) (f : Nat),
    At s ((enc v true).take (firstTokLen v) ++ X) → s.stash = [] → (Scalar v = true → Delim X) →
    firstTokLen v + 3 ≤ f →
    ∃ p, lexRead f s = .ok p ∧ At p.sc X ∧ ((Scalar v = true → X.head? ≠ some 32) → p.sc.stash = []) ∧
      PS.isChar p 62 = false
  | .list xs, _, s, X, f, hat, hs, _, hf => by
    rw [enc_list] at hat
    obtain ⟨p, e, h1, h2, h3⟩ :=
      firstTok_gen_open (by simpa [firstTokLen] using hat) hs (by decide) (by decide) (by decide) f (by omega)
    exact ⟨p, e, h1, fun _ => h2, h3⟩
  | .dict d, _, s, X, f, hat, hs, _, hf => by
    rw [enc_dict] at hat
    obtain ⟨p, e, h1, h2, h3⟩ :=
      firstTok_gen_open (by simpa [firstTokLen] using hat) hs (by decide) (by decide) (by decide) f (by omega)
    exact ⟨p, e, h1, fun _ => h2, h3⟩
  | .grid md cols rows ver, h, s, X, f, hat, hs, _, hf => by
    simp only [GoodV] at h
    cases cols with
    | nil => simp [colsShape] at h
    | cons n cm c =>
      have e := enc_grid_nested md n cm c rows ver []
      simp only [List.append_nil] at e
      rw [e] at hat
      obtain ⟨p, e, h1, h2, h3⟩ :=
        firstTok_gen_open (by simpa [firstTokLen] using hat) hs (by decide) (by decide) (by decide) f (by omega)
      exact ⟨p, e, h1, fun _ => h2, h3⟩
  | .null, h, s, X, f, hat, hs, hd, hf => by
    simp only [GoodV] at h
    obtain ⟨p, e, h1, h2, h3⟩ := firstTok_gen_scalar h.1 s X f (by simpa [firstTokLen] using hat) hs (hd rfl) hf
    exact ⟨p, e, h1, fun hx => h2 (hx rfl), h3⟩
  | .remove, h, s, X, f, hat, hs, hd, hf => by
    simp only [GoodV] at h
    obtain ⟨p, e, h1, h2, h3⟩ := firstTok_gen_scalar h.1 s X f (by simpa [firstTokLen] using hat) hs (hd rfl) hf
    exact ⟨p, e, h1, fun hx => h2 (hx rfl), h3⟩
  | .marker, h, s, X, f, hat, hs, hd, hf => by
    simp only [GoodV] at h
    obtain ⟨p, e, h1, h2, h3⟩ := firstTok_gen_scalar h.1 s X f (by simpa [firstTokLen] using hat) hs (hd rfl) hf
    exact ⟨p, e, h1, fun hx => h2 (hx rfl), h3⟩
  | .bool _, h, s, X, f, hat, hs, hd, hf => by
    simp only [GoodV] at h
    obtain ⟨p, e, h1, h2, h3⟩ := firstTok_gen_scalar h.1 s X f (by simpa [firstTokLen] using hat) hs (hd rfl) hf
    exact ⟨p, e, h1, fun hx => h2 (hx rfl), h3⟩
  | .na, h, s, X, f, hat, hs, hd, hf => by
    simp only [GoodV] at h
    obtain ⟨p, e, h1, h2, h3⟩ := firstTok_gen_scalar h.1 s X f (by simpa [firstTokLen] using hat) hs (hd rfl) hf
    exact ⟨p, e, h1, fun hx => h2 (hx rfl), h3⟩
  | .num _, h, s, X, f, hat, hs, hd, hf => by
    simp only [GoodV] at h
    obtain ⟨p, e, h1, h2, h3⟩ := firstTok_gen_scalar h.1 s X f (by simpa [firstTokLen] using hat) hs (hd rfl) hf
    exact ⟨p, e, h1, fun hx => h2 (hx rfl), h3⟩
  | .str _, h, s, X, f, hat, hs, hd, hf => by
    simp only [GoodV] at h
    obtain ⟨p, e, h1, h2, h3⟩ := firstTok_gen_scalar h.1 s X f (by simpa [firstTokLen] using hat) hs (hd rfl) hf
    exact ⟨p, e, h1, fun hx => h2 (hx rfl), h3⟩
  | .uri _, h, s, X, f, hat, hs, hd, hf => by
    simp only [GoodV] at h
    obtain ⟨p, e, h1, h2, h3⟩ := firstTok_gen_scalar h.1 s X f (by simpa [firstTokLen] using hat) hs (hd rfl) hf
    exact ⟨p, e, h1, fun hx => h2 (hx rfl), h3⟩
  | .ref _ _, h, s, X, f, hat, hs, hd, hf => by
    simp only [GoodV] at h
    obtain ⟨p, e, h1, h2, h3⟩ := firstTok_gen_scalar h.1 s X f (by simpa [firstTokLen] using hat) hs (hd rfl) hf
    exact ⟨p, e, h1, fun hx => h2 (hx rfl), h3⟩
  | .sym _, h, s, X, f, hat, hs, hd, hf => by
    simp only [GoodV] at h
    obtain ⟨p, e, h1, h2, h3⟩ := firstTok_gen_scalar h.1 s X f (by simpa [firstTokLen] using hat) hs (hd rfl) hf
    exact ⟨p, e, h1, fun hx => h2 (hx rfl), h3⟩
  | .date _, h, s, X, f, hat, hs, hd, hf => by
    simp only [GoodV] at h
    obtain ⟨p, e, h1, h2, h3⟩ := firstTok_gen_scalar h.1 s X f (by simpa [firstTokLen] using hat) hs (hd rfl) hf
    exact ⟨p, e, h1, fun hx => h2 (hx rfl), h3⟩
  | .time _, h, s, X, f, hat, hs, hd, hf => by
    simp only [GoodV] at h
    obtain ⟨p, e, h1, h2, h3⟩ := firstTok_gen_scalar h.1 s X f (by simpa [firstTokLen] using hat) hs (hd rfl) hf
    exact ⟨p, e, h1, fun hx => h2 (hx rfl), h3⟩
  | .dateTime _, h, s, X, f, hat, hs, hd, hf => by
    simp only [GoodV] at h
    obtain ⟨p, e, h1, h2, h3⟩ := firstTok_gen_scalar h.1 s X f (by simpa [firstTokLen] using hat) hs (hd rfl) hf
    exact ⟨p, e, h1, fun hx => h2 (hx rfl), h3⟩
  | .coord _ _, h, s, X, f, hat, hs, hd, hf => by
    simp only [GoodV] at h
    obtain ⟨p, e, h1, h2, h3⟩ := firstTok_gen_scalar h.1 s X f (by simpa [firstTokLen] using hat) hs (hd rfl) hf
    exact ⟨p, e, h1, fun hx => h2 (hx rfl), h3⟩
  | .xstr _ _, h, s, X, f, hat, hs, hd, hf => by
    simp only [GoodV] at h
    obtain ⟨p, e, h1, h2, h3⟩ := firstTok_gen_scalar h.1 s X f (by simpa [firstTokLen] using hat) hs (hd rfl) hf
    exact ⟨p, e, h1, fun hx => h2 (hx rfl), h3⟩

/-! ### the first token of a row line, with an arbitrary continuation -/

/-- the bytes of the first token of the line the writer prints for row `r` -/
def rowFirstBytes (r : Tags) (names : List (List Char)) (single : Bool) : List UInt8 :=
  (rowBytes r names single ++ [10]).take (rowFirstLen r names)

/-- what has to follow the first token so that the lexer ends it there: after a scalar first cell, `,` or newline
(after `,`, `[`, `{`, `<` anything may follow) -/
def FirstEnds (r : Tags) (names : List (List Char)) (X : List UInt8) : Prop :=
  ∀ n v, names.head? = some n → r.get? n = some v → Scalar v = true → ∃ d rest, X = d :: rest ∧ (d = 44 ∨ d = 10)

theorem delim_of_sep {X : List UInt8} (h : ∃ d rest, X = d :: rest ∧ (d = 44 ∨ d = 10)) :
    Delim X ∧ X.head? ≠ some 32 := by
  obtain ⟨d, rest, rfl, hd⟩ := h
  refine ⟨Or.inr (Or.inl ⟨d, rest, rfl, ?_⟩), ?_⟩
  · rcases hd with rfl | rfl <;> simp
  · rcases hd with rfl | rfl <;> simp

theorem rowFirst_gen (r : Tags) (names : List (List Char)) (single : Bool) (X : List UInt8)
    (hne : names ≠ []) (hsingle : names.length = 1 → single = true)
    (hgood : ∀ n v, r.get? n = some v → GoodV v)
    (hpres : single = true → ∀ n ∈ names, r.get? n ≠ none) (hX : FirstEnds r names X)
    (s : Scan) (f : Nat) (hat : At s (rowFirstBytes r names single ++ X)) (hs : s.stash = [])
    (hf : rowFirstLen r names + 3 ≤ f) :
    ∃ p, lexRead f s = .ok p ∧ At p.sc X ∧ p.sc.stash = [] ∧ PS.isChar p 62 = false ∧
      FirstOk (rowFirstBytes r names single ++ X) ∧
      (rowFirstBytes r names single).length = rowFirstLen r names := by
  cases names with
  | nil => exact absurd rfl hne
  | cons n ns =>
    -- the line starts with the first cell, or with the `,` that follows a missing first cell
    have key : ∀ v, r.get? n = some v → ∀ tail : List UInt8, 1 ≤ tail.length →
        rowBytes r (n :: ns) single ++ [10] = enc v true ++ tail →
        ∃ p, lexRead f s = .ok p ∧ At p.sc X ∧ p.sc.stash = [] ∧ PS.isChar p 62 = false ∧
          FirstOk (rowFirstBytes r (n :: ns) single ++ X) ∧
          (rowFirstBytes r (n :: ns) single).length = rowFirstLen r (n :: ns) := by
      intro v hget tail htl htail
      have hg := hgood n v hget
      obtain ⟨h1, h2⟩ := firstTokLen_le v hg
      have hfb : rowFirstBytes r (n :: ns) single = (enc v true).take (firstTokLen v) := by
        simp only [rowFirstBytes, rowFirstLen, hget, htail]
        rw [List.take_append_of_le_length h2]
      have hlenrow : (enc v true).length ≤ (rowBytes r (n :: ns) single).length := by
        have := congrArg List.length htail
        simp only [List.length_append, List.length_cons, List.length_nil] at this
        omega
      rw [hfb] at hat ⊢
      have hsc : Scalar v = true → Delim X ∧ X.head? ≠ some 32 := fun hsv => delim_of_sep (hX n v rfl hget hsv)
      obtain ⟨p, e, hp, hst, h62⟩ := firstTok_gen v hg s X f hat hs (fun hsv => (hsc hsv).1)
        (by simp only [rowFirstLen, hget] at hf; exact hf)
      refine ⟨p, e, hp, hst (fun hsv => (hsc hsv).2), h62, ?_, ?_⟩
      · obtain ⟨b, rr, eb, hb⟩ := firstOk_good v hg
        rw [eb]
        obtain ⟨k, hk⟩ : ∃ k, firstTokLen v = k + 1 := ⟨firstTokLen v - 1, by omega⟩
        rw [hk]
        exact ⟨b, List.take k rr ++ X, by simp, hb⟩
      · simp only [rowFirstLen, hget, List.length_take]; omega
    cases ns with
    | nil =>
      have hsg : single = true := hsingle rfl
      cases hget : r.get? n with
      | none => exact absurd hget (hpres hsg n (by simp))
      | some v => exact key v hget [10] (by simp) (by simp [rowBytes, cellBytes, hget])
    | cons n2 ns2 =>
      cases hget : r.get? n with
      | some v =>
        exact key v hget (44 :: (rowBytes r (n2 :: ns2) single ++ [10])) (by simp) (by simp [rowBytes, cellBytes, hget])
      | none =>
        have hsf : single = false := by
          cases single with
          | false => rfl
          | true => exact absurd hget (hpres rfl n (by simp))
        have hfb : rowFirstBytes r (n :: n2 :: ns2) single = [44] := by
          simp [rowFirstBytes, rowFirstLen, rowBytes, cellBytes, hget, hsf]
        rw [hfb] at hat ⊢
        obtain ⟨p, e, h1, h2, h3⟩ := firstTok_gen_open (by simpa using hat) hs (by decide) (by decide) (by decide) f (by omega)
        exact ⟨p, e, h1, h2, h3, ⟨44, X, rfl, by decide, by decide, by decide, by decide⟩, by simp [rowFirstLen, hget]⟩

/-! ### the iterator over the rows in front of a row line whose first token has arrived -/

/-- like `Hands`, without the report of the end: the calls hand out the listed rows, in order, each with the text
the scanner is positioned at -/
def HandsP (F depth : Nat) (names : List (List Char)) : RowState → List (Tags × List UInt8) → Prop
  | _, [] => True
  | st, (row, text) :: more =>
    ∃ st', rowNext F depth st names = .ok (some row, st') ∧ At st'.p.sc text ∧ st'.p.sc.stash = [] ∧
      HandsP F depth names st' more

/-- rows `rows`, then the first token of the line of `rn`, then `X`: what is handed out, and where the scanner
stands each time -/
def rowTraceP (names : List (List Char)) (single : Bool) (rn : Tags) (X : List UInt8) : Rows → List (Tags × List UInt8)
  | .nil => []
  | .cons r rs =>
    (lexImgT r,
      match rs with
      | .nil => X
      | .cons r2 rs2 =>
        (rowBytes r2 names single ++ 10 :: (encRows rs2 names single ++ (rowFirstBytes rn names single ++ X))).drop
          (rowFirstLen r2 names)) :: rowTraceP names single rn X rs

theorem handsP_rows (names : List (List Char)) (single : Bool)
    (hne : names ≠ []) (hsingle : names.length = 1 → single = true) (hnd : names.Nodup) (depth F : Nat)
    (rn : Tags) (X : List UInt8) (hrn : RowOk rn names single) (hgn : GoodT rn) (hX : FirstEnds rn names X) :
    ∀ (r : Tags) (rs : Rows), RowsOk names single (.cons r rs) → GoodR (.cons r rs) →
    depth + nestR (.cons r rs) ≤ 64 →
    4 * ((encRows (.cons r rs) names single).length + rowFirstLen rn names) + 20 ≤ F →
    ∀ (f1 : Nat) (sc : Scan),
    At sc (encRows (.cons r rs) names single ++ (rowFirstBytes rn names single ++ X)) → sc.stash = [] →
    4 * ((encRows (.cons r rs) names single).length + rowFirstLen rn names) + 18 ≤ f1 →
    ∃ p, lexRead f1 sc = .ok p ∧
      HandsP F depth names { p := p, nestedStart := false, nestedEnd := false }
        (rowTraceP names single rn X (.cons r rs))
  | r, rs, hok, hgood, hdep, hF, f1, sc, hat, hs, hf1 => by
    obtain ⟨hrow, hrest⟩ := hok
    simp only [GoodR] at hgood
    simp only [nestR] at hdep
    have hlen := encRows_length_cons r rs names single
    rw [encRows_cons] at hat
    simp only [List.append_assoc, List.cons_append] at hat
    obtain ⟨g, rfl⟩ : ∃ g, F = g + 3 := ⟨F - 3, by omega⟩
    obtain ⟨p, p2, e1, heof, h10, h62, ht2, h2, hs2, hnext⟩ := rowNext_row names single false hne hsingle hnd depth r hrow
      (by omega) g f1 sc (encRows rs names single ++ (rowFirstBytes rn names single ++ X)) hat hs (by omega) (by omega)
    refine ⟨p, e1, ?_⟩
    cases rs with
    | cons r2 rs2 =>
      have hrest' := hrest
      obtain ⟨hrow2, _⟩ := hrest'
      have hnest2 : nestT r2 ≤ nestR (.cons r2 rs2) := by simp only [nestR]; omega
      have hgood2 := hgood.2
      simp only [GoodR] at hgood2
      have hlen2 := encRows_length_cons r2 rs2 names single
      obtain ⟨q, eq, hq⟩ := handsP_rows names single hne hsingle hnd depth (g + 3) rn X hrn hgn hX r2 rs2 hrest hgood.2
        (by omega) (by omega) (g + 1) p2.sc h2 hs2 (by omega)
      have h2' := h2
      rw [encRows_cons] at h2'
      simp only [List.append_assoc, List.cons_append] at h2'
      have hfo : FirstOk (encRows (.cons r2 rs2) names single ++ (rowFirstBytes rn names single ++ X)) := by
        rw [encRows_cons]
        simp only [List.append_assoc, List.cons_append]
        exact firstOk_row r2 names single _ hne hsingle hrow2.first (fun h n hn => (hrow2.cells n hn).2 h)
      obtain ⟨q', eq', hatq, hsq, _, _⟩ := rowFirst_at r2 names single
        (encRows rs2 names single ++ (rowFirstBytes rn names single ++ X)) hne hsingle
        (fun n v hv => (rdCell r2 hgood2.1 n v hv).2) (fun h n hn => (hrow2.cells n hn).2 h) p2.sc (g + 1) h2' hs2 (by omega)
      have hqq : q' = q := by rw [eq] at eq'; cases eq'; rfl
      subst hqq
      have hq62 : PS.isChar q' 62 = false := by
        obtain ⟨p', _, e1', _, _, h62', _⟩ := rowNext_row names single false hne hsingle hnd depth r2 hrow2
          (by omega) g (g + 1) p2.sc (encRows rs2 names single ++ (rowFirstBytes rn names single ++ X)) h2' hs2
          (by omega) (by omega)
        rw [eq] at e1'; cases e1'; exact h62'
      refine ⟨{ p := q', nestedStart := false, nestedEnd := false }, ?_, hatq, hsq, hq⟩
      rw [hnext, consumeEnd_next (g + 1) p2 q' false _ ht2 h2 hfo eq hq62]
    | nil =>
      simp only [encRows, List.nil_append, List.length_nil] at h2 hlen
      obtain ⟨q, eq, hatq, hsq, hq62, hfo, _⟩ := rowFirst_gen rn names single X hne hsingle
        (fun n v hv => (rdCell rn hgn n v hv).2) (fun h n hn => (hrn.cells n hn).2 h) hX p2.sc (g + 1) h2 hs2 (by omega)
      refine ⟨{ p := q, nestedStart := false, nestedEnd := false }, ?_, hatq, hsq, trivial⟩
      rw [hnext, consumeEnd_next (g + 1) p2 q false _ ht2 h2 hfo eq hq62]

end Hs.Zinc
