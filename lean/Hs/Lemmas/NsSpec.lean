/-
  Hs.Lemmas.NsSpec — the namespace queries of Hs.Model.Ns against the specification graph, for EVERY defs grid
  (no acyclicity hypothesis: the traversals expand a def once, `fuelFor g = |defs| + 1` iterations suffice).
-/
import Hs.Lemmas.NsGraph
namespace Hs.Ns
open Relation

theorem fuelFor_ge (g : Defs) : (Names g).length + 1 ≤ fuelFor g := by
  unfold fuelFor
  rw [length_names]
  exact Nat.le_refl _

theorem tg_mono {α : Type} {r p : α → α → Prop} (h : ∀ a b, r a b → p a b) {a b : α}
    (hab : TransGen r a b) : TransGen p a b := TransGen.mono h a b hab

theorem transGen_congr {α : Type} {r p : α → α → Prop} (h : ∀ a b, r a b ↔ p a b) (a b : α) :
    TransGen r a b ↔ TransGen p a b :=
  ⟨tg_mono (fun a b => (h a b).1), tg_mono (fun a b => (h a b).2)⟩

/-- undefined symbols have no outgoing edge: a path between defined... any `RawEdge` path to a DEFINED
target runs through defined defs only -/
theorem raw_transGen_defined {g : Defs} {a b : Name} (h : TransGen (RawEdge g) a b) (hb : defined g b = true) :
    TransGen (Edge g) a b := by
  induction h using TransGen.head_induction_on with
  | single h =>
    obtain ⟨d, h1, h2⟩ := h
    exact TransGen.single ⟨d, h1, h2, hb⟩
  | head h hcb ih =>
    rename_i a' c
    obtain ⟨d, h1, h2⟩ := h
    have hc : defined g c = true := by
      rcases TransGen.head'_iff.1 hcb with ⟨_, ⟨d', hd', _⟩, _⟩
      exact defined_iff.2 ⟨d', hd'⟩
    exact TransGen.head ⟨d, h1, h2, hc⟩ ih

section
variable (rows : List Row)

/-- `all_supertypes_of`, on every graph: ends within `fuelFor` and returns the strict `Edge` closure -/
theorem allSupertypesOf_spec (fuel : Nat) (hf : fuelFor (make rows).defs ≤ fuel) (s : Name) :
    ∃ res, allSupertypesOf fuel (make rows) s = .ok res ∧ res.Nodup ∧
      ∀ x, x ∈ res ↔ TransGen (Edge (make rows).defs) s x := by
  obtain ⟨res, h1, h2, h3⟩ := wl_spec (supertypesOf (make rows).defs) false (Names (make rows).defs)
    (supertypesOf_in_names _) fuel (Nat.le_trans (fuelFor_ge _) hf) s
  refine ⟨res, h1, h2, fun x => ?_⟩
  rw [h3 x]
  exact transGen_congr (fun a b => mem_supertypesOf) s x

/-- the same for a namespace that did not come out of `make` (only the `defs` map is read) -/
theorem allSupertypesOf_spec_ns (ns : Ns) (fuel : Nat) (hf : fuelFor ns.defs ≤ fuel) (s : Name) :
    ∃ res, allSupertypesOf fuel ns s = .ok res ∧ res.Nodup ∧ ∀ x, x ∈ res ↔ TransGen (Edge ns.defs) s x := by
  obtain ⟨res, h1, h2, h3⟩ := wl_spec (supertypesOf ns.defs) false (Names ns.defs)
    (supertypesOf_in_names _) fuel (Nat.le_trans (fuelFor_ge _) hf) s
  refine ⟨res, h1, h2, fun x => ?_⟩
  rw [h3 x]
  exact transGen_congr (fun a b => mem_supertypesOf) s x

/-- `all_subtypes_of`, on every graph (`s` need not be defined: a symbol that is only mentioned in `is` lists
has subtypes) -/
theorem allSubtypesOf_spec (fuel : Nat) (hf : fuelFor (make rows).defs ≤ fuel) (s : Name) :
    ∃ res, allSubtypesOf fuel (make rows) s = .ok res ∧ res.Nodup ∧
      ∀ x, x ∈ res ↔ TransGen (RawEdge (make rows).defs) x s := by
  obtain ⟨res, h1, h2, h3⟩ := wl_spec (subtypesOf (make rows)) true (Names (make rows).defs)
    (subtypesOf_in_names rows) fuel (Nat.le_trans (fuelFor_ge _) hf) s
  refine ⟨res, h1, h2, fun x => ?_⟩
  rw [h3 x]
  have hsw : TransGen (Succ (subtypesOf (make rows))) s x ↔
      TransGen (Function.swap (RawEdge (make rows).defs)) s x :=
    transGen_congr (fun a b => mem_subtypesOf rows a b) s x
  rw [hsw, transGen_swap]

/-- for a defined `s` the subtypes are the `Edge` ancestors -/
theorem allSubtypesOf_spec_defined (fuel : Nat) (hf : fuelFor (make rows).defs ≤ fuel) (s : Name) (hs : defined (make rows).defs s = true) :
    ∃ res, allSubtypesOf fuel (make rows) s = .ok res ∧
      ∀ x, x ∈ res ↔ TransGen (Edge (make rows).defs) x s := by
  obtain ⟨res, h1, _, h3⟩ := allSubtypesOf_spec rows fuel hf s
  refine ⟨res, h1, fun x => ?_⟩
  rw [h3 x]
  exact ⟨fun h => raw_transGen_defined h hs, tg_mono (fun a b => edge_raw)⟩

/-- `inheritance` = the def itself and all its supertypes; empty for an undefined symbol -/
theorem inheritance_spec (fuel : Nat) (hf : fuelFor (make rows).defs ≤ fuel) (s : Name) :
    ∃ res, inheritance fuel (make rows) s = .ok res ∧
      ∀ x, x ∈ res ↔ (defined (make rows).defs s = true ∧ ReflTransGen (Edge (make rows).defs) s x) := by
  obtain ⟨all, h1, _, h3⟩ := allSupertypesOf_spec rows fuel hf s
  unfold inheritance
  by_cases hs : defined (make rows).defs s = true
  · simp only [hs, if_true, h1]
    refine ⟨_, rfl, fun x => ?_⟩
    rw [mem_extendSet, List.mem_singleton, h3 x, reflTransGen_iff_eq_or_transGen]
    simp
  · simp only [hs]
    exact ⟨[], rfl, fun x => by simp⟩

/-- `inheritance` is literally "the def, then every supertype" -/
theorem inheritance_eq (fuel : Nat) (ns : Ns) (s : Name) (all : List Name)
    (hs : defined ns.defs s = true) (h : allSupertypesOf fuel ns s = .ok all) :
    inheritance fuel ns s = .ok (extendSet [s] all) := by
  unfold inheritance
  simp [hs, h]

/-- `fits` -/
theorem fits_spec (fuel : Nat) (hf : fuelFor (make rows).defs ≤ fuel) (a b : Name) :
    ∃ v, fits fuel (make rows) a b = .ok v ∧
      (v = true ↔ (defined (make rows).defs a = true ∧ defined (make rows).defs b = true ∧
        ReflTransGen (Edge (make rows).defs) a b)) := by
  obtain ⟨inh, h1, h2⟩ := inheritance_spec rows fuel hf a
  unfold fits
  by_cases hb : defined (make rows).defs b = true
  · simp only [hb, if_true, h1]
    refine ⟨_, rfl, ?_⟩
    rw [List.contains_iff_mem, h2 b]
    simp
  · simp only [hb]
    exact ⟨false, rfl, by simp⟩

/-- `fitsRow` is `fits` on every element of the list -/
theorem mem_fitsRow (fuel : Nat) (ns : Ns) (a : Name) (bs r : List Name)
    (h : fitsRow fuel ns a bs = .ok r) (b : Name) :
    b ∈ r ↔ (b ∈ bs ∧ fits fuel ns a b = .ok true) := by
  unfold fitsRow at h
  unfold fits
  cases hi : inheritance fuel ns a with
  | ok l =>
    simp only [hi, Res.ok.injEq] at h
    subst h
    by_cases hb : defined ns.defs b = true
    · simp [hb, List.mem_filter]
    · simp [hb, List.mem_filter]
  | err => simp [hi] at h
  | panic => simp [hi] at h
  | diverge => simp [hi] at h
  | depth => simp [hi] at h

/-! ### reflection -/

/-- The defs a record names directly - the statement's "defs of its tags" and "every conjunct whose parts are all
marker tags of the record": `t` is a def of the namespace and
* `t` is the name of a tag of the record (whatever the tag's value), or
* `t` is a conjunct name (it contains `-`) and EVERY dash-separated part of it is a tag of the record whose value
  is a Marker.  Whether a part has a def of its own plays no role. -/
def Seed (g : Defs) (r : Rec) (t : Name) : Prop :=
  defined g t = true ∧
    ((∃ m, (t, m) ∈ r) ∨ (isConjunct t = true ∧ ∀ p ∈ splitDash t, (p, true) ∈ r))

theorem mem_tagDefs (ns : Ns) (r : Rec) (t : Name) :
    t ∈ tagDefs ns r ↔ (defined ns.defs t = true ∧ ∃ m, (t, m) ∈ r) := by
  unfold tagDefs
  simp only [List.mem_filterMap]
  constructor
  · rintro ⟨⟨k, m⟩, hkm, h⟩
    by_cases hk : defined ns.defs k = true
    · simp only [hk, if_true, Option.some.injEq] at h
      subst h
      exact ⟨hk, m, hkm⟩
    · simp [hk] at h
  · rintro ⟨hd, m, hm⟩
    exact ⟨(t, m), hm, by simp [hd]⟩

/-- `markers` = the Marker-valued tags of the record, defined or not -/
theorem mem_markerTags (r : Rec) (t : Name) : t ∈ markerTags r ↔ (t, true) ∈ r := by
  unfold markerTags
  rw [mem_extendSet]
  simp only [List.not_mem_nil, false_or, List.mem_filterMap]
  constructor
  · rintro ⟨⟨k, m⟩, hkm, h⟩
    cases m with
    | true =>
      simp only [if_true, Option.some.injEq] at h
      subst h
      exact hkm
    | false => simp at h
  · intro hm
    exact ⟨(t, true), hm, by simp⟩

theorem mem_seeds (r : Rec) (t : Name) :
    t ∈ tagDefs (make rows) r ++ findConjuncts (make rows) (markerTags r) ↔
      Seed (make rows).defs r t := by
  rw [List.mem_append, mem_tagDefs, mem_findConjuncts]
  unfold Seed
  constructor
  · rintro (⟨h1, h2⟩ | ⟨h1, h2, h3⟩)
    · exact ⟨h1, Or.inl h2⟩
    · exact ⟨h1, Or.inr ⟨h2, fun p hp => (mem_markerTags _ _).1 (h3 p hp)⟩⟩
  · rintro ⟨h1, h2 | ⟨h2, h3⟩⟩
    · exact Or.inl ⟨h1, h2⟩
    · exact Or.inr ⟨h1, h2, fun p hp => (mem_markerTags _ _).2 (h3 p hp)⟩

theorem findSupertypesFromDefs_spec (fuel : Nat) (hf : fuelFor (make rows).defs ≤ fuel) :
    ∀ (ds acc : List Name), ∃ res, findSupertypesFromDefs fuel (make rows) ds acc = .ok res ∧
      ∀ x, x ∈ res ↔ (x ∈ acc ∨ ∃ d ∈ ds, ReflTransGen (Edge (make rows).defs) d x) := by
  intro ds
  induction ds with
  | nil => intro acc; exact ⟨acc, rfl, fun x => by simp⟩
  | cons d ds ih =>
    intro acc
    obtain ⟨all, h1, _, h3⟩ := allSupertypesOf_spec rows fuel hf d
    obtain ⟨res, h4, h5⟩ := ih (extendSet (insertSet d acc) all)
    refine ⟨res, by simp only [findSupertypesFromDefs, h1]; exact h4, fun x => ?_⟩
    rw [h5 x, mem_extendSet, mem_insertSet, h3 x]
    constructor
    · rintro (((rfl | h) | h) | ⟨e, he, h⟩)
      · exact Or.inr ⟨x, List.mem_cons_self, ReflTransGen.refl⟩
      · exact Or.inl h
      · exact Or.inr ⟨d, List.mem_cons_self, h.to_reflTransGen⟩
      · exact Or.inr ⟨e, List.mem_cons_of_mem _ he, h⟩
    · rintro (h | ⟨e, he, h⟩)
      · exact Or.inl (Or.inl (Or.inr h))
      · rcases List.mem_cons.1 he with rfl | he
        · rcases reflTransGen_iff_eq_or_transGen.1 h with rfl | h
          · exact Or.inl (Or.inl (Or.inl rfl))
          · exact Or.inl (Or.inr h)
        · exact Or.inr ⟨e, he, h⟩

/-- `reflect`: the seeds and all their supertypes -/
theorem reflect_spec (fuel : Nat) (hf : fuelFor (make rows).defs ≤ fuel) (r : Rec) :
    ∃ res, reflect fuel (make rows) r = .ok res ∧
      ∀ x, x ∈ res ↔ ∃ t, Seed (make rows).defs r t ∧ ReflTransGen (Edge (make rows).defs) t x := by
  obtain ⟨res, h1, h2⟩ := findSupertypesFromDefs_spec rows fuel hf
    (tagDefs (make rows) r ++ findConjuncts (make rows) (markerTags r)) []
  refine ⟨res, h1, fun x => ?_⟩
  rw [h2 x]
  simp only [List.not_mem_nil, false_or]
  constructor
  · rintro ⟨d, hd, h⟩; exact ⟨d, (mem_seeds rows r d).1 hd, h⟩
  · rintro ⟨d, hd, h⟩; exact ⟨d, (mem_seeds rows r d).2 hd, h⟩

theorem anyFits_spec (fuel : Nat) (hf : fuelFor (make rows).defs ≤ fuel) (base : Name) :
    ∀ ds : List Name, ∃ v, anyFits fuel (make rows) base ds = .ok v ∧
      (v = true ↔ ∃ d ∈ ds, defined (make rows).defs d = true ∧ defined (make rows).defs base = true ∧
        ReflTransGen (Edge (make rows).defs) d base) := by
  intro ds
  induction ds with
  | nil => exact ⟨false, rfl, by simp⟩
  | cons d ds ih =>
    obtain ⟨v, h1, h2⟩ := fits_spec rows fuel hf d base
    obtain ⟨w, h3, h4⟩ := ih
    cases v with
    | true =>
      refine ⟨true, by simp only [anyFits, h1], ?_⟩
      simp only [true_iff]
      exact ⟨d, List.mem_cons_self, h2.1 rfl⟩
    | false =>
      refine ⟨w, by simp only [anyFits, h1]; exact h3, ?_⟩
      rw [h4]
      constructor
      · rintro ⟨e, he, h⟩; exact ⟨e, List.mem_cons_of_mem _ he, h⟩
      · rintro ⟨e, he, h⟩
        rcases List.mem_cons.1 he with rfl | he
        · have := h2.2 h; cases this
        · exact ⟨e, he, h⟩

theorem seed_defined {g : Defs} {r : Rec} {t : Name} (h : Seed g r t) : defined g t = true := h.1

theorem edge_target_defined {g : Defs} {a b : Name} (h : ReflTransGen (Edge g) a b) (ha : defined g a = true) :
    defined g b = true := by
  induction h with
  | refl => exact ha
  | tail _ hbc _ => exact hbc.choose_spec.2.2

/-- `reflect(rec).fits(base)`, i.e. the filter term `^base`: some seed of the record fits `base` -/
theorem reflFits_spec (fuel : Nat) (hf : fuelFor (make rows).defs ≤ fuel) (r : Rec) (base : Name) :
    ∃ v, reflFits fuel (make rows) r base = .ok v ∧
      (v = true ↔ ∃ t, Seed (make rows).defs r t ∧ defined (make rows).defs base = true ∧
        ReflTransGen (Edge (make rows).defs) t base) := by
  obtain ⟨res, h1, h2⟩ := reflect_spec rows fuel hf r
  obtain ⟨v, h3, h4⟩ := anyFits_spec rows fuel hf base res
  refine ⟨v, by simp only [reflFits, h1]; exact h3, ?_⟩
  rw [h4]
  constructor
  · rintro ⟨d, hd, _, hb, hdb⟩
    obtain ⟨t, ht, htd⟩ := (h2 d).1 hd
    exact ⟨t, ht, hb, htd.trans hdb⟩
  · rintro ⟨t, ht, hb, htb⟩
    exact ⟨t, (h2 t).2 ⟨t, ht, ReflTransGen.refl⟩, seed_defined ht, hb, htb⟩

/-! ### `choices_for`, `conjuncts_defs` -/

theorem mem_choicesFor (s x : Name) :
    x ∈ choicesFor (make rows) s ↔
      ((∃ d, get (make rows).defs s = some d ∧ some choiceName ∈ d.isRaw) ∧ RawEdge (make rows).defs x s) := by
  unfold choicesFor
  cases hg : get (make rows).defs s with
  | none => simp
  | some d =>
    simp only [Option.some.injEq, exists_eq_left']
    by_cases hc : (d.isRaw.any fun it => decide (it = some choiceName)) = true
    · simp only [hc, if_true, mem_subtypesOf]
      have : some choiceName ∈ d.isRaw := by
        obtain ⟨it, hit, h⟩ := List.any_eq_true.1 hc
        simp only [decide_eq_true_eq] at h
        subst h; exact hit
      simp [this]
    · simp only [hc]
      have : ¬ some choiceName ∈ d.isRaw := by
        intro hmem
        apply hc
        exact List.any_eq_true.2 ⟨_, hmem, by simp⟩
      simp [this]

theorem mem_conjunctsDefs (ns : Ns) (s x : Name) :
    x ∈ conjunctsDefs ns s ↔ (x ∈ splitDash s ∧ defined ns.defs x = true) := by
  unfold conjunctsDefs
  simp only [List.mem_filterMap]
  constructor
  · rintro ⟨p, hp, h⟩
    by_cases hd : defined ns.defs p = true
    · simp only [hd, if_true, Option.some.injEq] at h
      subst h; exact ⟨hp, hd⟩
    · simp [hd] at h
  · rintro ⟨hp, hd⟩
    exact ⟨x, hp, by simp [hd]⟩

end
end Hs.Ns
