/-
  C04 read direction: the zone part of a timestamp before any legal continuation (`DelimW`).
-/
import Hs.Lemmas.ZincSpellBase
import Hs.Lemmas.ZincRtTok2
namespace Hs.Zinc
open Hs Hs.Scan Hs.Spell

theorem DelimW.stop_tz {rest : List UInt8} (h : DelimW rest) : Stop isTzB rest := h.stop (by decide)

theorem not_upper_of_follow {x : UInt8} (hx : x = 32 ∨ x = 9 ∨ isEndB x = true ∨ isLowerB x = true) :
    isUpperB x = false := by
  rcases hx with rfl | rfl | hx | hx
  · decide
  · decide
  · rcases isEndB_cases hx with rfl | rfl | rfl | rfl | rfl <;> decide
  · cases hu : isUpperB x with
    | false => rfl
    | true =>
      exfalso
      have := lower_dispatch x
      simp [hx, hu] at this

/-- `Z` alone (UTC) -/
theorem parseTimeZone_ZW (s : Scan) (rest : List UInt8) (fuel : Nat) (h : At s (90 :: rest)) (hs : s.stash = [])
    (hd : DelimW rest) :
    ∃ s', parseTimeZone fuel s = .ok ([90], s') ∧ Post s' rest := by
  unfold parseTimeZone
  simp only [h.cur, beq_self_eq_true, if_true]
  rcases hd with rfl | ⟨b, r, rfl, hb⟩ | ⟨w, y, r, rfl, hw, hy⟩
  · -- end of input: the peek fails and raises `is_eof`
    have hp := h.peek_none (by simp [hs])
    obtain ⟨he, hc, hu⟩ := h
    rw [hs] at hu
    simp only [List.nil_append] at hu
    refine ⟨{ s with eof := true }, ?_, ⟨by simp [At, hs, hu], by simp [hs], fun _ => by simp [hs]⟩⟩
    rw [hp]
    simp
  · obtain ⟨s1, e1, h1, hs1, _, _⟩ := h.peek0' hs
    refine ⟨s1.advance, ?_, Post.of_clean h1.advance (advance_stash_nil (by omega))⟩
    rw [e1]
    rcases isEndB_cases hb with rfl | rfl | rfl | rfl | rfl <;> simp [h1.eof, h1.readQ]
  · rcases hw with rfl | rfl
    · obtain ⟨s1, e1, h1, hs1, _, _⟩ := h.peek0' hs
      obtain ⟨s2, e2, h2, hs2, _, _⟩ := h1.peek_some' (k := 1) hs1 (c := y) (by simp)
      have hyu : isUpperB y = false := not_upper_of_follow hy
      refine ⟨s2.advance, ?_, ⟨h2.advance, by rw [At.advance_stash]; cases hx : s2.stash <;> simp_all,
        fun hh => absurd rfl hh⟩⟩
      rw [e1]
      simp only [e2, hyu]
      simp [h2.eof, h2.readQ]
    · obtain ⟨s1, e1, h1, hs1, _, _⟩ := h.peek0' hs
      refine ⟨s1.advance, ?_, Post.of_clean h1.advance (advance_stash_nil (by omega))⟩
      rw [e1]
      simp [h1.eof, h1.readQ]

/-- the zone part is read back, the scanner is left after it, and the name check passes -/
theorem parseTimeZone_anyW (z : List UInt8) (hz : zoneOk z = true) (s : Scan) (rest : List UInt8) (fuel : Nat)
    (h : At s (z ++ rest)) (hs : s.stash = []) (hd : DelimW rest) (hf : z.length < fuel) :
    ∃ s', parseTimeZone fuel s = .ok (z, s') ∧ Post s' rest ∧
      (zoneNameOf z = Option.none ∨
        ∃ name, zoneNameOf z = some name ∧ (name != [85, 84, 67] && !tzResolves name) = false) ∧
      ∃ z0 zr, z = z0 :: zr ∧ isDigitB z0 = false ∧ z0 ≠ 46 := by
  unfold zoneOk at hz
  split at hz
  · obtain ⟨s', e, hp⟩ := parseTimeZone_ZW s rest fuel (by simpa using h) hs hd
    exact ⟨s', e, hp, Or.inl (by simp [zoneNameOf]), 90, [], rfl, by decide, by decide⟩
  · rename_i name
    simp only [Bool.and_eq_true] at hz
    obtain ⟨s', e, h', hs'⟩ := parseTimeZone_ZName name hz.1 s rest fuel (by simpa using h) hs hd.stop_tz
      (by simp at hf; omega)
    refine ⟨s', e, Post.of_clean h' hs', ?_, 90, 32 :: name, rfl, by decide, by decide⟩
    have : zoneNameOf (90 :: 32 :: name) = some name := by
      cases name with
      | nil => simp [tzNameOk] at hz
      | cons a tl => simp [zoneNameOf]
    exact Or.inr ⟨name, this, zoneCheck_of_resolves hz.2⟩
  · rename_i _ sg o0 o1 o2 o3 name _
    simp only [Bool.and_eq_true, Bool.or_eq_true, beq_iff_eq] at hz
    obtain ⟨⟨⟨⟨⟨⟨hsg, ho0⟩, ho1⟩, ho2⟩, ho3⟩, hn⟩, hres⟩ := hz
    obtain ⟨s', e, h', hs'⟩ := parseTimeZone_offset sg o0 o1 o2 o3 hsg ho0 ho1 ho2 ho3 name hn s rest fuel
      (by simpa using h) hs hd.stop_tz (by simp at hf; omega)
    refine ⟨s', e, Post.of_clean h' hs', ?_, sg, _, rfl, ?_, ?_⟩
    · have : zoneNameOf (sg :: o0 :: o1 :: 58 :: o2 :: o3 :: 32 :: name) = some name := by
        rcases hsg with rfl | rfl <;> simp [zoneNameOf]
      exact Or.inr ⟨name, this, zoneCheck_of_resolves hres⟩
    · rcases hsg with rfl | rfl <;> decide
    · rcases hsg with rfl | rfl <;> decide
  · simp at hz

end Hs.Zinc
