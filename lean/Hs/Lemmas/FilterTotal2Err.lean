/-
  Hs.Lemmas.FilterTotal2Err — C09: the scanner state of a failed scalar reader.  The filter parser goes on
  after a swallowed lexer error with the scanner where the failed reader left it (`Hs.Model.FilterLexErr`);
  for every `…Err` function the scanner measure `Scan.mu` is not larger than it was when the reader started.
-/
import Hs.Lemmas.ZincTotalLexStrict
import Hs.Model.FilterLexErr
namespace Hs.FText
open Hs Hs.Scan Hs.Zinc

theorem read_snd_mu (s : Scan) : s.read.2.mu ≤ s.mu := advance_mu s
grind_pattern read_snd_mu => mu (Scan.read s).2
theorem peek_snd_mu (s : Scan) : s.peek.2.mu ≤ s.mu := peek_mu (o := s.peek.1) (s' := s.peek.2) rfl
grind_pattern peek_snd_mu => mu (Scan.peek s).2

/-- walk the `if`/`match` tree of an `…Err` function; every sub-reader that succeeded contributes the
post-condition of its `…_spec` lemma, the leaves are arithmetic over `mu` -/
syntax "err_auto" : tactic
macro_rules | `(tactic| err_auto) => `(tactic|
  repeat' (first
    | (split <;> (try (rename_i heq; res_fact heq)))
    | dsimp only
    | res_arith))

theorem seqErr_mu (cs : List UInt8) : ∀ s, (seqErr cs s).mu ≤ s.mu := by
  induction cs with
  | nil => intro s; exact Nat.le_refl _
  | cons c rest ih =>
    intro s
    rw [seqErr]
    err_auto
grind_pattern seqErr_mu => mu (seqErr cs s)

theorem unicodeErr_mu (s : Scan) : (unicodeErr s).mu ≤ s.mu := by
  unfold unicodeErr; err_auto
grind_pattern unicodeErr_mu => mu (unicodeErr s)

theorem strEscapeErr_mu (s : Scan) : (strEscapeErr s).mu ≤ s.mu := by
  unfold strEscapeErr; err_auto
grind_pattern strEscapeErr_mu => mu (strEscapeErr s)

theorem strLoopErr_mu (fuel : Nat) : ∀ s, (strLoopErr fuel s).mu ≤ s.mu := by
  induction fuel with
  | zero => intro s; exact Nat.le_refl _
  | succ n ih =>
    intro s
    rw [strLoopErr]
    err_auto
grind_pattern strLoopErr_mu => mu (strLoopErr fuel s)

theorem strErr_mu (fuel : Nat) (s : Scan) : (strErr fuel s).mu ≤ s.mu := by
  unfold strErr; err_auto
grind_pattern strErr_mu => mu (strErr fuel s)

theorem uriLoopErr_mu (fuel : Nat) : ∀ s, (uriLoopErr fuel s).mu ≤ s.mu := by
  induction fuel with
  | zero => intro s; exact Nat.le_refl _
  | succ n ih =>
    intro s
    rw [uriLoopErr]
    err_auto
grind_pattern uriLoopErr_mu => mu (uriLoopErr fuel s)

theorem uriErr_mu (fuel : Nat) (s : Scan) : (uriErr fuel s).mu ≤ s.mu := by
  unfold uriErr; err_auto
grind_pattern uriErr_mu => mu (uriErr fuel s)

theorem refErr_mu (fuel : Nat) (s : Scan) : (refErr fuel s).mu ≤ s.mu := by
  unfold refErr; err_auto
grind_pattern refErr_mu => mu (refErr fuel s)

theorem symErr_mu (fuel : Nat) (s : Scan) : (symErr fuel s).mu ≤ s.mu := by
  unfold symErr; err_auto
grind_pattern symErr_mu => mu (symErr fuel s)

theorem decimalEnd_mu (fuel : Nat) (s : Scan) : (decimalEnd fuel s).2.mu ≤ s.mu := by
  unfold decimalEnd; err_auto
grind_pattern decimalEnd_mu => mu (decimalEnd fuel s).2

theorem exponentErr_mu (fuel : Nat) (s : Scan) : (exponentErr fuel s).mu ≤ s.mu := by
  unfold exponentErr; err_auto
grind_pattern exponentErr_mu => mu (exponentErr fuel s)

theorem numberTailErr_mu (fuel : Nat) (s : Scan) : (numberTailErr fuel s).mu ≤ s.mu := by
  unfold numberTailErr; err_auto
grind_pattern numberTailErr_mu => mu (numberTailErr fuel s)

theorem numberErr_mu (fuel : Nat) (s : Scan) : (numberErr fuel s).mu ≤ s.mu := by
  unfold numberErr
  split
  next dec s1 hd =>
  have h1 : s1.mu ≤ s.mu := by have := decimalEnd_mu fuel s; rw [hd] at this; exact this
  err_auto
grind_pattern numberErr_mu => mu (numberErr fuel s)

theorem negInfErr_mu (s : Scan) : (negInfErr s).mu ≤ s.mu := by
  unfold negInfErr; err_auto
grind_pattern negInfErr_mu => mu (negInfErr s)

theorem takeDigitsErr_mu (n : Nat) : ∀ s, (takeDigitsErr n s).mu ≤ s.mu := by
  induction n with
  | zero => intro s; exact Nat.le_refl _
  | succ n ih =>
    intro s
    rw [takeDigitsErr]
    err_auto
grind_pattern takeDigitsErr_mu => mu (takeDigitsErr n s)

theorem dateRawErr_mu (s : Scan) : (dateRawErr s).mu ≤ s.mu := by
  unfold dateRawErr; err_auto
grind_pattern dateRawErr_mu => mu (dateRawErr s)

theorem timeRawErr_mu (fuel : Nat) (s : Scan) : (timeRawErr fuel s).mu ≤ s.mu := by
  unfold timeRawErr; err_auto
grind_pattern timeRawErr_mu => mu (timeRawErr fuel s)

theorem tzNameErr_mu (fuel : Nat) (s : Scan) : (tzNameErr fuel s).mu ≤ s.mu := by
  unfold tzNameErr; err_auto
grind_pattern tzNameErr_mu => mu (tzNameErr fuel s)

theorem advanceByErr_mu (n : Nat) : ∀ s, (advanceByErr n s).mu ≤ s.mu := by
  induction n with
  | zero => intro s; exact Nat.le_refl _
  | succ n ih =>
    intro s
    rw [advanceByErr]
    err_auto
grind_pattern advanceByErr_mu => mu (advanceByErr n s)

theorem timeZoneErr_mu (fuel : Nat) (s : Scan) : (timeZoneErr fuel s).mu ≤ s.mu := by
  unfold timeZoneErr
  split
  · split
    next p1 s1 hp1 =>
    have h1 := peek_mu hp1
    split
    next both s2 heq2 =>
    have h2 : s2.mu ≤ s1.mu := by
      split at heq2
      · split at heq2
        · next hp => cases heq2; exact peek_mu hp
        · next hp => cases heq2; exact peek_mu hp
      · cases heq2; exact Nat.le_refl _
    err_auto
  · err_auto
grind_pattern timeZoneErr_mu => mu (timeZoneErr fuel s)

theorem dateTimeErr_mu (fuel : Nat) (s : Scan) : (dateTimeErr fuel s).mu ≤ s.mu := by
  unfold dateTimeErr; err_auto
grind_pattern dateTimeErr_mu => mu (dateTimeErr fuel s)

theorem isPartialDateErr_mu (s : Scan) : (isPartialDateErr s).mu ≤ s.mu := by
  unfold isPartialDateErr; err_auto
grind_pattern isPartialDateErr_mu => mu (isPartialDateErr s)

/-- `parse_number_date_time` failed (called, as by the lexer, on a scanner that is not at the end of the
input: the `eof := false` reset after the look-ahead then only restores the measure) -/
theorem ndtErr_mu (fuel : Nat) (s : Scan) (he : s.eof = false) : (ndtErr fuel s).mu ≤ s.mu := by
  unfold ndtErr
  split
  · err_auto
  · split
    next count s1 hp =>
    have h1 := ndtPeeks_spec _ _ _ _ _ _ hp
    have h0 := mu_not_eof he
    have h2 := mu_reset s1
    have h3 := numberErr_mu fuel { s1 with eof := false }
    err_auto

end Hs.FText
