/-
  Hs.Lemmas.ZincTotalLexStrict — C03: progress of the lexer.  A successful `lexRead` on a scanner that
  is not at the end of the input strictly decreases `Scan.mu`; a `Tok.none` token is only produced at
  the end of the input.  (`parseNumberDateTime` resets `eof := false` after its look-ahead hit the end
  of the input: `mu` is formulated so that this reset only restores the value `mu` had on entry.)
-/
import Hs.Lemmas.ZincTotalLex
namespace Hs
open Scan

/-- strict progress of a reader started on `s` -/
abbrev LT {α} (r : Res (α × Scan)) (s : Scan) : Prop :=
  r.Sat 0 0 (fun o => o.2.mu < s.mu)

namespace Zinc

/-! ### readers that start by consuming `cur` -/

theorem parseStr_strict (fuel : Nat) (s) (he : s.eof = false := by assumption) : LT (parseStr fuel s) s := by
  unfold parseStr; res_auto

theorem parseUri_strict (fuel : Nat) (s) (he : s.eof = false := by assumption) : LT (parseUri fuel s) s := by
  unfold parseUri; res_auto

theorem parseRef_strict (fuel : Nat) (s) (he : s.eof = false := by assumption) : LT (parseRef fuel s) s := by
  unfold parseRef; res_auto

theorem parseSymbol_strict (fuel : Nat) (s) (he : s.eof = false := by assumption) :
    LT (parseSymbol fuel s) s := by
  unfold parseSymbol; res_auto

theorem parseNegInf_strict (s) (he : s.eof = false := by assumption) : LT (parseNegInf s) s := by
  unfold parseNegInf; res_auto

/-! ### loops whose first test succeeds -/

theorem literalLoop_strict (fuel : Nat) (s acc) (he : s.eof = false := by assumption)
    (hc : (s.isAlphaNum || s.cur == 95) = true := by assumption) : LT (literalLoop fuel s acc) s := by
  cases fuel with
  | zero => exact Nat.le_refl _
  | succ n =>
    rw [literalLoop]
    simp only [he, hc, Bool.not_false, Bool.and_self, if_true]
    have := advance_mu_lt he
    res_from (literalLoop_spec n s.advance (acc ++ [s.cur]))
res_use (literalLoop_strict _ _ _)

theorem parseLiteral_strict (fuel : Nat) (s) (he : s.eof = false := by assumption)
    (hc : (s.isAlphaNum || s.cur == 95) = true := by assumption) : LT (parseLiteral fuel s) s := by
  unfold parseLiteral; res_auto
res_use (parseLiteral_strict _ _)

theorem parseId_strict (fuel : Nat) (s) (he : s.eof = false := by assumption) : LT (parseId fuel s) s := by
  unfold parseId
  refine Res.Sat.ite_intro (fun hc => ?_) (fun hc => ?_)
  · exact Res.Sat.err_intro
  · have hl : s.isLower = true := by simpa using hc
    have hc : (s.isAlphaNum || s.cur == 95) = true := by simp [isAlphaNum, hl]
    exact parseLiteral_strict fuel s

theorem decimalLoop_strict (fuel : Nat) (s acc) (he : s.eof = false := by assumption)
    (hc : (s.isDigit || s.cur == 95 || s.cur == 46 || s.cur == 45) = true := by assumption) :
    LT (decimalLoop fuel s acc) s := by
  cases fuel with
  | zero => exact Nat.le_refl _
  | succ n =>
    rw [decimalLoop]
    simp only [he, hc, Bool.not_false, Bool.and_self, if_true]
    have := advance_mu_lt he
    res_from (decimalLoop_spec n s.advance _)
res_use (decimalLoop_strict _ _ _)

theorem parseDecimal_strict (fuel : Nat) (s) (he : s.eof = false := by assumption)
    (hc : (s.isDigit || s.cur == 95 || s.cur == 46 || s.cur == 45) = true := by assumption) :
    LT (parseDecimal fuel s) s := by
  unfold parseDecimal; res_auto
res_use (parseDecimal_strict _ _)

theorem parseNumber_strict (fuel : Nat) (s) (he : s.eof = false := by assumption)
    (hc : (s.isDigit || s.cur == 95 || s.cur == 46 || s.cur == 45) = true := by assumption) :
    LT (parseNumber fuel s) s := by
  unfold parseNumber
  split <;> (try (rename_i heq; res_fact heq))
  · next _ _ s1 _ =>
    dsimp only
    lex_split fuel s1
    · next _ _ s3 _ _ =>
      lex_split fuel s3
      all_goals res_auto
    all_goals res_auto
  all_goals res_auto

theorem takeDigits_strict (n : Nat) (s acc) (he : s.eof = false := by assumption) :
    LT (takeDigits (n + 1) s acc) s := by
  rw [takeDigits]
  refine Res.Sat.ite_intro (fun hc => ?_) (fun hc => ?_)
  · have := advance_mu_lt he
    res_from (takeDigits_spec n s.advance (acc ++ [s.cur]))
  · exact Res.Sat.err_intro
res_use (takeDigits_strict _ _ _)

theorem parseDateRaw_strict (s) (he : s.eof = false := by assumption) : LT (parseDateRaw s) s := by
  unfold parseDateRaw; res_auto
res_use (parseDateRaw_strict _)

theorem parseDate_strict (s) (he : s.eof = false := by assumption) : LT (parseDate s) s := by
  unfold parseDate; res_auto

theorem parseTimeRaw_strict (fuel : Nat) (s) (he : s.eof = false := by assumption) :
    LT (parseTimeRaw fuel s) s := by
  unfold parseTimeRaw; res_auto
res_use (parseTimeRaw_strict _ _)

theorem parseTime_strict (fuel : Nat) (s) (he : s.eof = false := by assumption) :
    LT (parseTime fuel s) s := by
  unfold parseTime; res_auto

theorem parseDateTime_strict (fuel : Nat) (s) (he : s.eof = false := by assumption) :
    LT (parseDateTime fuel s) s := by
  unfold parseDateTime; res_auto

/-! ### `parse_number_date_time` -/

/-- successful look-ahead leaves `cur`, `eof` and the number of unconsumed bytes alone -/
theorem isPartialDate_keep {s s' : Scan} {b : Bool} (h : isPartialDate s = .ok (b, s')) :
    s'.remaining = s.remaining ∧ s'.eof = s.eof ∧ s'.cur = s.cur := by
  unfold isPartialDate at h
  split at h
  · cases h
  next a s1 h1 =>
  have k1 := peek_some h1
  split at h
  · cases h; exact k1
  split at h
  · cases h
  next b s2 h2 =>
  have k2 := peek_some h2
  split at h
  · cases h; exact ⟨by omega, by rw [k2.2.1, k1.2.1], by rw [k2.2.2, k1.2.2]⟩
  split at h
  · cases h
  next c s3 h3 =>
  have k3 := peek_some h3
  split at h
  · cases h; exact ⟨by omega, by rw [k3.2.1, k2.2.1, k1.2.1], by rw [k3.2.2, k2.2.2, k1.2.2]⟩
  split at h
  · cases h
  next d s4 h4 =>
  have k4 := peek_some h4
  split at h
  · cases h; exact ⟨by omega, by rw [k4.2.1, k3.2.1, k2.2.1, k1.2.1], by rw [k4.2.2, k3.2.2, k2.2.2, k1.2.2]⟩
  split at h
  · cases h
  next e s5 h5 =>
  have k5 := peek_some h5
  cases h
  exact ⟨by omega, by rw [k5.2.1, k4.2.1, k3.2.1, k2.2.1, k1.2.1], by rw [k5.2.2, k4.2.2, k3.2.2, k2.2.2, k1.2.2]⟩

theorem parseNumberDateTime_strict (fuel : Nat) (s) (he : s.eof = false)
    (hd : (isDigitB s.cur || s.cur == 45) = true) : LT (parseNumberDateTime fuel s) s := by
  unfold parseNumberDateTime
  have h0 := mu_not_eof he
  refine Res.Sat.ite_intro (fun hc => ?_) (fun hc => ?_)
  · -- `-`: one look-ahead, then `-INF` or a number
    split
    · exact Res.Sat.err_intro
    · next nx s1 hp =>
      have k := peek_some hp
      have km := peek_mu_some hp
      have he1 : s1.eof = false := by rw [k.2.1, he]
      have hc1 : (s1.isDigit || s1.cur == 95 || s1.cur == 46 || s1.cur == 45) = true := by
        simp only [k.2.2, hc, Bool.or_true]
      refine Res.Sat.ite_intro (fun _ => ?_) (fun _ => ?_)
      · res_from (parseNegInf_strict s1)
      · res_from (parseNumber_strict fuel s1)
  · have hdig : isDigitB s.cur = true := by
      simp only [Bool.or_eq_true] at hd
      rcases hd with hd | hd
      · exact hd
      · exact absurd hd hc
    split
    next count s1 hp =>
    have h1 := ndtPeeks_spec _ _ _ _ _ _ hp
    have h2 := mu_reset s1
    have hcur : ∀ s2 : Scan, s2.cur = s.cur →
        (s2.isDigit || s2.cur == 95 || s2.cur == 46 || s2.cur == 45) = true := by
      intro s2 e; simp only [isDigit, e, hdig, Bool.true_or]
    refine Res.Sat.ite_intro (fun hc1 => ?_) (fun hc1 => ?_)
    · res_from (parseNumber_strict fuel { s1 with eof := false } rfl (hcur _ h1.2.1))
    · have he1 : s1.eof = false := by simpa using hc1
      have hm1 := mu_not_eof he1
      refine Res.Sat.ite_intro (fun _ => ?_) (fun _ => ?_)
      · split
        · next t s2 heq =>
          have := (parseTime_strict fuel s1).post heq
          refine Res.Sat.ok_intro ?_
          dsimp only at this ⊢; omega
        · exact Res.Sat.err_intro
        · next heq => exact ((parseTime_spec fuel s1).ne_panic heq).elim
        · exact Nat.le_refl _
        · next heq => exact ((parseTime_spec fuel s1).ne_depth heq).elim
      · refine Res.Sat.ite_intro (fun _ => ?_) (fun _ => ?_)
        · split
          · -- partial date seen
            next s2 heq =>
            have k2 := isPartialDate_keep heq
            have he2 : s2.eof = false := by rw [k2.2.1, he1]
            split
            · next p s3 hp3 =>
              have k3 := peek_some hp3
              have he3 : s3.eof = false := by rw [k3.2.1, he2]
              have hm3 := mu_not_eof he3
              refine Res.Sat.ite_intro (fun _ => ?_) (fun _ => ?_)
              · split
                · next d s4 hd4 =>
                  have := (parseDate_strict s3).post hd4
                  refine Res.Sat.ok_intro ?_
                  dsimp only at this ⊢; omega
                · exact Res.Sat.err_intro
              · res_from (parseDateTime_strict fuel s3)
            · next s3 hp3 =>
              have k3 := peek_none hp3
              have hm3 := mu_eof k3.2.1
              split
              · next d s4 hd4 =>
                have := (parseDate_spec s3).post hd4
                refine Res.Sat.ok_intro ?_
                dsimp only at this ⊢; omega
              · exact Res.Sat.err_intro
          · next s2 heq =>
            have k2 := isPartialDate_keep heq
            have he2 : s2.eof = false := by rw [k2.2.1, he1]
            have hm2 := mu_not_eof he2
            res_from (parseNumber_strict fuel s2 he2 (hcur _ (by rw [k2.2.2, h1.2.1])))
          · exact Res.Sat.err_intro
        · res_from (parseNumber_strict fuel s1 he1 (hcur _ h1.2.1))

/-! ### `Lexer::read` -/

/-- progress: a token read while the scanner is not at the end of the input consumes at least one byte -/
theorem lexRead_strict (fuel : Nat) (s) (he : s.eof = false) :
    (lexRead fuel s).Sat 0 0 (fun l => l.sc.mu < s.mu) := by
  cases fuel with
  | zero => exact Nat.le_refl _
  | succ n =>
    rw [lexRead]
    simp only [he, Bool.false_eq_true, if_false]
    refine Res.Sat.ite_intro (fun hc => ?_) (fun hc => ?_)
    · have hs : s.isSpace = true := by simpa [isSpace] using hc
      split
      · next s' heq =>
        have := consumeSpaces_strict hs he heq
        res_from (lexRead_spec n s')
      · exact Res.Sat.err_intro
      · next heq => exact ((consumeSpaces_spec _ _).ne_panic heq).elim
      · exact Nat.le_refl _
      · next heq => exact ((consumeSpaces_spec _ _).ne_depth heq).elim
    refine Res.Sat.ite_intro (fun hc => ?_) (fun hc => ?_)
    · split
      · next v s' heq => exact (parseStr_strict n s).post heq
      · exact Res.Sat.err_intro
      · next heq => exact ((parseStr_spec _ _).ne_panic heq).elim
      · exact Nat.le_refl _
      · next heq => exact ((parseStr_spec _ _).ne_depth heq).elim
    refine Res.Sat.ite_intro (fun hc => ?_) (fun hc => ?_)
    · split
      · next v s' heq => exact (parseUri_strict n s).post heq
      · exact Res.Sat.err_intro
      · next heq => exact ((parseUri_spec _ _).ne_panic heq).elim
      · exact Nat.le_refl _
      · next heq => exact ((parseUri_spec _ _).ne_depth heq).elim
    refine Res.Sat.ite_intro (fun hc => ?_) (fun hc => ?_)
    · split
      · next v s' heq => exact (parseRef_strict n s).post heq
      · exact Res.Sat.err_intro
      · next heq => exact ((parseRef_spec _ _).ne_panic heq).elim
      · exact Nat.le_refl _
      · next heq => exact ((parseRef_spec _ _).ne_depth heq).elim
    refine Res.Sat.ite_intro (fun hc => ?_) (fun hc => ?_)
    · split
      · next v s' heq => exact (parseSymbol_strict n s).post heq
      · exact Res.Sat.err_intro
      · next heq => exact ((parseSymbol_spec _ _).ne_panic heq).elim
      · exact Nat.le_refl _
      · next heq => exact ((parseSymbol_spec _ _).ne_depth heq).elim
    refine Res.Sat.ite_intro (fun hc => ?_) (fun hc => ?_)
    · -- special characters
      split
      · next nx s1 hr =>
        have := read_mu_some hr
        refine Res.Sat.ite_intro (fun _ => ?_) (fun _ => ?_)
        · refine Res.Sat.ok_intro ?_
          have := advance_mu s1
          show s1.advance.mu < s.mu
          omega
        · exact Res.Sat.ok_intro this
      · next s1 hr =>
        exact Res.Sat.ok_intro ((read_mu_none hr).2.1 he)
    refine Res.Sat.ite_intro (fun hc => ?_) (fun hc => ?_)
    · split
      · next v s' heq => exact (parseNumberDateTime_strict n s he hc).post heq
      · exact Res.Sat.err_intro
      · next heq => exact ((parseNumberDateTime_spec _ _).ne_panic heq).elim
      · exact Nat.le_refl _
      · next heq => exact ((parseNumberDateTime_spec _ _).ne_depth heq).elim
    refine Res.Sat.ite_intro (fun hc => ?_) (fun hc => ?_)
    · have hc' : (s.isAlphaNum || s.cur == 95) = true := by
        simp only [isAlphaNum, isUpper, hc, Bool.or_true, Bool.true_or]
      res_auto
    refine Res.Sat.ite_intro (fun hc => ?_) (fun hc => ?_)
    · split
      · next v s' heq => exact (parseId_strict n s).post heq
      · exact Res.Sat.err_intro
      · next heq => exact ((parseId_spec _ _).ne_panic heq).elim
      · exact Nat.le_refl _
      · next heq => exact ((parseId_spec _ _).ne_depth heq).elim
    · exact Res.Sat.err_intro

/-- `Tok.none` is the end-of-input token -/
theorem lexRead_tokNone : ∀ fuel s, (lexRead fuel s).Sat 0 0 (fun l => l.tok = .none → l.sc.eof = true) := by
  intro fuel
  induction fuel with
  | zero => intro s; exact Nat.le_refl _
  | succ n ih =>
    intro s
    rw [lexRead]
    refine Res.Sat.ite_intro (fun he => ?_) (fun he => ?_)
    · exact Res.Sat.ok_intro (fun _ => he)
    have he' : s.eof = false := by simpa using he
    dsimp only
    refine Res.Sat.ite_intro (fun hc => ?_) (fun hc => ?_)
    · split
      · exact ih _
      · exact Res.Sat.err_intro
      · next heq => exact ((consumeSpaces_spec _ _).ne_panic heq).elim
      · exact Nat.le_refl _
      · next heq => exact ((consumeSpaces_spec _ _).ne_depth heq).elim
    · res_auto

/-- at the end of the input `read` returns `Tok.none` and leaves the scanner alone -/
theorem lexRead_at_eof (fuel : Nat) (s) (he : s.eof = true) :
    lexRead (fuel + 1) s = .ok { sc := s, tok := .none } := by
  rw [lexRead]; simp only [he, if_true]

end Zinc
end Hs
