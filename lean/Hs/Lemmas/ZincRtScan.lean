/-
  Scanner normal form for C01: `At s rest` — the scanner `s` is positioned at `rest` (the current
  byte is the head of `rest`, the unread bytes — peek stash first, then the reader — are its tail;
  at the end of the input the `is_eof` flag is up and nothing is unread).
-/
import Hs.Model.Scan
import Hs.Lemmas.ZincRtUtf8
namespace Hs
open Hs Hs.Scan

/-- scanner positioned at `rest` -/
def At (s : Scan) : List UInt8 → Prop
  | [] => s.eof = true ∧ s.stash = [] ∧ s.inp = []
  | b :: r => s.eof = false ∧ s.cur = b ∧ s.stash ++ s.inp = r

/-- the normal form produced by `Scanner::make` and by reads that used up the stash -/
def Scan.at (b : UInt8) (rest : List UInt8) (lp : UInt8) (pos : Nat) : Scan :=
  { cur := b, stash := [], lastPeek := lp, eof := false, inp := rest, pos := pos }

theorem At_at (b : UInt8) (rest : List UInt8) (lp : UInt8) (pos : Nat) : At (Scan.at b rest lp pos) (b :: rest) := by
  simp [At, Scan.at]

theorem make_cons (b : UInt8) (r : List UInt8) : Scan.make (b :: r) = Scan.at b r 0xFF 0 := rfl

theorem At_make (b : UInt8) (r : List UInt8) : At (Scan.make (b :: r)) (b :: r) := by
  rw [make_cons]; exact At_at ..

namespace At
variable {s : Scan} {b c : UInt8} {r : List UInt8}

theorem eof (h : At s (b :: r)) : s.eof = false := h.1
theorem cur (h : At s (b :: r)) : s.cur = b := h.2.1
theorem unread (h : At s (b :: r)) : s.stash ++ s.inp = r := h.2.2
theorem eof_nil (h : At s []) : s.eof = true := h.1

/-- `advance` moves to the next byte, or raises the end-of-input flag -/
theorem advance (h : At s (b :: r)) : At s.advance r := by
  obtain ⟨he, hc, hu⟩ := h
  unfold Scan.advance Scan.read
  cases hs : s.stash with
  | cons x xs =>
    rw [hs] at hu
    cases r with
    | nil => simp at hu
    | cons y ys =>
      simp at hu
      simp [At, he, hu.1, hu.2]
  | nil =>
    rw [hs] at hu
    simp at hu
    unfold Scan.readByte
    cases r with
    | nil => simp [hu, At, hs]
    | cons y ys => simp [hu, At, hs, he]

theorem advance_stash (s : Scan) : s.advance.stash = s.stash.tail := by
  unfold Scan.advance Scan.read
  cases hs : s.stash with
  | cons x xs => simp
  | nil =>
    unfold Scan.readByte
    cases s.inp <;> simp [hs]

theorem advance_pos_le (s : Scan) : s.pos ≤ s.advance.pos := by
  unfold Scan.advance Scan.read
  cases hs : s.stash with
  | cons x xs => simp
  | nil =>
    unfold Scan.readByte
    cases s.inp <;> simp

theorem advance_pos (h : At s (b :: c :: r)) : s.advance.pos = s.pos + 1 := by
  obtain ⟨he, hc, hu⟩ := h
  unfold Scan.advance Scan.read
  cases hs : s.stash with
  | cons x xs => simp
  | nil =>
    rw [hs] at hu
    simp at hu
    unfold Scan.readByte
    simp [hu]

theorem advance_lastPeek (s : Scan) : s.advance.lastPeek = s.lastPeek := by
  unfold Scan.advance Scan.read
  cases hs : s.stash with
  | cons x xs => simp
  | nil =>
    unfold Scan.readByte
    cases s.inp <;> simp

/-- a successful `read` is `advance` -/
theorem read (h : At s (b :: c :: r)) : s.read = (some c, s.advance) := by
  obtain ⟨he, hc, hu⟩ := h
  unfold Scan.advance Scan.read
  cases hs : s.stash with
  | cons x xs =>
    rw [hs] at hu; simp at hu
    simp [hu.1]
  | nil =>
    rw [hs] at hu
    simp at hu
    unfold Scan.readByte
    simp [hu]

theorem read_last (h : At s [b]) : s.read = (none, s.advance) := by
  obtain ⟨he, hc, hu⟩ := h
  simp at hu
  unfold Scan.advance Scan.read
  rw [hu.1]
  unfold Scan.readByte
  simp [hu.2]

theorem readQ (h : At s (b :: c :: r)) : s.readQ = .ok s.advance := by
  unfold Scan.readQ; rw [h.read]

/-- the `k+1`-th peek looks `k+1` bytes ahead -/
theorem peek_some (h : At s (b :: r)) {k : Nat} (hk : s.stash.length = k) (hc : r[k]? = some c) :
    s.peek.1 = some c ∧ At s.peek.2 (b :: r) ∧ s.peek.2.stash.length = k + 1 ∧ s.peek.2.lastPeek = c
      ∧ s.peek.2.pos = s.pos := by
  obtain ⟨he, hcu, hu⟩ := h
  have hi : s.inp = r.drop k := by
    rw [← hu, ← hk]; simp
  have hr : r.drop k = c :: r.drop (k + 1) := by
    rw [List.getElem?_eq_some_iff] at hc
    obtain ⟨hlt, hc⟩ := hc
    rw [← hc]; exact List.drop_eq_getElem_cons hlt
  have hfin : s.stash ++ (c :: r.drop (k + 1)) = r := by rw [← hr, ← hi, hu]
  unfold Scan.peek Scan.readByte
  rw [hi, hr]
  simp [At, he, hcu, hk]
  exact hfin

theorem peek_none (h : At s (b :: r)) (hk : s.stash.length = r.length) :
    s.peek = (none, { s with eof := true }) := by
  obtain ⟨he, hcu, hu⟩ := h
  have hi : s.inp = [] := by
    have : (s.stash ++ s.inp).length = r.length := by rw [hu]
    simp at this
    exact List.eq_nil_of_length_eq_zero (by omega)
  unfold Scan.peek Scan.readByte
  rw [hi]

end At

/-- `n` times `advance` -/
def advN : Nat → Scan → Scan
  | 0, s => s
  | n + 1, s => advN n s.advance

theorem At.advN {bs : List UInt8} : ∀ {s : Scan} {r : List UInt8}, At s (bs ++ r) → At (advN bs.length s) r := by
  induction bs with
  | nil => intro s r h; simpa [Hs.advN] using h
  | cons b bs ih => intro s r h; simp only [List.length_cons, Hs.advN]; exact ih (At.advance h)

theorem advN_pos_le (n : Nat) : ∀ s : Scan, s.pos ≤ (advN n s).pos := by
  induction n with
  | zero => intro s; exact Nat.le_refl _
  | succ n ih => intro s; exact Nat.le_trans (At.advance_pos_le s) (ih _)

theorem advN_stash (n : Nat) : ∀ s : Scan, (advN n s).stash = s.stash.drop n := by
  induction n with
  | zero => intro s; simp [Hs.advN]
  | succ n ih =>
    intro s
    simp only [Hs.advN]
    rw [ih, At.advance_stash]
    cases s.stash <;> simp

theorem advN_stash_nil (n : Nat) : ∀ s : Scan, s.stash = [] → (advN n s).stash = [] := by
  induction n with
  | zero => intro s h; exact h
  | succ n ih => intro s h; exact ih _ (by rw [At.advance_stash, h]; rfl)

/-- after the last byte `cur` keeps its (stale) value -/
theorem At.advance_cur_last {s : Scan} {b : UInt8} (h : At s [b]) : s.advance.cur = b := by
  obtain ⟨he, hc, hu⟩ := h
  simp at hu
  unfold Scan.advance Scan.read
  rw [hu.1]
  unfold Scan.readByte
  simp [hu.2, hc]

theorem advN_cur_last {bs : List UInt8} : ∀ {s : Scan} (b : UInt8), At s (bs ++ [b]) →
    (advN (bs.length + 1) s).cur = b := by
  induction bs with
  | nil => intro s b h; simp only [List.length_nil, Hs.advN]; exact At.advance_cur_last (by simpa using h)
  | cons x xs ih =>
    intro s b h
    simp only [List.length_cons, Hs.advN]
    exact ih b (At.advance (by simpa using h))

theorem consumeSpaces_none {s : Scan} (h : s.isSpace = false) (fuel : Nat) :
    Scan.consumeSpaces (fuel + 1) s = .ok s := by
  rw [Scan.consumeSpaces]; simp [h]

/-- with an empty stash `peek` shows the byte after the current one -/
theorem At.peek0 {s : Scan} {b c : UInt8} {r : List UInt8} (h : At s (b :: c :: r)) (hs : s.stash = []) :
    s.peek.1 = some c ∧ At s.peek.2 (b :: c :: r) ∧ s.peek.2.stash.length = 1 ∧ s.peek.2.lastPeek = c
      ∧ s.peek.2.pos = s.pos :=
  h.peek_some (k := 0) (by simp [hs]) (by simp)

theorem At.peek0' {s : Scan} {b c : UInt8} {r : List UInt8} (h : At s (b :: c :: r)) (hs : s.stash = []) :
    ∃ s1, s.peek = (some c, s1) ∧ At s1 (b :: c :: r) ∧ s1.stash.length = 1 ∧ s1.lastPeek = c ∧ s1.pos = s.pos := by
  obtain ⟨p1, p2, p3, p4, p5⟩ := h.peek0 hs
  exact ⟨s.peek.2, Prod.ext p1 rfl, p2, p3, p4, p5⟩

theorem At.peek_some' {s : Scan} {b c : UInt8} {r : List UInt8} (h : At s (b :: r)) {k : Nat}
    (hk : s.stash.length = k) (hc : r[k]? = some c) :
    ∃ s1, s.peek = (some c, s1) ∧ At s1 (b :: r) ∧ s1.stash.length = k + 1 ∧ s1.lastPeek = c ∧ s1.pos = s.pos := by
  obtain ⟨p1, p2, p3, p4, p5⟩ := h.peek_some hk hc
  exact ⟨s.peek.2, Prod.ext p1 rfl, p2, p3, p4, p5⟩

/-- after a byte is consumed a stash of at most one byte is empty -/
theorem advance_stash_nil {s : Scan} (h : s.stash.length ≤ 1) : s.advance.stash = [] := by
  rw [At.advance_stash]
  cases hs : s.stash with
  | nil => rfl
  | cons x xs => rw [hs] at h; simp at h; simp [h]

end Hs
