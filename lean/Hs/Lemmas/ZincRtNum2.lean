/-
  C01 ladder, rung 4c: `parse_number_date_time` and the lexer on a finite number (the look-ahead rules for
  time `dd:` and date `dddd-` do not fire on a decimal text), and on `-INF`.
-/
import Hs.Lemmas.ZincRtNum
namespace Hs.Zinc
open Hs Hs.Scan

theorem eq_at_of_At {s : Scan} {b : UInt8} {r : List UInt8} (h : At s (b :: r)) (hs : s.stash = []) :
    s = pk b r s.lastPeek s.pos 0 := by
  obtain ⟨he, hc, hu⟩ := h
  rw [hs] at hu
  simp only [List.nil_append] at hu
  cases s
  simp_all [pk]

/-- a decimal text as the reader needs it: digits, `.` and `-` only, accepted by `f64::from_str`
(`validDecimal`), starting with a digit or `-`, no `-` further on.  Rust's `Display for f64` prints finite
values as `-?d+(.d+)?`, which satisfies this. -/
def numBytesOk (tb : List UInt8) : Bool :=
  tb.all isNumB && validDecimal tb && tb.tail.all (· != 45) &&
    (match tb with
     | b :: _ => isDigitB b || b == 45
     | [] => false)

/-- what follows the decimal text: nothing, or a byte that is neither a digit nor `:` nor `-` -/
def AfterDec (U : List UInt8) : Prop := ∀ x r, U = x :: r → isDigitB x = false ∧ x ≠ 58 ∧ x ≠ 45

theorem digits_within (tb U : List UInt8) (hU : AfterDec U) (k : Nat) (hd : DigitsTo (tb ++ U) k) :
    k ≤ tb.length := by
  by_cases hk : k ≤ tb.length
  · exact hk
  · exfalso
    obtain ⟨x, hx, hdx⟩ := hd tb.length (by omega)
    rw [List.getElem?_append_right (Nat.le_refl _)] at hx
    simp only [Nat.sub_self] at hx
    cases U with
    | nil => simp at hx
    | cons y r =>
      simp only [List.getElem?_cons_zero, Option.some.injEq] at hx
      subst hx
      have := (hU _ r rfl).1
      rw [this] at hdx; cases hdx

theorem num_not_colon : ∀ b : UInt8, (!isNumB b || b != 58) = true :=
  all_u8 (fun b => (!isNumB b || b != 58)) (by decide +kernel)

/-- the byte at a position `1 ≤ k ≤ |tb|` of `tb ++ U` is neither `:` nor `-` -/
theorem byte_after_digits (tb U : List UInt8) (hnum : ∀ b ∈ tb, isNumB b = true)
    (htail : ∀ b ∈ tb.tail, b ≠ 45) (hU : AfterDec U) (k : Nat) (h1 : 1 ≤ k) (h2 : k ≤ tb.length) (x : UInt8)
    (hx : (tb ++ U)[k]? = some x) : x ≠ 58 ∧ x ≠ 45 := by
  by_cases hk : k < tb.length
  · rw [List.getElem?_append_left hk] at hx
    have hmem : x ∈ tb := List.mem_of_getElem? hx
    have hmem' : x ∈ tb.tail := by
      cases tb with
      | nil => simp at hk
      | cons t0 ts =>
        obtain ⟨j, rfl⟩ : ∃ j, k = j + 1 := ⟨k - 1, by omega⟩
        simp only [List.getElem?_cons_succ] at hx
        exact List.mem_of_getElem? hx
    refine ⟨?_, htail x hmem'⟩
    have := num_not_colon x
    simpa [hnum x hmem] using this
  · have : k = tb.length := by omega
    subst this
    rw [List.getElem?_append_right (Nat.le_refl _)] at hx
    simp only [Nat.sub_self] at hx
    cases U with
    | nil => simp at hx
    | cons y r =>
      simp only [List.getElem?_cons_zero, Option.some.injEq] at hx
      subst hx
      exact (hU _ r rfl).2

/-- `parse_number_date_time` on a decimal text hands over to `parse_number` without consuming anything -/
theorem ndt_number (tb : List UInt8) (hok : numBytesOk tb = true) (U : List UInt8) (hU : AfterDec U)
    (s : Scan) (fuel : Nat) (h : At s (tb ++ U)) (hs : s.stash = []) :
    ∃ s', parseNumberDateTime fuel s = parseNumber fuel s' ∧ At s' (tb ++ U) ∧ s'.stash.length ≤ tb.length := by
  simp only [numBytesOk, Bool.and_eq_true, List.all_eq_true, bne_iff_ne, ne_eq] at hok
  obtain ⟨⟨⟨hnum, hvalid⟩, htail⟩, hfirst⟩ := hok
  cases tb with
  | nil => simp at hfirst
  | cons b0 tb' =>
    simp only [List.cons_append] at h
    simp only [List.tail_cons] at htail
    by_cases hminus : b0 = 45
    · -- a sign: one peek, the byte after it is not `I`
      subst hminus
      cases tb' with
      | nil => exact absurd hvalid (by decide)
      | cons b1 tb'' =>
        simp only [List.cons_append] at h
        obtain ⟨s1, e1, hat1, hs1, _, _⟩ := h.peek0' hs
        have hb1 : b1 ≠ 73 := by
          have := hnum b1 (by simp)
          intro e; subst e; revert this; decide
        refine ⟨s1, ?_, by simpa using hat1, by simp [hs1]⟩
        unfold parseNumberDateTime
        simp [h.cur, e1, hb1]
    · -- a digit: up to four peeks
      have hdig : isDigitB b0 = true := by
        simp only [Bool.or_eq_true, beq_iff_eq] at hfirst
        rcases hfirst with h' | h'
        · exact h'
        · exact absurd h' hminus
      have hseq := eq_at_of_At h hs
      generalize s.lastPeek = lp at hseq
      generalize s.pos = pos at hseq
      subst hseq
      obtain ⟨k', c', _, hk2, hk3, hdk, hres⟩ := ndtPeeks_pk b0 (tb' ++ U) lp pos 4 0 0 b0 (Nat.zero_le _) rfl
        (by intro i hi; omega)
      have hwithin : k' ≤ (b0 :: tb').length := digits_within (b0 :: tb') U hU k' (by simpa using hdk)
      have hcur : (pk b0 (tb' ++ U) lp pos 0).cur = b0 := rfl
      have hne45 : (b0 == 45) = false := by simpa using hminus
      refine ⟨pk b0 (tb' ++ U) lp pos k', ?_, At_pk _ _ _ _ _, by rw [pk_stash_length _ _ _ _ _ hk2]; exact hwithin⟩
      unfold parseNumberDateTime
      simp only [hcur, hne45, Bool.false_eq_true, if_false]
      rcases hres with ⟨e, hc⟩ | ⟨e, _, _⟩
      · rw [e]
        have hc' : c' = k' := by omega
        subst hc'
        have heof : (pk b0 (tb' ++ U) lp pos c').eof = false := rfl
        have hlp : ∀ (hk : 1 ≤ c'), (pk b0 (tb' ++ U) lp pos c').lastPeek ≠ 58 ∧
            (pk b0 (tb' ++ U) lp pos c').lastPeek ≠ 45 := by
          intro hk
          have hz : c' ≠ 0 := by omega
          simp only [pk, hz, if_false]
          cases hx : (tb' ++ U)[c' - 1]? with
          | none => simp
          | some x =>
            have hx' : ((b0 :: tb') ++ U)[c']? = some x := by
              obtain ⟨j, rfl⟩ : ∃ j, c' = j + 1 := ⟨c' - 1, by omega⟩
              simpa using hx
            simpa using byte_after_digits (b0 :: tb') U hnum (by simpa using htail) hU c' hk hwithin x hx'
        simp only [heof, Bool.false_eq_true, if_false]
        by_cases h2 : c' = 2
        · have := (hlp (by omega)).1
          subst h2
          simp [this]
        · by_cases h4 : c' = 4
          · have := (hlp (by omega)).2
            subst h4
            simp [this]
          · simp [h2, h4]
      · rw [e]
        simp
        rfl


/-! ### the lexer on a number -/

theorem num_dispatch : ∀ b : UInt8, (!(isDigitB b || b == 45) || (b != 32 && b != 9 && b != 34 && b != 96
    && b != 64 && b != 94 && !isSpecial b)) = true :=
  all_u8 (fun b => (!(isDigitB b || b == 45) || (b != 32 && b != 9 && b != 34 && b != 96
    && b != 64 && b != 94 && !isSpecial b))) (by decide +kernel)

/-- `lexRead` on a byte that starts a number, date or time -/
theorem lexRead_ndt {s : Scan} {b : UInt8} {r : List UInt8} (h : At s (b :: r))
    (hb : (isDigitB b || b == 45) = true) (fuel : Nat) :
    lexRead (fuel + 1) s =
      (match parseNumberDateTime fuel s with
       | .ok (v, s') => .ok { sc := s', tok := .val v }
       | .err => .err | .panic => .panic | .diverge => .diverge | .depth => .depth) := by
  have hd := num_dispatch b
  simp only [hb, Bool.not_true, Bool.false_or, Bool.and_eq_true, bne_iff_ne, ne_eq,
    Bool.not_eq_eq_eq_not] at hd
  obtain ⟨⟨⟨⟨⟨⟨d1, d2⟩, d3⟩, d4⟩, d5⟩, d6⟩, d7⟩ := hd
  simp only [Bool.or_eq_true, beq_iff_eq] at hb
  rw [lexRead]
  simp only [h.eof, h.cur]
  simp [d1, d2, d3, d4, d5, d6, d7, hb]
  rfl

theorem unit_afterdec : ∀ b : UInt8, (!isUnitB b || (!isDigitB b && b != 58 && b != 45)) = true :=
  all_u8 (fun b => (!isUnitB b || (!isDigitB b && b != 58 && b != 45))) (by decide +kernel)

theorem afterDec_unit_rest (uo : Option (List Char)) (hu : unitOk uo = true) (rest : List UInt8) (hd : Delim rest) :
    AfterDec (unitBytes uo ++ rest) := by
  intro x r hx
  cases uo with
  | none =>
    simp only [unitBytes, List.nil_append] at hx
    rcases hd with rfl | ⟨b, r', rfl, hb⟩ | ⟨y, r', rfl, _⟩
    · cases hx
    · cases hx; rcases hb with rfl | rfl | rfl | rfl <;> decide
    · cases hx; decide
  | some u =>
    simp only [unitOk, Bool.and_eq_true, Bool.not_eq_eq_eq_not, Bool.not_true, List.isEmpty_eq_false_iff,
      List.all_eq_true] at hu
    simp only [unitBytes] at hx
    cases hub : encChars u with
    | nil => exact absurd hub hu.1.1.1.1
    | cons b0 ub' =>
      rw [hub] at hx
      simp only [List.cons_append, List.cons.injEq] at hx
      have hb0 : isUnitB b0 = true := hu.1.1.1.2 b0 (by rw [hub]; simp)
      have := unit_afterdec b0
      rw [← hx.1]
      simp only [hb0, Bool.not_true, Bool.false_or, Bool.and_eq_true, bne_iff_ne, ne_eq,
        Bool.not_eq_eq_eq_not] at this
      exact ⟨this.1.1, this.1.2, this.2⟩

/-- the lexer on a finite number: decimal text, optional unit -/
theorem lexRead_num (tb : List UInt8) (hok : numBytesOk tb = true) (uo : Option (List Char)) (hu : unitOk uo = true)
    (s : Scan) (rest : List UInt8) (fuel : Nat) (h : At s (tb ++ (unitBytes uo ++ rest))) (hs : s.stash = [])
    (hd : Delim rest) (hf : tb.length + (unitBytes uo).length + 2 ≤ fuel) :
    ∃ s', lexRead fuel s = .ok { sc := s', tok := .val (mkNum tb none uo) } ∧ At s' rest ∧ s'.stash = [] := by
  obtain ⟨f, rfl⟩ : ∃ f, fuel = f + 1 := ⟨fuel - 1, by omega⟩
  obtain ⟨s1, e1, h1, hs1⟩ := ndt_number tb hok _ (afterDec_unit_rest uo hu rest hd) s f h hs
  have hok' := hok
  simp only [numBytesOk, Bool.and_eq_true, List.all_eq_true] at hok'
  obtain ⟨s', e', h', hs'⟩ := parseNumber_rt tb hok'.1.1.1 hok'.1.1.2 uo hu s1 rest f h1 hs1 hd (by omega)
  refine ⟨s', ?_, h', hs'⟩
  cases tb with
  | nil => simp at hok'
  | cons b0 tb' =>
    simp only [List.cons_append] at h
    rw [lexRead_ndt h hok'.2, e1, e']

/-- `-INF` -/
theorem lexRead_neginf (s : Scan) (rest : List UInt8) (fuel : Nat) (h : At s (45 :: 73 :: 78 :: 70 :: rest))
    (hs : s.stash = []) (hf : 2 ≤ fuel) :
    ∃ s', lexRead fuel s = .ok { sc := s', tok := .val (.num ⟨⟨negInfBits, "-inf".toList⟩, none⟩) } ∧
      At s' rest ∧ s'.stash = [] := by
  obtain ⟨f, rfl⟩ : ∃ f, fuel = f + 1 := ⟨fuel - 1, by omega⟩
  obtain ⟨s1, e1, h1, hs1, _, _⟩ := h.peek0' hs
  have h2 := h1.advance
  have h3 := h2.advance
  have h4 := h3.advance
  have hs2 : s1.advance.stash = [] := advance_stash_nil (by omega)
  refine ⟨s1.advance.advance.advance.advance, ?_, h4.advance, advN_stash_nil 3 _ hs2⟩
  rw [lexRead_ndt h (by decide)]
  unfold parseNumberDateTime
  simp only [h.cur, e1]
  unfold parseNegInf
  simp only [h1.cur]
  simp only [Scan.expectAndConsumeSeq, h2.cur, h2.read, h3.cur, h3.read, h4.cur]
  cases rest with
  | nil => rw [h4.read_last]; simp
  | cons x r => rw [h4.read]; simp [Scan.expectAndConsumeSeq]

end Hs.Zinc
