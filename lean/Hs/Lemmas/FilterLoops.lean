/-
  Termination of the two Ref-chasing evaluation loops (`Hs.Model.FilterLoops`): every pass that
  continues has just put a Ref that resolves — so one of the record set's ids — into the visited
  set for the first time.  Measure: ids of the record set not yet visited.
-/
import Hs.Model.FilterLoops
namespace Hs.FLoops
open Hs

/-- ids of `keys` not yet in the visited set (with multiplicity) -/
def unvisited : List RefId → List RefId → Nat
  | [], _ => 0
  | k :: ks, visited => (if visited.contains k then 0 else 1) + unvisited ks visited

theorem unvisited_le (keys visited : List RefId) (r : RefId) :
    unvisited keys (r :: visited) ≤ unvisited keys visited := by
  induction keys with
  | nil => simp [unvisited]
  | cons k ks ih =>
    simp only [unvisited, List.contains_cons]
    cases h1 : (k == r) <;> cases h2 : visited.contains k <;> simp <;> omega

theorem unvisited_lt (keys visited : List RefId) (r : RefId) (hk : r ∈ keys)
    (hv : visited.contains r = false) : unvisited keys (r :: visited) < unvisited keys visited := by
  induction keys with
  | nil => cases hk
  | cons k ks ih =>
    simp only [unvisited, List.contains_cons]
    by_cases hkr : k = r
    · subst hkr
      have := unvisited_le ks visited k
      have h1 : (k == k) = true := by simp
      simp only [h1, Bool.true_or, hv, if_true, Bool.false_eq_true, if_false]
      omega
    · have hk' : r ∈ ks := by
        cases hk with
        | head => exact absurd rfl hkr
        | tail _ h => exact h
      have ih' := ih hk'
      have : (k == r) = false := by simpa using hkr
      simp only [this, Bool.false_or]
      omega

theorem unvisited_le_length (keys visited : List RefId) : unvisited keys visited ≤ keys.length := by
  induction keys with
  | nil => simp [unvisited]
  | cons k ks ih => simp only [unvisited, List.length_cons]; split <;> omega

theorem resolveView_mem {recs : List RecView} {r : RefId} {rv : RecView}
    (h : resolveView recs r = some rv) : r ∈ viewIds recs := by
  unfold resolveView at h
  have hm := List.mem_of_find?_eq_some h
  have hp := List.find?_some h
  simp only [viewIds, List.mem_filterMap]
  exact ⟨rv, hm, by simpa using hp⟩

theorem resolveRec_mem {recs : List Rec} {r : RefId} {rc : Rec}
    (h : resolveRec recs r = some rc) : r ∈ recIds recs := by
  unfold resolveRec at h
  have hm := List.mem_of_find?_eq_some h
  have hp := List.find?_some h
  simp only [recIds, List.mem_filterMap]
  exact ⟨rc, hm, by simpa using hp⟩

theorem weqLoop_terminates (recs : List RecView) (target : RefId) :
    ∀ (fuel : Nat) (visited : List RefId) (v : Val),
      unvisited (viewIds recs) visited < fuel → weqLoop recs target fuel visited v ≠ .diverge := by
  intro fuel
  induction fuel with
  | zero => intro visited v h; omega
  | succ n ih =>
    intro visited v h
    unfold weqLoop
    split
    · rename_i cur dis
      split
      · simp
      · split
        · simp
        · rename_i hnv
          have hv : visited.contains cur = false := by simpa using hnv
          split
          · rename_i rv hrv
            have hlt := unvisited_lt (viewIds recs) visited cur (resolveView_mem hrv) hv
            split <;> apply ih <;> omega
          · simp
    · simp

theorem next_case {recs : List Rec} {q : List RefId} {sv : RefId} {new s : Rec} {rt rt' : Option RefId}
    {q' : List RefId} (hq : (!q.contains sv) = true) (hnew : resolveRec recs sv = some new)
    (h : Step.next new (sv :: q) rt = Step.next s q' rt') :
    unvisited (recIds recs) q' < unvisited (recIds recs) q := by
  simp only [Step.next.injEq] at h
  obtain ⟨_, hq', _⟩ := h
  rw [← hq']
  exact unvisited_lt (recIds recs) q sv (resolveRec_mem hnew) (by simpa using hq)

/-- a pass over the subject's tags that ends in `continue 'search` has shrunk the measure -/
theorem relInner_next (recs : List Rec) (tr hr : Bool) (id : Option RefId) :
    ∀ (es : List Entry) (q : List RefId) (rt : Option RefId) (s : Rec) (q' : List RefId) (rt' : Option RefId),
      relInner recs tr hr id es q rt = .next s q' rt' →
      unvisited (recIds recs) q' < unvisited (recIds recs) q := by
  intro es
  induction es with
  | nil => intro q rt s q' rt' h; simp [relInner] at h
  | cons e rest ih =>
    intro q rt s q' rt' h
    unfold relInner at h
    simp only at h
    repeat' split at h
    all_goals first
      | (simp at h; done)
      | exact ih _ _ _ _ _ h
      | exact Nat.lt_of_lt_of_le (ih _ _ _ _ _ h) (unvisited_le _ _ _)
      | exact next_case (by assumption) (by assumption) h

theorem relLoop_terminates (recs : List Rec) (tr hr : Bool) :
    ∀ (fuel : Nat) (subject : Rec) (q : List RefId) (rt : Option RefId),
      unvisited (recIds recs) q < fuel → relLoop recs tr hr fuel subject q rt ≠ .diverge := by
  intro fuel
  induction fuel with
  | zero => intro s q rt h; omega
  | succ n ih =>
    intro s q rt h
    unfold relLoop
    split
    · simp
    · simp
    · rename_i s' q' rt' hstep
      have := relInner_next recs tr hr s.id s.entries q rt s' q' rt' hstep
      apply ih; omega

end Hs.FLoops
