/-
  Hs.Lemmas.HaysonTotal — the tree-level decoder answers `ok` or `err`, never panic/diverge/depth.
-/
import Hs.Lemmas.HaysonVisit
namespace Hs.Hayson
open Hs

theorem OkOrErr.ok (v : Val) : OkOrErr (.ok v) := Or.inl ⟨v, rfl⟩
theorem OkOrErr.err : OkOrErr .err := Or.inr rfl

theorem unitStep_okOrErr (n : Num) (ou : Option (List Char)) :
    OkOrErr (match ou with
      | some u => match Hs.Zinc.unitSymbol u with
        | some sym => .ok (.num { v := n.v, unit := some sym })
        | none => .err
      | none => .ok (.num n)) := by
  cases ou with
  | none => exact OkOrErr.ok _
  | some u =>
    simp only []
    cases Hs.Zinc.unitSymbol u with
    | none => exact OkOrErr.err
    | some sym => exact OkOrErr.ok _
theorem finish_okOrErr (kind : List Char) (d : List (List Char × Val)) : OkOrErr (finish kind d) := by
  unfold finish
  by_cases h1 : (kind == s "number") = true
  · rw [if_pos h1]
    generalize getStr d "val" = ov
    generalize getNum d "val" = on
    generalize getStr d "unit" = ou
    cases ov with
    | none =>
      cases on with
      | none => exact OkOrErr.err
      | some n => exact unitStep_okOrErr n ou
    | some t =>
      by_cases c1 : (t == s "INF") = true
      · simp only [c1, if_true]
        exact unitStep_okOrErr { v := mkFlt 0x7FF0000000000000 "inf", unit := none } ou
      · by_cases c2 : (t == s "-INF") = true
        · simp only [c1, c2, if_true]
          exact unitStep_okOrErr { v := mkFlt 0xFFF0000000000000 "-inf", unit := none } ou
        · by_cases c3 : (t == s "NaN") = true
          · simp only [c1, c2, c3, if_true]
            exact unitStep_okOrErr { v := mkFlt 0x7FF8000000000000 "NaN", unit := none } ou
          · simp only [c1, c2, c3]
            cases on with
            | none => exact OkOrErr.err
            | some n => exact unitStep_okOrErr n ou
  · rw [if_neg h1]
    by_cases h2 : (kind == s "ref") = true
    · rw [if_pos h2]
      split
      · exact OkOrErr.ok _
      · exact OkOrErr.err
    · rw [if_neg h2]
      repeat' split
      all_goals first | exact OkOrErr.ok _ | exact OkOrErr.err
theorem earlyReturn_okOrErr (ms : Members) (v : Val) : OkOrErr (earlyReturn ms v) := by
  cases ms
  · exact OkOrErr.ok _
  · exact OkOrErr.err
mutual
theorem fromJson_okOrErr : (j : Json) → OkOrErr (fromJson j)
  | .null => by simp [fromJson, OkOrErr]
  | .bool _ => by simp [fromJson, OkOrErr]
  | .int _ _ => by simp [fromJson, OkOrErr]
  | .flt _ => by simp [fromJson, OkOrErr]
  | .str _ => by simp [fromJson, OkOrErr]
  | .arr xs => by
    rw [fromJson]
    rcases seq_okOrErr xs with ⟨vs, h⟩ | h <;> simp [h, OkOrErr]
  | .obj ms => by
    rw [fromJson]
    exact visitMap_okOrErr ms [] []
theorem seq_okOrErr : (js : Jsons) → (∃ vs, seq js = .ok vs) ∨ seq js = .err
  | .nil => by simp [seq]
  | .cons j js => by
    rw [seq]
    rcases fromJson_okOrErr j with ⟨v, h⟩ | h
    · rcases seq_okOrErr js with ⟨vs, h2⟩ | h2 <;> simp [h, h2]
    · simp [h]
theorem visitMap_okOrErr : (ms : Members) → ∀ kind d, OkOrErr (visitMap ms kind d)
  | .nil, kind, d => by
    rw [visitMap]
    exact finish_okOrErr kind d
  | .cons k j ms, kind, d => by
    rw [visitMap]
    rcases fromJson_okOrErr j with ⟨v, h⟩ | h
    · simp only [h]
      split
      · split
        · repeat' split
          all_goals first | exact OkOrErr.ok _ | exact OkOrErr.err | exact earlyReturn_okOrErr _ _ | exact visitMap_okOrErr ms _ _
        · exact OkOrErr.err
      · exact visitMap_okOrErr ms _ _
    · simp [h, OkOrErr]
end

end Hs.Hayson
