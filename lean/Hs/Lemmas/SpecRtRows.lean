/-
  C04 (write direction), rung 5e: one row through `cells`, the row dict (`dictOf` of the cells in column order is the
  image of the row), all rows through `rows`.
-/
import Hs.Lemmas.SpecRtCols
namespace Hs.Spec
open Hs Hs.Zinc Hs.Scan

/-! ### the row dict -/

/-- the `(column, value)` pairs the reference reader collects for a row -/
def cellsOfS (r : Tags) (ns : List (List Char)) : List (List Char × Val) :=
  ns.filterMap (fun n => (r.get? n).map (fun v => (n, specImg v)))

theorem specImgT_toList : ∀ t : Tags, (specImgT t).toList = t.toList.map (fun p => (p.1, specImg p.2))
  | .nil => rfl
  | .cons k v t => by simp [specImgT, Tags.toList, specImgT_toList t]

theorem sortedKV_specImgT (r : Tags) (h : keysSorted r.keys = true) : SortedKV (specImgT r).toList := by
  unfold SortedKV
  rw [specImgT_toList, List.pairwise_map]
  have := keysSorted_pairwise r.keys h
  rw [← Tags.keys_toList, List.pairwise_map] at this
  exact this

theorem cellsOfS_perm (r : Tags) (names : List (List Char)) (hnames : names.Nodup)
    (hsub : ∀ k ∈ r.keys, k ∈ names) (hsort : keysSorted r.keys = true) :
    (cellsOfS r names).Perm (specImgT r).toList := by
  have hnd := keysSorted_nodup r.keys hsort
  have nd1 : (cellsOfS r names).Nodup := by
    unfold cellsOfS
    rw [List.nodup_iff_pairwise_ne, List.pairwise_filterMap]
    refine List.Pairwise.imp ?_ hnames
    intro a a' hne b hb b' hb' e
    simp only [Option.map_eq_some_iff] at hb hb'
    obtain ⟨v, _, rfl⟩ := hb
    obtain ⟨v', _, rfl⟩ := hb'
    simp only [Prod.mk.injEq] at e
    exact hne e.1
  have nd2 : (specImgT r).toList.Nodup := by
    have := sortedKV_specImgT r hsort
    refine List.Pairwise.imp ?_ this
    intro a b hab e
    subst e
    simp [ltKey] at hab
  rw [List.perm_ext_iff_of_nodup nd1 nd2]
  intro x
  obtain ⟨n, w⟩ := x
  simp only [cellsOfS, List.mem_filterMap, Option.map_eq_some_iff, Prod.mk.injEq, specImgT_toList, List.mem_map]
  constructor
  · rintro ⟨n', _, v, hget, rfl, rfl⟩
    exact ⟨(n', v), (get?_eq_some_iff r hnd n' v).mp hget, rfl, rfl⟩
  · rintro ⟨⟨n', v⟩, hmem, rfl, rfl⟩
    have hk : n' ∈ r.keys := by
      rw [← Tags.keys_toList]; exact List.mem_map.mpr ⟨(n', v), hmem, rfl⟩
    exact ⟨n', hsub n' hk, v, (get?_eq_some_iff r hnd n' v).mpr hmem, rfl, rfl⟩

/-- **the row is rebuilt** by the reference reader's `dictOf` -/
theorem dictOf_cellsOfS (r : Tags) (names : List (List Char)) (hnames : names.Nodup)
    (hsub : ∀ k ∈ r.keys, k ∈ names) (hsort : keysSorted r.keys = true) :
    Hs.Spec.dictOf (cellsOfS r names) = specImgT r := by
  rw [dictOf_eq, dictOf_perm _ _ (sortedKV_specImgT r hsort) (cellsOfS_perm r names hnames hsub hsort),
    Tags.ofList_toList]

/-! ### one row -/

theorem cells_step_empty (f : Nat) (c : UInt8) (r : In) (hc : c = 44 ∨ c = 10) (n : List Char)
    (ns : List (List Char)) (acc : List (List Char × Val)) :
    cells (f + 1) (c :: r) (n :: ns) acc =
      if c = 44 then (if ns.isEmpty then none else cells f r ns acc) else some (acc, r) := by
  rw [cells.eq_def]
  rcases hc with rfl | rfl
  · simp [skipWs_cons]
  · simp [skipWs_cons, nl]

theorem cells_step_val (f : Nat) (i : In) (hst : Start i) (v : Val) (c : UInt8) (r : In) (hc : c = 44 ∨ c = 10)
    (hv : value f i = some (v, c :: r)) (n : List Char) (ns : List (List Char)) (acc : List (List Char × Val)) :
    cells (f + 1) i (n :: ns) acc =
      if c = 44 then (if ns.isEmpty then none else cells f r ns (acc ++ [(n, v)])) else some (acc ++ [(n, v)], r) := by
  obtain ⟨b, t, rfl, hb⟩ := hst
  obtain ⟨h32, h9, h10, h13, h44, _⟩ := start_class hb
  rw [cells.eq_def]
  simp only [skipWs_cons h32 h9, hv]
  rcases hc with rfl | rfl
  · simp [skipWs_cons, h44, h10, h13]
  · simp [skipWs_cons, nl, h44, h10, h13]

/-- every present cell of the columns `ns` frames; in a single-column grid the cell is present -/
def CellsOkS (r : Tags) (ns : List (List Char)) (single : Bool) : Prop :=
  ∀ n ∈ ns, (∀ v, r.get? n = some v → Rd v) ∧ (single = true → r.get? n ≠ none)

theorem cellsOfS_cons_none {r : Tags} {n : List Char} (ns : List (List Char)) (h : r.get? n = none) :
    cellsOfS r (n :: ns) = cellsOfS r ns := by simp [cellsOfS, h]
theorem cellsOfS_cons_some {r : Tags} {n : List Char} {v : Val} (ns : List (List Char)) (h : r.get? n = some v) :
    cellsOfS r (n :: ns) = (n, specImg v) :: cellsOfS r ns := by simp [cellsOfS, h]

theorem cells_rt (r : Tags) (single : Bool) : ∀ (ns : List (List Char)), ns ≠ [] → CellsOkS r ns single →
    ∀ (fuel : Nat) (rest : List UInt8) (acc : List (List Char × Val)),
    (rowBytes r ns single).length + 3 ≤ fuel →
    cells fuel (rowBytes r ns single ++ 10 :: rest) ns acc = some (acc ++ cellsOfS r ns, rest) := by
  intro ns
  induction ns with
  | nil => intro h; exact absurd rfl h
  | cons n ns' ih =>
    intro _ hok fuel rest acc hf
    obtain ⟨f, rfl⟩ : ∃ f, fuel = f + 1 := ⟨fuel - 1, by omega⟩
    obtain ⟨hcell, hsingle⟩ := hok n (by simp)
    cases ns' with
    | nil =>
      simp only [rowBytes] at hf ⊢
      cases hget : r.get? n with
      | none =>
        have hsf : single = false := by
          cases single with
          | false => rfl
          | true => exact absurd hget (hsingle rfl)
        simp only [cellBytes, hget, hsf, Bool.false_eq_true, if_false, List.nil_append]
        rw [cells_step_empty f 10 rest (Or.inr rfl), cellsOfS_cons_none _ hget]
        simp [cellsOfS]
      | some v =>
        simp only [cellBytes, hget] at hf ⊢
        have hrd := hcell v hget
        have hv := hrd.2 f (10 :: rest) (Or.inr (Or.inl ⟨_, _, rfl, by simp⟩)) (by omega)
        have hst : Start (enc v true ++ 10 :: rest) := by
          obtain ⟨b, t, e, hb⟩ := hrd.1
          exact ⟨b, t ++ 10 :: rest, by rw [e]; simp, hb⟩
        rw [cells_step_val f _ hst _ 10 rest (Or.inr rfl) hv, cellsOfS_cons_some _ hget]
        simp [cellsOfS]
    | cons n2 ns'' =>
      have hok' : CellsOkS r (n2 :: ns'') single := fun x hx => hok x (by simp [hx])
      simp only [rowBytes, List.length_append, List.length_cons] at hf
      simp only [rowBytes, List.append_assoc, List.cons_append]
      cases hget : r.get? n with
      | none =>
        have hsf : single = false := by
          cases single with
          | false => rfl
          | true => exact absurd hget (hsingle rfl)
        simp only [cellBytes, hget, hsf, Bool.false_eq_true, if_false, List.nil_append, List.length_nil] at hf ⊢
        rw [← hsf] at hf ⊢
        rw [cells_step_empty f 44 _ (Or.inl rfl), cellsOfS_cons_none _ hget]
        simp only [if_true, List.isEmpty_cons, Bool.false_eq_true, if_false]
        exact ih (by simp) hok' f rest acc (by omega)
      | some v =>
        simp only [cellBytes, hget] at hf ⊢
        have hrd := hcell v hget
        have hv := hrd.2 f (44 :: (rowBytes r (n2 :: ns'') single ++ 10 :: rest))
          (Or.inr (Or.inl ⟨_, _, rfl, by simp⟩)) (by omega)
        have hst : Start (enc v true ++ 44 :: (rowBytes r (n2 :: ns'') single ++ 10 :: rest)) := by
          obtain ⟨b, t, e, hb⟩ := hrd.1
          exact ⟨b, t ++ 44 :: (rowBytes r (n2 :: ns'') single ++ 10 :: rest), by rw [e]; simp, hb⟩
        rw [cells_step_val f _ hst _ 44 _ (Or.inl rfl) hv, cellsOfS_cons_some _ hget]
        simp only [if_true, List.isEmpty_cons, Bool.false_eq_true, if_false]
        rw [ih (by simp) hok' f rest _ (by omega)]
        simp

end Hs.Spec
