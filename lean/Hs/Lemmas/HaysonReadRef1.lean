/-
  Hs.Lemmas.HaysonReadRef1 — the reference reader `Hs.Spec.Hayson.read` on objects whose members stand in any
  order: name lookup and the reader's dictionary (`dictOf`, insertion by `nameLe`) do not depend on the member
  order; fuel (`size`) bookkeeping; `readTags` on a list of members that are all readable.
-/
import Hs.Spec.HaysonRead
import Hs.Spec.HaysonDenote
import Hs.Lemmas.HaysonGrid
set_option linter.unusedSimpArgs false
namespace Hs.Spec.Hayson
open Hs Hs.Hayson

/-! ### member lookup by name -/

theorem find_key_of_perm {α : Type} {l₁ l₂ : List (List Char × α)} (h : l₁.Perm l₂)
    (nd : (l₁.map (·.1)).Nodup) (k : List Char) :
    l₁.find? (fun p => p.1 == k) = l₂.find? (fun p => p.1 == k) := by
  induction h with
  | nil => rfl
  | cons x _ ih =>
    simp only [List.map_cons, List.nodup_cons] at nd
    simp only [List.find?_cons]
    split
    · rfl
    · exact ih nd.2
  | swap x y l =>
    simp only [List.map_cons, List.nodup_cons, List.mem_cons, not_or] at nd
    simp only [List.find?_cons]
    by_cases hx : (x.1 == k) = true <;> by_cases hy : (y.1 == k) = true <;> simp [hx, hy]
    have : y.1 = x.1 := by
      have h1 : x.1 = k := by simpa using hx
      have h2 : y.1 = k := by simpa using hy
      rw [h1, h2]
    exact absurd this nd.1.1
  | trans h₁ _ ih₁ ih₂ =>
    rw [ih₁ nd]
    exact ih₂ ((h₁.map (·.1)).nodup_iff.1 nd)

/-- looking a member up by name in a reordering of `L` (distinct names) is looking it up in `L` -/
theorem lookup_of_perm {l L : Mems} (h : l.Perm L) (nd : (L.map (·.1)).Nodup) (k : String) :
    lookup l k = lookup L k := by
  unfold lookup
  have nd1 : (l.map (·.1)).Nodup := (h.map (·.1)).nodup_iff.2 nd
  have hr : l.reverse.Perm L.reverse := (List.reverse_perm l).trans (h.trans (List.reverse_perm L).symm)
  have ndr : (l.reverse.map (·.1)).Nodup := by
    rw [List.map_reverse]; exact (List.reverse_perm (l.map (·.1))).nodup_iff.2 nd1
  rw [find_key_of_perm hr ndr]

theorem lookup_none_of_not_mem (l : Mems) (k : String) (h : ∀ p ∈ l, p.1 ≠ s k) : lookup l k = none := by
  unfold lookup
  have : l.reverse.find? (fun p => p.1 == s k) = none := by
    rw [List.find?_eq_none]
    intro p hp
    simpa using h p (List.mem_reverse.mp hp)
  rw [this]; rfl

/-! ### the reader's key order is the decoder's -/

theorem nameLe_eq : ∀ a b : List Char, nameLe a b = leChars a b
  | [], _ => by simp [nameLe, leChars]
  | _ :: _, [] => by simp [nameLe, leChars]
  | a :: as, b :: bs => by
    simp only [nameLe, leChars, nameLe_eq as bs]

theorem insertTag_eq (k : List Char) (v : Val) :
    ∀ d : List (List Char × Val), Hs.Spec.Hayson.insertTag k v d = Hs.Hayson.insertTag k v d
  | [] => rfl
  | (k', v') :: rest => by
    simp only [Hs.Spec.Hayson.insertTag, Hs.Hayson.insertTag, nameLe_eq, insertTag_eq k v rest]

theorem dictOf_eq (kvs : List (List Char × Val)) :
    dictOf kvs = Tags.ofList (kvs.foldl (fun acc p => Hs.Hayson.insertTag p.1 p.2 acc) []) := by
  unfold dictOf
  congr 1
  have : (fun (acc : List (List Char × Val)) (p : List Char × Val) => Hs.Spec.Hayson.insertTag p.1 p.2 acc)
      = (fun acc p => Hs.Hayson.insertTag p.1 p.2 acc) := by
    funext acc p; exact insertTag_eq _ _ _
  rw [this]

/-- inserting entries with distinct keys: the order of insertion does not matter -/
theorem foldl_insertTag_perm {l1 l2 : List (List Char × Val)} (hp : l1.Perm l2) :
    (l1.map (·.1)).Nodup → ∀ d, l1.foldl (fun acc p => Hs.Hayson.insertTag p.1 p.2 acc) d
      = l2.foldl (fun acc p => Hs.Hayson.insertTag p.1 p.2 acc) d := by
  induction hp with
  | nil => intros; rfl
  | cons a _ ih =>
    intro hn d
    simp only [List.foldl_cons]
    exact ih (List.nodup_cons.mp hn).2 _
  | swap a b l =>
    intro hn d
    have hne : a.1 ≠ b.1 := by
      intro e
      simp [e] at hn
    simp only [List.foldl_cons]
    rw [insertTag_comm a.1 b.1 a.2 b.2 hne d]
  | trans h1 _ ih1 ih2 =>
    intro hn d
    rw [ih1 hn d]
    exact ih2 ((h1.map _).nodup_iff.mp hn) d

/-- **the reader's dictionary**: entries that are a reordering of the (strictly ascending) tags of `t` -/
theorem dictOf_of_perm {kvs : List (List Char × Val)} {t : Tags} (hp : kvs.Perm t.toList)
    (hs : strictSorted t.keys = true) : dictOf kvs = t := by
  have hpw := strictSorted_pairwise _ hs
  have hnd : (t.toList.map (·.1)).Nodup := by
    rw [← Tags.keys_eq]; exact hpw.imp (fun h => ltChars_ne h)
  have hnd1 : (kvs.map (·.1)).Nodup := (hp.map (·.1)).nodup_iff.2 hnd
  rw [dictOf_eq, foldl_insertTag_perm hp hnd1 [],
    foldl_insertTag_sorted t.toList [] (by simpa [← Tags.keys_eq] using hpw)]
  simp [Tags.ofList_toList]

/-! ### sizes (the reader's fuel is `2 * size doc + 8`) -/

/-- the summed size of the values of a member list -/
def sizeL : Mems → Nat
  | [] => 0
  | p :: l => size p.2 + sizeL l

theorem sizem_eq : ∀ ms : Members, sizem ms = sizeL ms.toList
  | .nil => by simp [sizem, sizeL, Members.toList]
  | .cons k j ms => by simp [sizem, sizeL, Members.toList, sizem_eq ms]

theorem size_pos : ∀ j : Json, 1 ≤ size j
  | .null => by simp [size]
  | .bool _ => by simp [size]
  | .int _ _ => by simp [size]
  | .flt _ => by simp [size]
  | .str _ => by simp [size]
  | .arr _ => by simp [size]
  | .obj _ => by simp [size]

theorem size_le_sizeL : ∀ (l : Mems) (p : List Char × Json), p ∈ l → size p.2 ≤ sizeL l
  | [], _, h => by cases h
  | q :: l, p, h => by
    rcases List.mem_cons.mp h with e | h
    · subst e; simp [sizeL]
    · have := size_le_sizeL l p h
      simp [sizeL]; omega

theorem sizeL_filter (q : List Char × Json → Bool) : ∀ l : Mems, sizeL (l.filter q) ≤ sizeL l
  | [] => by simp [sizeL]
  | p :: l => by
    have ih := sizeL_filter q l
    simp only [List.filter_cons]
    split <;> simp [sizeL] <;> omega

theorem size_le_sizes : ∀ (js : Jsons) (j : Json), j ∈ js.toList → size j ≤ sizes js
  | .nil, _, h => by simp [Jsons.toList] at h
  | .cons x xs, j, h => by
    simp only [Jsons.toList, List.mem_cons] at h
    rcases h with e | h
    · subst e; simp [sizes]
    · have := size_le_sizes xs j h
      simp [sizes]; omega

/-! ### `readTags` on members that are all readable -/

/-- a member with its value as the reader reads it (with enough fuel) -/
def rd (p : List Char × Json) : List Char × Val := (p.1, (read (2 * size p.2) p.2).getD .null)

/-- the value of the member is read, with any sufficient fuel, as `(rd p).2` -/
def Readable (p : List Char × Json) : Prop := ∀ f, 2 * size p.2 ≤ f → read f p.2 = some (rd p).2

theorem readTags_map : ∀ (l : Mems), (∀ p ∈ l, Readable p) → ∀ f, 2 * sizeL l + 1 ≤ f →
    readTags f l = some (l.map rd)
  | [], _, f, hf => by
    obtain ⟨f', rfl⟩ : ∃ f', f = f' + 1 := ⟨f - 1, by omega⟩
    simp [readTags]
  | (k, j) :: l, h, f, hf => by
    obtain ⟨f', rfl⟩ : ∃ f', f = f' + 1 := ⟨f - 1, by omega⟩
    have hj := size_pos j
    simp only [sizeL] at hf
    have h1 : read f' j = some (rd (k, j)).2 := h (k, j) (by simp) f' (by simp only; omega)
    have h2 := readTags_map l (fun p hp => h p (List.mem_cons_of_mem _ hp)) f' (by omega)
    simp only [readTags, h1, h2]
    simp [rd]

theorem rd_fst (p : List Char × Json) : (rd p).1 = p.1 := rfl

theorem map_rd_keys (l : Mems) : (l.map rd).map (·.1) = l.map (·.1) := by
  simp [List.map_map, Function.comp_def, rd_fst]

/-- **the tags of a dict object as the reader collects them**: `l` (the members the reader folds over) is a
reordering of members `tm` that are readable, one per tag of `t'` in key order -/
def TagsRead (t' : Tags) (l : Mems) : Prop :=
  ∃ tm : Mems, l.Perm tm ∧ tm.map rd = t'.toList ∧ ∀ p ∈ tm, Readable p

theorem TagsRead.readTags {t' : Tags} {l : Mems} (h : TagsRead t' l) (hs : strictSorted t'.keys = true)
    (f : Nat) (hf : 2 * sizeL l + 1 ≤ f) :
    ∃ kvs, Hs.Spec.Hayson.readTags f l = some kvs ∧ dictOf kvs = t' ∧ kvs.isEmpty = t'.isEmpty := by
  obtain ⟨tm, hp, hv, hr⟩ := h
  refine ⟨l.map rd, readTags_map l (fun p hp' => hr p (hp.mem_iff.mp hp')) f hf, ?_, ?_⟩
  · exact dictOf_of_perm (hv ▸ hp.map rd) hs
  · have hl : (l.map rd).length = t'.toList.length := by
      rw [← hv, List.length_map, List.length_map]; exact hp.length_eq
    cases t' with
    | nil =>
      simp [Tags.toList] at hl
      simp [hl, Tags.isEmpty]
    | cons k v t =>
      simp only [Tags.toList, List.length_cons] at hl
      cases hm : l.map rd with
      | nil => rw [hm] at hl; simp at hl
      | cons a b => simp [Tags.isEmpty]

end Hs.Spec.Hayson
