/-
  C04 read direction, numbers (1): the decimal loop on a spelled decimal (`_` separators dropped), the shape
  facts of `Digits` / `Decimal`, and the look-ahead of `parse_number_date_time` on a spelled decimal.
-/
import Hs.Lemmas.ZincSpellBase
import Hs.Lemmas.ZincRtTok2
namespace Hs.Zinc
open Hs Hs.Scan Hs.Spell

/-! ### the decimal loop drops `_` -/

theorem decimalLoop_sp (bs : List UInt8) (hbs : ∀ b ∈ bs, isDecB b = true) :
    ∀ (s : Scan) (rest : List UInt8) (fuel : Nat) (acc : List UInt8), At s (bs ++ rest) → Stop isDecB rest →
    bs.length < fuel → decimalLoop fuel s acc = .ok (acc ++ bs.filter (· != 95), advN bs.length s) := by
  induction bs with
  | nil =>
    intro s rest fuel acc h hst hf
    obtain ⟨f, rfl⟩ : ∃ f, fuel = f + 1 := ⟨fuel - 1, by omega⟩
    rw [decimalLoop]
    cases rest with
    | nil => simp [At.eof_nil h, advN]
    | cons b r =>
      have := hst b r rfl
      simp only [isDecB, Bool.or_eq_false_iff, beq_eq_false_iff_ne, ne_eq] at this
      simp [h.eof, h.cur, Scan.isDigit, this, advN]
  | cons b bs ih =>
    intro s rest fuel acc h hst hf
    obtain ⟨f, rfl⟩ : ∃ f, fuel = f + 1 := ⟨fuel - 1, by omega⟩
    have hb := hbs b (by simp)
    simp only [List.cons_append] at h
    have hcl : (isDigitB b || b == 95 || b == 46 || b == 45) = true := hb
    rw [decimalLoop]
    simp only [h.eof, h.cur, Scan.isDigit, Bool.not_false, Bool.true_and, hcl, if_true]
    rw [ih (fun x hx => hbs x (by simp [hx])) s.advance rest f _ h.advance hst (by simpa using hf)]
    by_cases h95 : b = 95
    · subst h95; simp [advN]
    · simp [advN, h95]

theorem parseDecimal_sp (bs : List UInt8) (hbs : ∀ b ∈ bs, isDecB b = true)
    (hvalid : validDecimal (bs.filter (· != 95)) = true)
    (s : Scan) (rest : List UInt8) (fuel : Nat) (h : At s (bs ++ rest)) (hst : Stop isDecB rest)
    (hf : bs.length < fuel) :
    parseDecimal fuel s = .ok (bs.filter (· != 95), advN bs.length s) := by
  unfold parseDecimal
  rw [decimalLoop_sp bs hbs s rest fuel [] h hst hf]
  simp [hvalid]

/-! ### digit runs -/

theorem digit_ne_95 {b : UInt8} (h : isDigitB b = true) : b ≠ 95 := by
  intro e; subst e; revert h; decide
theorem digit_ne_45' {b : UInt8} (h : isDigitB b = true) : b ≠ 45 := by
  intro e; subst e; revert h; decide
theorem digit_isDecB {b : UInt8} (h : isDigitB b = true) : isDecB b = true := by
  simp [isDecB, h]

theorem _root_.Hs.Spell.Digits.digits {ds bs : List UInt8} (h : Digits ds bs) : ∀ d ∈ ds, isDigitB d = true := h.1
theorem _root_.Hs.Spell.Digits.filt {ds bs : List UInt8} (h : Digits ds bs) : bs.filter (· != 95) = ds := h.2.1

/-- every byte of the spelling is a digit or `_` -/
theorem _root_.Hs.Spell.Digits.cls {ds bs : List UInt8} (h : Digits ds bs) : ∀ b ∈ bs, isDigitB b = true ∨ b = 95 := by
  intro b hb
  by_cases h95 : b = 95
  · exact Or.inr h95
  · left
    apply h.1
    rw [← h.2.1]
    simp [hb, h95]

theorem _root_.Hs.Spell.Digits.dec {ds bs : List UInt8} (h : Digits ds bs) : ∀ b ∈ bs, isDecB b = true := by
  intro b hb
  rcases h.cls b hb with h' | rfl
  · exact digit_isDecB h'
  · decide

theorem _root_.Hs.Spell.Digits.no45 {ds bs : List UInt8} (h : Digits ds bs) : ∀ b ∈ bs, b ≠ 45 := by
  intro b hb
  rcases h.cls b hb with h' | rfl
  · exact digit_ne_45' h'
  · decide

theorem _root_.Hs.Spell.Digits.head {ds bs : List UInt8} (h : Digits ds bs) :
    ∃ d r, bs = d :: r ∧ isDigitB d = true ∧ ds = d :: r.filter (· != 95) := by
  obtain ⟨_, hf, d, r, rfl, hd⟩ := h
  refine ⟨d, r, rfl, hd, ?_⟩
  rw [← hf]
  simp [digit_ne_95 hd]

theorem _root_.Hs.Spell.Digits.head' {ds bs : List UInt8} (h : Digits ds bs) :
    ∃ d r, ds = d :: r ∧ isDigitB d = true := by
  obtain ⟨d, r, _, hd, e⟩ := h.head
  exact ⟨d, _, e, hd⟩

/-! ### `takeWhile` / `dropWhile` on a digit run -/

theorem takeWhile_digits (ds rest : List UInt8) (hds : ∀ d ∈ ds, isDigitB d = true) (hst : Stop isDigitB rest) :
    (ds ++ rest).takeWhile isDigitB = ds ∧ (ds ++ rest).dropWhile isDigitB = rest := by
  induction ds with
  | nil =>
    cases rest with
    | nil => simp
    | cons b r =>
      have := hst b r rfl
      simp [this]
  | cons d ds ih =>
    have hd := hds d (by simp)
    obtain ⟨i1, i2⟩ := ih (fun x hx => hds x (by simp [hx]))
    simp only [List.cons_append, List.takeWhile_cons, List.dropWhile_cons, hd, if_true]
    exact ⟨by rw [i1], i2⟩

/-- `validDecimal` without the sign -/
def vbody (body : List UInt8) : Bool :=
  match body.dropWhile isDigitB with
  | [] => !(body.takeWhile isDigitB).isEmpty
  | 46 :: fr => allDigits fr && (!(body.takeWhile isDigitB).isEmpty || !fr.isEmpty)
  | _ => false

theorem validDecimal_neg (body : List UInt8) : validDecimal (45 :: body) = vbody body := rfl
theorem validDecimal_pos (d : UInt8) (body : List UInt8) (h : d ≠ 45) :
    validDecimal (d :: body) = vbody (d :: body) := by
  unfold validDecimal
  split
  · rename_i heq; cases heq; exact absurd rfl h
  · rfl

theorem vbody_int (ip : List UInt8) (hip : ∀ d ∈ ip, isDigitB d = true) (hne : ip ≠ []) : vbody ip = true := by
  obtain ⟨t, d⟩ := takeWhile_digits ip [] hip (Stop_nil _)
  simp only [List.append_nil] at t d
  unfold vbody
  rw [d, t]
  simpa using hne

theorem vbody_frac (ip fp : List UInt8) (hip : ∀ d ∈ ip, isDigitB d = true) (hne : ip ≠ [])
    (hfp : ∀ d ∈ fp, isDigitB d = true) : vbody (ip ++ 46 :: fp) = true := by
  obtain ⟨t, d⟩ := takeWhile_digits ip (46 :: fp) hip (Stop_cons (by decide))
  unfold vbody
  rw [d, t]
  have : allDigits fp = true := by simpa [allDigits] using hfp
  simp [this, hne]

/-! ### shape of a spelled decimal -/

/-- what the reader needs to know about a spelled decimal `bs` of the numeral `lex` -/
structure DecShape (lex bs : List UInt8) : Prop where
  filt : bs.filter (· != 95) = lex
  cls : ∀ b ∈ bs, isDecB b = true
  valid : validDecimal lex = true
  tail : ∀ b ∈ bs.tail, b ≠ 45
  first : ∃ b r, bs = b :: r ∧ (isDigitB b = true ∨ (b = 45 ∧ ∃ c r', r = c :: r' ∧ isDigitB c = true))

theorem decShape_body (ip ipS : List UInt8) (hi : Digits ip ipS) (fl fS : List UInt8)
    (hf : (fl = [] ∧ fS = []) ∨ ∃ fp fpS, Digits fp fpS ∧ fl = 46 :: fp ∧ fS = 46 :: fpS) :
    (ipS ++ fS).filter (· != 95) = ip ++ fl ∧ (∀ b ∈ ipS ++ fS, isDecB b = true) ∧ vbody (ip ++ fl) = true ∧
      (∀ b ∈ ipS ++ fS, b ≠ 45) := by
  obtain ⟨d0, r0, e0, hd0, e0'⟩ := hi.head
  have hne : ip ≠ [] := by rw [e0']; simp
  rcases hf with ⟨rfl, rfl⟩ | ⟨fp, fpS, hfd, rfl, rfl⟩
  · simp only [List.append_nil]
    exact ⟨hi.filt, hi.dec, vbody_int ip hi.digits hne, hi.no45⟩
  · refine ⟨?_, ?_, vbody_frac ip fp hi.digits hne hfd.digits, ?_⟩
    · rw [List.filter_append, hi.filt]
      simp [hfd.filt]
    · intro b hb
      simp only [List.mem_append, List.mem_cons] at hb
      rcases hb with hb | rfl | hb
      · exact hi.dec b hb
      · decide
      · exact hfd.dec b hb
    · intro b hb
      simp only [List.mem_append, List.mem_cons] at hb
      rcases hb with hb | rfl | hb
      · exact hi.no45 b hb
      · decide
      · exact hfd.no45 b hb

theorem decShape_signed (neg : Bool) (ip ipS : List UInt8) (hi : Digits ip ipS) (fl fS : List UInt8)
    (hf : (fl = [] ∧ fS = []) ∨ ∃ fp fpS, Digits fp fpS ∧ fl = 46 :: fp ∧ fS = 46 :: fpS) :
    DecShape ((if neg then [45] else []) ++ (ip ++ fl)) ((if neg then [45] else []) ++ (ipS ++ fS)) := by
  obtain ⟨b1, b2, b3, b4⟩ := decShape_body ip ipS hi fl fS hf
  obtain ⟨d0, r0, e0, hd0, e0'⟩ := hi.head
  cases neg with
  | true =>
    simp only [if_true, List.cons_append, List.nil_append]
    refine ⟨?_, ?_, ?_, ?_, ?_⟩
    · rw [List.filter_cons]; simp [b1]
    · intro b hb
      simp only [List.mem_cons] at hb
      rcases hb with rfl | hb
      · decide
      · exact b2 b hb
    · rw [validDecimal_neg]; exact b3
    · simpa using b4
    · exact ⟨45, ipS ++ fS, rfl, Or.inr ⟨rfl, d0, r0 ++ fS, by rw [e0]; rfl, hd0⟩⟩
  | false =>
    simp only [Bool.false_eq_true, if_false, List.nil_append]
    refine ⟨b1, b2, ?_, ?_, ?_⟩
    · rw [e0', List.cons_append, validDecimal_pos _ _ (digit_ne_45' hd0), ← List.cons_append, ← e0']
      exact b3
    · intro b hb; exact b4 b (List.mem_of_mem_tail hb)
    · exact ⟨d0, r0 ++ fS, by rw [e0]; rfl, Or.inl hd0⟩

theorem _root_.Hs.Spell.Decimal.shape {lex bs : List UInt8} (h : Decimal lex bs) : DecShape lex bs := by
  cases h with
  | int neg ip ipS hi =>
    have := decShape_signed neg ip ipS hi [] [] (Or.inl ⟨rfl, rfl⟩)
    simpa using this
  | frac neg ip ipS fp fpS hi hf =>
    have := decShape_signed neg ip ipS hi (46 :: fp) (46 :: fpS) (Or.inr ⟨fp, fpS, hf, rfl, rfl⟩)
    simpa using this

/-- the first byte of a spelled decimal: a digit or `-` -/
theorem DecShape.first' {lex bs : List UInt8} (h : DecShape lex bs) :
    ∃ b r, bs = b :: r ∧ (isDigitB b || b == 45) = true := by
  obtain ⟨b, r, e, hb⟩ := h.first
  refine ⟨b, r, e, ?_⟩
  rcases hb with hb | ⟨rfl, _⟩
  · simp [hb]
  · decide

theorem DecShape.parse {lex bs : List UInt8} (hsh : DecShape lex bs)
    (s : Scan) (rest : List UInt8) (fuel : Nat) (h : At s (bs ++ rest)) (hst : Stop isDecB rest)
    (hf : bs.length < fuel) :
    parseDecimal fuel s = .ok (lex, advN bs.length s) := by
  have := parseDecimal_sp bs hsh.cls (by rw [hsh.filt]; exact hsh.valid) s rest fuel h hst hf
  rw [hsh.filt] at this
  exact this

/-! ### the look-ahead of `parse_number_date_time` -/

theorem dec_not_colon : ∀ b : UInt8, (!isDecB b || b != 58) = true :=
  all_u8 (fun b => (!isDecB b || b != 58)) (by decide +kernel)

/-- the byte at a position `1 ≤ k ≤ |tb|` of `tb ++ U` is neither `:` nor `-` -/
theorem byte_after_digits_sp (tb U : List UInt8) (hnum : ∀ b ∈ tb, isDecB b = true)
    (htail : ∀ b ∈ tb.tail, b ≠ 45) (hU : AfterDec U) (k : Nat) (h1 : 1 ≤ k) (h2 : k ≤ tb.length) (x : UInt8)
    (hx : (tb ++ U)[k]? = some x) : x ≠ 58 ∧ x ≠ 45 := by
  by_cases hk : k < tb.length
  · rw [List.getElem?_append_left hk] at hx
    have hmem : x ∈ tb := List.mem_of_getElem? hx
    have hmem' : x ∈ tb.tail := by
      cases tb with
      | nil => simp at hk
      | cons t0 ts =>
        obtain ⟨j, rfl⟩ : ∃ j, k = j + 1 := ⟨k - 1, by omega⟩
        simp only [List.getElem?_cons_succ] at hx
        exact List.mem_of_getElem? hx
    refine ⟨?_, htail x hmem'⟩
    have := dec_not_colon x
    simpa [hnum x hmem] using this
  · have : k = tb.length := by omega
    subst this
    rw [List.getElem?_append_right (Nat.le_refl _)] at hx
    simp only [Nat.sub_self] at hx
    cases U with
    | nil => simp at hx
    | cons y r =>
      simp only [List.getElem?_cons_zero, Option.some.injEq] at hx
      subst hx
      exact (hU _ r rfl).2

/-- `parse_number_date_time` on a spelled decimal hands over to `parse_number` without consuming anything -/
theorem ndt_number_sp (lex tb : List UInt8) (hsh : DecShape lex tb) (U : List UInt8) (hU : AfterDec U)
    (s : Scan) (fuel : Nat) (h : At s (tb ++ U)) (hs : s.stash = []) :
    ∃ s', parseNumberDateTime fuel s = parseNumber fuel s' ∧ At s' (tb ++ U) ∧ s'.stash.length ≤ tb.length := by
  obtain ⟨b0, tb', rfl, hfirst⟩ := hsh.first
  have hnum := hsh.cls
  have htail := hsh.tail
  simp only [List.cons_append] at h
  simp only [List.tail_cons] at htail
  by_cases hminus : b0 = 45
  · -- a sign: one peek, the byte after it is not `I`
    subst hminus
    rcases hfirst with hfirst | ⟨_, b1, tb'', rfl, hb1d⟩
    · exact absurd hfirst (by decide)
    · simp only [List.cons_append] at h
      obtain ⟨s1, e1, hat1, hs1, _, _⟩ := h.peek0' hs
      have hb1 : b1 ≠ 73 := by
        intro e; subst e; revert hb1d; decide
      refine ⟨s1, ?_, by simpa using hat1, by simp [hs1]⟩
      unfold parseNumberDateTime
      simp [h.cur, e1, hb1]
  · -- a digit: up to four peeks
    have hdig : isDigitB b0 = true := by
      rcases hfirst with h' | ⟨h', _⟩
      · exact h'
      · exact absurd h' hminus
    have hseq := eq_at_of_At h hs
    generalize s.lastPeek = lp at hseq
    generalize s.pos = pos at hseq
    subst hseq
    obtain ⟨k', c', _, hk2, hk3, hdk, hres⟩ := ndtPeeks_pk b0 (tb' ++ U) lp pos 4 0 0 b0 (Nat.zero_le _) rfl
      (by intro i hi; omega)
    have hwithin : k' ≤ (b0 :: tb').length := digits_within (b0 :: tb') U hU k' (by simpa using hdk)
    have hcur : (pk b0 (tb' ++ U) lp pos 0).cur = b0 := rfl
    have hne45 : (b0 == 45) = false := by simpa using hminus
    refine ⟨pk b0 (tb' ++ U) lp pos k', ?_, At_pk _ _ _ _ _, by rw [pk_stash_length _ _ _ _ _ hk2]; exact hwithin⟩
    unfold parseNumberDateTime
    simp only [hcur, hne45, Bool.false_eq_true, if_false]
    rcases hres with ⟨e, hc⟩ | ⟨e, _, _⟩
    · rw [e]
      have hc' : c' = k' := by omega
      subst hc'
      have heof : (pk b0 (tb' ++ U) lp pos c').eof = false := rfl
      have hlp : ∀ (hk : 1 ≤ c'), (pk b0 (tb' ++ U) lp pos c').lastPeek ≠ 58 ∧
          (pk b0 (tb' ++ U) lp pos c').lastPeek ≠ 45 := by
        intro hk
        have hz : c' ≠ 0 := by omega
        simp only [pk, hz, if_false]
        cases hx : (tb' ++ U)[c' - 1]? with
        | none => simp
        | some x =>
          have hx' : ((b0 :: tb') ++ U)[c']? = some x := by
            obtain ⟨j, rfl⟩ : ∃ j, c' = j + 1 := ⟨c' - 1, by omega⟩
            simpa using hx
          simpa using byte_after_digits_sp (b0 :: tb') U hnum (by simpa using htail) hU c' hk hwithin x hx'
      simp only [heof, Bool.false_eq_true, if_false]
      by_cases h2 : c' = 2
      · have := (hlp (by omega)).1
        subst h2
        simp [this]
      · by_cases h4 : c' = 4
        · have := (hlp (by omega)).2
          subst h4
          simp [this]
        · simp [h2, h4]
    · rw [e]
      simp
      rfl

end Hs.Zinc
