/-
  print → parse for ALL filter trees of the property (C08): the mutual induction of
  `Hs.Lemmas.FilterParse` over the tree, with comparison literals of every kind the syntax admits
  (`OkLit2`: Bool, Symbol, Ref with any display name, any Str, any Uri, finite Number with a unit of
  the table, Date, Time, DateTime) and the lexical image (`lexImg`) of the literal as the result.
  The continuation carried through the induction (`Cont2`) also records that the next token does not
  start with an upper-case letter: the zone reader looks two bytes ahead after a `Z`.
-/
import Hs.Lemmas.FilterRtLit
namespace Hs.FText
open Hs Hs.Scan Hs.Zinc

mutual
/-- the terms of the proved fragment (a lone `not` is the operator, not a name) -/
def OkT2 : Term → Prop
  | .parens o => o ≠ .nil ∧ AllO2 o
  | .has p => WFPath p ∧ p ≠ kwNot
  | .missing p => WFPath p
  | .isA s => SymSeg s
  | .weq p r => (WFPath p ∧ p ≠ kwNot) ∧ RefSeg r.id
  | .rel r t ref => IdSeg r ∧ (∀ x, t = some x → SymSeg x) ∧ (∀ rv, ref = some rv → RefSeg rv.id)
  | .cmp p _ v => (WFPath p ∧ p ≠ kwNot) ∧ OkLit2 v
def AllA2 : Ands → Prop
  | .nil => True
  | .cons t ts => OkT2 t ∧ AllA2 ts
def AllO2 : Ors → Prop
  | .nil => True
  | .cons a as => (a ≠ .nil ∧ AllA2 a) ∧ AllO2 as
end

mutual
/-- what the parser returns for the printed tree: the tree itself, the Ref operand of `*==` and of a
relation without its display name (`Display for Ref` does not print it) -/
def imgT2 : Term → Term
  | .parens o => .parens (imgO2 o)
  | .weq p r => .weq p { id := r.id, dis := Option.none }
  | .rel r t (some rv) => .rel r t (some { id := rv.id, dis := Option.none })
  | .cmp p op v => .cmp p op (lexImg v)
  | t => t
def imgA2 : Ands → Ands
  | .nil => .nil
  | .cons t ts => .cons (imgT2 t) (imgA2 ts)
def imgO2 : Ors → Ors
  | .nil => .nil
  | .cons a as => .cons (imgA2 a) (imgO2 as)
end

theorem term_head2 : (t : Term) → OkT2 t → okHead (printTerm t)
  | .parens o, _ => by simp only [printTerm, List.cons_append]; exact okHead_byte 40 _ (by decide)
  | .has p, h => by
    have hw : WFPath p := h.1
    simp only [printTerm, printPath_eq p hw.2]; exact path_head hw
  | .missing p, _ => by
    simp only [printTerm]
    exact ⟨110, [111, 116, 32] ++ printPath p, by simp [bytesOfAscii], by decide, by decide, by decide, by decide⟩
  | .isA _, _ => by simp only [printTerm, List.cons_append]; exact okHead_byte 94 _ (by decide)
  | .weq p _, h => by
    have hw : WFPath p := h.1.1
    simp only [printTerm, printPath_eq p hw.2, List.append_assoc]; exact okHead_append (path_head hw)
  | .rel r _ _, h => by
    simp only [printTerm, h.1.enc, List.append_assoc]; exact okHead_append (seg_head h.1)
  | .cmp p _ _, h => by
    have hw : WFPath p := h.1.1
    simp only [printTerm, printPath_eq p hw.2, List.append_assoc]; exact okHead_append (path_head hw)

theorem ands_head2 (t : Term) (ts : Ands) (h : OkT2 t) : okHead (printAnds (.cons t ts)) := by
  cases ts with
  | nil => simpa [printAnds] using term_head2 t h
  | cons u us => simp only [printAnds]; rw [List.append_assoc]; exact okHead_append (term_head2 t h)

theorem ors_head2 (t : Term) (ts : Ands) (as : Ors) (h : OkT2 t) : okHead (printOrs (.cons (.cons t ts) as)) := by
  cases as with
  | nil => simpa [printOrs] using ands_head2 t ts h
  | cons u us => simp only [printOrs]; rw [List.append_assoc]; exact okHead_append (ands_head2 t ts h)

/-- the text between two terms: one space, `and`, one space -/
theorem sep_and2 (X : List UInt8) (hX : okHead X) :
    Cont2 (sepAnd ++ X) (segBytes ['a', 'n', 'd'] ++ 32 :: X) ∧
    Follow (segBytes ['a', 'n', 'd'] ++ 32 :: X) (.path kwAnd) X :=
  ⟨⟨(sep_and X hX).1, noUp_append (by decide) (by intro c r e; cases e; decide)⟩, (sep_and X hX).2⟩

theorem sep_or2 (X : List UInt8) (hX : okHead X) :
    Cont2 (sepOr ++ X) (segBytes ['o', 'r'] ++ 32 :: X) ∧
    Follow (segBytes ['o', 'r'] ++ 32 :: X) (.path kwOr) X :=
  ⟨⟨(sep_or X hX).1, noUp_append (by decide) (by intro c r e; cases e; decide)⟩, (sep_or X hX).2⟩

set_option maxHeartbeats 2000000 in
mutual
theorem termR_ok2 : (t : Term) → OkT2 t → ∀ (rest T T' : List UInt8) (tok' : FTok) (d fuelL fuelP N : Nat)
    (s : Scan), Cont2 rest T → Follow T tok' T' → isCont tok' = true →
    Pos s (printTerm t ++ rest) → d + nestT t ≤ 64 →
    (printTerm t ++ rest).length + 8 ≤ N → N ≤ fuelL → costT t + N ≤ fuelP →
    ∃ s1 tok1 l', lexRead fuelL s = .ok s1 tok1 ∧ parseTerm fuelP d { sc := s1, cur := tok1 } = .ok (imgT2 t, l')
      ∧ At l' tok' T'
  | .has p, hsk, rest, T, T', tok', d, fuelL, fuelP, N, s, hC, hF, hc, hp, hd, hN, hL, hP => by
    have hw : WFPath p := hsk.1
    have hnn : (p == kwNot) = false := by simpa using hsk.2
    simp only [printTerm, printPath_eq p hw.2] at hp hN
    have hTl := hC.1.len
    obtain ⟨s1, h1, h2⟩ := read_pos (follow_path hw hC.1) fuelL s hp (by simp at hN ⊢; omega)
    obtain ⟨F, rfl⟩ : ∃ F, fuelP = F + 1 := ⟨fuelP - 1, by simp [costT] at hP; omega⟩
    obtain ⟨s2, h4, h5⟩ := read_pos hF F s1 h2 (by simp [costT] at hP hN; omega)
    refine ⟨s1, .path p, { sc := s2, cur := tok' }, h1, ?_, rfl, h5⟩
    unfold parseTerm
    simp only [hnn, Bool.false_eq_true, if_false, imgT2]
    rw [readTry_ok (l := { sc := s1, cur := .path p }) h4]
    exact cont_has tok' hc F _ p
  | .missing p, hsk, rest, T, T', tok', d, fuelL, fuelP, N, s, hC, hF, hc, hp, hd, hN, hL, hP => by
    have hw : WFPath p := hsk
    have htxt : printTerm (.missing p) ++ rest = segBytes ['n', 'o', 't'] ++ 32 :: (pathBytes p ++ rest) := by
      simp [printTerm, printPath_eq p hw.2, notSp_eq]
    rw [htxt] at hp hN
    have hTl := hC.1.len
    have hX : okHead (pathBytes p ++ rest) := okHead_append (path_head hw)
    obtain ⟨s1, h1, h2⟩ := read_pos (follow_kw _ kwNot_seg _ hX) fuelL s hp (by omega)
    obtain ⟨F, rfl⟩ : ∃ F, fuelP = F + 1 := ⟨fuelP - 1, by simp [costT] at hP; omega⟩
    simp only [List.length_append, List.length_cons] at hN
    obtain ⟨s2, h4, h5⟩ := read_pos (follow_path hw hC.1) F s1 h2 (by simp [costT] at hP ⊢; omega)
    obtain ⟨s3, h7, h8⟩ := read_pos hF F s2 h5 (by simp [costT] at hP; omega)
    refine ⟨s1, .path kwNot, { sc := s3, cur := tok' }, h1, ?_, rfl, h8⟩
    unfold parseTerm
    have : (kwNot == kwNot) = true := by decide
    simp only [this, if_true, imgT2]
    unfold parseNot
    rw [read_ok (l := { sc := s1, cur := .path kwNot }) h4]
    simp only
    rw [readOk_ok (l := { sc := s2, cur := .path p }) h7]
  | .parens o, hsk, rest, T, T', tok', d, fuelL, fuelP, N, s, hC, hF, hc, hp, hd, hN, hL, hP => by
    obtain ⟨hne, hall⟩ := hsk
    have htxt : printTerm (.parens o) ++ rest = 40 :: 32 :: (printOrs o ++ (32 :: 41 :: rest)) := by
      simp [printTerm]
    rw [htxt] at hp hN
    have hTl := hC.1.len
    -- the group is not empty: its text starts with a term
    have hX : okHead (printOrs o ++ (32 :: 41 :: rest)) := by
      cases o with
      | nil => exact absurd rfl hne
      | cons a as =>
        obtain ⟨⟨hane, haa⟩, _⟩ := hall
        cases a with
        | nil => exact absurd rfl hane
        | cons t ts => exact okHead_append (ors_head2 t ts as haa.1)
    obtain ⟨s1, h1, h2⟩ := read_pos (follow_lparen _ hX.nonWs) fuelL s hp (by omega)
    obtain ⟨F, rfl⟩ : ∃ F, fuelP = F + 2 := ⟨fuelP - 2, by simp [costT] at hP; omega⟩
    simp only [List.length_cons, List.length_append] at hN
    have hC' : Cont2 (32 :: 41 :: rest) (41 :: rest) :=
      ⟨Or.inr ⟨rfl, okHead_byte 41 rest (by decide)⟩, noUp_cons (by decide)⟩
    have ih := orsR_ok2 o hne hall (32 :: 41 :: rest) (41 :: rest) T .rparen (d + 1) F F N s1 hC' (follow_rparen hC.1)
      rfl (by simp [notKw, FTok.isPath]) (by simp [notKw, FTok.isPath]) h2 (by simp [nestT] at hd; omega)
      (by simp [List.length_append]; omega) (by simp [costT] at hP; omega) (by simp [costT] at hP; omega)
    obtain ⟨s2, tok2, l2, h4, h5, h6c, h6p⟩ := ih
    obtain ⟨s3, h7, h8⟩ := read_pos hF F l2.sc h6p (by simp [costT] at hP; omega)
    refine ⟨s1, .lparen, { sc := s3, cur := tok' }, h1, ?_, rfl, h8⟩
    have hdd : ¬ (maxNestingDepth ≤ d) := by simp [nestT, maxNestingDepth] at hd ⊢; omega
    unfold parseTerm
    simp only
    unfold parseParens
    simp only [ge_iff_le, hdd, if_false]
    rw [read_ok (l := { sc := s1, cur := .lparen }) h4]
    simp only [h5, h6c, FTok.isRParen, Bool.not_true, Bool.false_eq_true, if_false, imgT2]
    rw [readOk_ok h7]
  | .isA sym, hsk, rest, T, T', tok', d, fuelL, fuelP, N, s, hC, hF, hc, hp, hd, hN, hL, hP => by
    have hs : SymSeg sym := hsk
    have htxt : printTerm (.isA sym) ++ rest = 94 :: (segBytes sym ++ rest) := by simp [printTerm, hs.1.enc]
    rw [htxt] at hp hN
    have hTl := hC.1.len
    obtain ⟨s1, h1, h2⟩ := read_pos (follow_sym hs hC.1.sp) fuelL s hp (by omega)
    obtain ⟨F, rfl⟩ : ∃ F, fuelP = F + 1 := ⟨fuelP - 1, by simp [costT] at hP; omega⟩
    simp only [List.length_cons, List.length_append] at hN
    obtain ⟨s2, h4, h5⟩ := read_pos hF F s1 h2 (by simp [costT] at hP; omega)
    refine ⟨s1, _, { sc := s2, cur := tok' }, h1, ?_, rfl, h5⟩
    unfold parseTerm
    simp only [imgT2]
    rw [readOk_ok (l := { sc := s1, cur := .val (.sym sym) }) h4]
  | .weq p r, hsk, rest, T, T', tok', d, fuelL, fuelP, N, s, hC, hF, hc, hp, hd, hN, hL, hP => by
    obtain ⟨⟨hw, hnk⟩, hid⟩ := hsk
    have hnn : (p == kwNot) = false := by simpa using hnk
    have htxt : printTerm (.weq p r) ++ rest =
        pathBytes p ++ 32 :: (42 :: 61 :: 61 :: 32 :: (64 :: (segBytes r.id ++ rest))) := by
      simp [printTerm, printPath_eq p hw.2, weqSp_eq, printRef, hid.enc]
    rw [htxt] at hp hN
    have hTl := hC.1.len
    have hC1 : Cont (32 :: (42 :: 61 :: 61 :: 32 :: (64 :: (segBytes r.id ++ rest))))
        (42 :: 61 :: 61 :: 32 :: (64 :: (segBytes r.id ++ rest))) := Or.inr ⟨rfl, okHead_byte 42 _ (by decide)⟩
    obtain ⟨s1, h1, h2⟩ := read_pos (follow_path hw hC1) fuelL s hp (by simp at hN ⊢; omega)
    obtain ⟨F, rfl⟩ : ∃ F, fuelP = F + 1 := ⟨fuelP - 1, by simp [costT] at hP; omega⟩
    simp only [List.length_cons, List.length_append] at hN
    obtain ⟨s2, h3, h4⟩ := read_pos (follow_weq (64 :: (segBytes r.id ++ rest)) ⟨64, _, rfl, by decide⟩) F s1 h2
      (by simp [costT] at hP ⊢; omega)
    obtain ⟨s3, h5, h6⟩ := read_pos (follow_ref hid hC.1) F s2 h4 (by simp [costT] at hP ⊢; omega)
    obtain ⟨s4, h7, h8⟩ := read_pos hF F s3 h6 (by simp [costT] at hP; omega)
    refine ⟨s1, .path p, { sc := s4, cur := tok' }, h1, ?_, rfl, h8⟩
    unfold parseTerm
    simp only [hnn, Bool.false_eq_true, if_false, imgT2]
    rw [readTry_ok (l := { sc := s1, cur := .path p }) h3]
    simp only [FTok.isNone, Bool.false_eq_true, if_false]
    unfold parseCmpOrWeq
    simp only [FTok.cmpOp]
    unfold parseWeq
    rw [read_ok (l := { sc := s2, cur := .weq }) h5]
    simp only
    rw [readOk_ok (l := { sc := s3, cur := .val (.ref r.id none) }) h7]
  | .cmp p op v, hsk, rest, T, T', tok', d, fuelL, fuelP, N, s, hC, hF, hc, hp, hd, hN, hL, hP => by
    obtain ⟨⟨hw, hnk⟩, hlit⟩ := hsk
    have hnn : (p == kwNot) = false := by simpa using hnk
    have htxt : printTerm (.cmp p op v) ++ rest =
        pathBytes p ++ 32 :: (printOp op ++ 32 :: (printVal v ++ rest)) := by
      simp [printTerm, printPath_eq p hw.2]
    rw [htxt] at hp hN
    have hTl := hC.1.len
    have hC1 : Cont (32 :: (printOp op ++ 32 :: (printVal v ++ rest))) (printOp op ++ 32 :: (printVal v ++ rest)) :=
      Or.inr ⟨rfl, okHead_op op _⟩
    obtain ⟨s1, h1, h2⟩ := read_pos (follow_path hw hC1) fuelL s hp (by simp at hN ⊢; omega)
    obtain ⟨F, rfl⟩ : ∃ F, fuelP = F + 1 := ⟨fuelP - 1, by simp [costT] at hP; omega⟩
    simp only [List.length_cons, List.length_append] at hN
    obtain ⟨s2, h3, h4⟩ := read_pos (follow_op op (printVal v ++ rest) (nonWs_append (lit_head2 v hlit))) F s1 h2
      (by simp [costT, List.length_append] at hP ⊢; omega)
    obtain ⟨s3, h5, h6⟩ := read_pos (follow_lit2 v hlit hC) F s2 h4 (by simp [costT, List.length_append] at hP ⊢; omega)
    obtain ⟨s4, h7, h8⟩ := read_pos hF F s3 h6 (by simp [costT] at hP; omega)
    refine ⟨s1, .path p, { sc := s4, cur := tok' }, h1, ?_, rfl, h8⟩
    unfold parseTerm
    simp only [hnn, Bool.false_eq_true, if_false, imgT2]
    rw [readTry_ok (l := { sc := s1, cur := .path p }) h3]
    simp only [opTok_notNone, Bool.false_eq_true, if_false]
    unfold parseCmpOrWeq
    simp only [cmpOp_opTok]
    rw [parseCmp_lit2 v hlit F { sc := s2, cur := opTok op } s3 p op h5]
    simp only
    rw [readOk_ok (l := { sc := s3, cur := litTok2 v }) h7]
  | .rel r t ref, hsk, rest, T, T', tok', d, fuelL, fuelP, N, s, hC, hF, hc, hp, hd, hN, hL, hP => by
    obtain ⟨hr, ht, hrf⟩ := hsk
    have hTl := hC.1.len
    obtain ⟨F, rfl⟩ : ∃ F, fuelP = F + 1 := ⟨fuelP - 1, by simp [costT] at hP; omega⟩
    cases t with
    | none =>
      cases ref with
      | none =>
        have htxt : printTerm (.rel r none none) ++ rest = segBytes r ++ 63 :: rest := by simp [printTerm, hr.enc]
        rw [htxt] at hp hN
        simp only [List.length_cons, List.length_append] at hN
        obtain ⟨s1, h1, h2⟩ := read_pos (follow_rel hr hC.1.sp) fuelL s hp (by simp at hN ⊢; omega)
        obtain ⟨s2, h3, h4⟩ := read_pos hF F s1 h2 (by simp [costT] at hP; omega)
        refine ⟨s1, .rel r, { sc := s2, cur := tok' }, h1, ?_, rfl, h4⟩
        unfold parseTerm
        simp only [imgT2]
        unfold parseRel
        rw [read_ok (l := { sc := s1, cur := .rel r }) h3]
        cases tok' <;> simp [isCont] at hc <;> simp
      | some rv =>
        have hid : RefSeg rv.id := hrf rv rfl
        have htxt : printTerm (.rel r none (some rv)) ++ rest = segBytes r ++ 63 :: (32 :: (64 :: (segBytes rv.id ++ rest))) := by
          simp [printTerm, hr.enc, printRef, hid.enc]
        rw [htxt] at hp hN
        simp only [List.length_cons, List.length_append] at hN
        have hS : Sp (32 :: (64 :: (segBytes rv.id ++ rest))) (64 :: (segBytes rv.id ++ rest)) :=
          Or.inr ⟨rfl, 64, _, rfl, by decide⟩
        obtain ⟨s1, h1, h2⟩ := read_pos (follow_rel hr hS) fuelL s hp (by simp at hN ⊢; omega)
        obtain ⟨s2, h3, h4⟩ := read_pos (follow_ref hid hC.1) F s1 h2 (by simp [costT] at hP ⊢; omega)
        obtain ⟨s3, h5, h6⟩ := read_pos hF F s2 h4 (by simp [costT] at hP; omega)
        refine ⟨s1, .rel r, { sc := s3, cur := tok' }, h1, ?_, rfl, h6⟩
        unfold parseTerm
        simp only [imgT2]
        unfold parseRel
        rw [read_ok (l := { sc := s1, cur := .rel r }) h3]
        simp only
        rw [readOk_ok (l := { sc := s2, cur := .val (.ref rv.id none) }) h5]
    | some x =>
      have hx : SymSeg x := ht x rfl
      cases ref with
      | none =>
        have htxt : printTerm (.rel r (some x) none) ++ rest = segBytes r ++ 63 :: (32 :: (94 :: (segBytes x ++ rest))) := by
          simp [printTerm, hr.enc, hx.1.enc]
        rw [htxt] at hp hN
        simp only [List.length_cons, List.length_append] at hN
        have hS : Sp (32 :: (94 :: (segBytes x ++ rest))) (94 :: (segBytes x ++ rest)) :=
          Or.inr ⟨rfl, 94, _, rfl, by decide⟩
        obtain ⟨s1, h1, h2⟩ := read_pos (follow_rel hr hS) fuelL s hp (by simp at hN ⊢; omega)
        obtain ⟨s2, h3, h4⟩ := read_pos (follow_sym hx hC.1.sp) F s1 h2 (by simp [costT] at hP ⊢; omega)
        obtain ⟨s3, h5, h6⟩ := read_pos hF F s2 h4 (by simp [costT] at hP; omega)
        refine ⟨s1, .rel r, { sc := s3, cur := tok' }, h1, ?_, rfl, h6⟩
        unfold parseTerm
        simp only [imgT2]
        unfold parseRel
        rw [read_ok (l := { sc := s1, cur := .rel r }) h3]
        simp only
        rw [read_ok (l := { sc := s2, cur := .val (.sym x) }) h5]
        cases tok' <;> simp [isCont] at hc <;> simp
      | some rv =>
        have hid : RefSeg rv.id := hrf rv rfl
        have htxt : printTerm (.rel r (some x) (some rv)) ++ rest =
            segBytes r ++ 63 :: (32 :: (94 :: (segBytes x ++ (32 :: (64 :: (segBytes rv.id ++ rest)))))) := by
          simp [printTerm, hr.enc, hx.1.enc, printRef, hid.enc]
        rw [htxt] at hp hN
        simp only [List.length_cons, List.length_append] at hN
        have hS : Sp (32 :: (94 :: (segBytes x ++ (32 :: (64 :: (segBytes rv.id ++ rest))))))
            (94 :: (segBytes x ++ (32 :: (64 :: (segBytes rv.id ++ rest))))) := Or.inr ⟨rfl, 94, _, rfl, by decide⟩
        have hS2 : Sp (32 :: (64 :: (segBytes rv.id ++ rest))) (64 :: (segBytes rv.id ++ rest)) :=
          Or.inr ⟨rfl, 64, _, rfl, by decide⟩
        obtain ⟨s1, h1, h2⟩ := read_pos (follow_rel hr hS) fuelL s hp (by simp at hN ⊢; omega)
        obtain ⟨s2, h3, h4⟩ := read_pos (follow_sym hx hS2) F s1 h2 (by simp [costT] at hP ⊢; omega)
        obtain ⟨s3, h5, h6⟩ := read_pos (follow_ref hid hC.1) F s2 h4 (by simp [costT] at hP ⊢; omega)
        obtain ⟨s4, h7, h8⟩ := read_pos hF F s3 h6 (by simp [costT] at hP; omega)
        refine ⟨s1, .rel r, { sc := s4, cur := tok' }, h1, ?_, rfl, h8⟩
        unfold parseTerm
        simp only [imgT2]
        unfold parseRel
        rw [read_ok (l := { sc := s1, cur := .rel r }) h3]
        simp only
        rw [read_ok (l := { sc := s2, cur := .val (.sym x) }) h5]
        simp only
        rw [readOk_ok (l := { sc := s3, cur := .val (.ref rv.id none) }) h7]

theorem andTail_ok2 : (ts : Ands) → AllA2 ts → ∀ (rest T T' : List UInt8) (tok' : FTok) (d fuelP N : Nat) (l : FLex),
    Cont2 rest T → Follow T tok' T' → isCont tok' = true → notKw tok' kwAnd →
    (match ts with
     | .nil => At l tok' T'
     | .cons _ _ => At l (.path kwAnd) (printAnds ts ++ rest)) →
    d + nestA ts ≤ 64 → (printAnds ts ++ rest).length + 8 ≤ N → costA ts + N ≤ fuelP →
    ∃ l', andLoop fuelP d l = .ok (imgA2 ts, l') ∧ At l' tok' T'
  | .nil, _, rest, T, T', tok', d, fuelP, N, l, hC, hF, hc, hk, hAt, hd, hN, hP => by
    obtain ⟨F, rfl⟩ : ∃ F, fuelP = F + 1 := ⟨fuelP - 1, by simp [costA] at hP; omega⟩
    refine ⟨l, ?_, hAt⟩
    unfold andLoop
    have : l.cur.isPath kwAnd = false := by rw [hAt.1]; exact hk
    simp [this, imgA2]
  | .cons u us, hall, rest, T, T', tok', d, fuelP, N, l, hC, hF, hc, hk, hAt, hd, hN, hP => by
    obtain ⟨hu, hus⟩ := hall
    obtain ⟨F, rfl⟩ : ∃ F, fuelP = F + 1 := ⟨fuelP - 1, by simp [costA] at hP; omega⟩
    simp only at hAt
    have heof := hAt.eof_false (okHead_append (ands_head2 u us hu))
    obtain ⟨hcur, hpos⟩ := hAt
    cases us with
    | nil =>
      simp only [printAnds] at hpos hN
      obtain ⟨s1, tok1, l1, h1, h2, h3⟩ := termR_ok2 u hu rest T T' tok' d F F N l.sc hC hF hc hpos
        (by simp [nestA] at hd; omega) hN (by simp [costA] at hP; omega) (by simp [costA] at hP; omega)
      obtain ⟨l', h4, h5⟩ := andTail_ok2 .nil trivial rest T T' tok' d F N l1 hC hF hc hk h3 (by simp [nestA] at hd ⊢; omega)
        (by simp [printAnds] at hN ⊢; omega) (by simp [costA] at hP ⊢; omega)
      refine ⟨l', ?_, h5⟩
      unfold andLoop
      simp only [hcur, FTok.isPath, beq_self_eq_true, if_true, heof, Bool.false_eq_true, if_false]
      rw [read_ok h1]
      simp only [h2, h4, imgA2]
    | cons w ws =>
      have hX : okHead (printAnds (.cons w ws) ++ rest) := okHead_append (ands_head2 w ws hus.1)
      obtain ⟨hC1, hF1⟩ := sep_and2 _ hX
      have htxt : printAnds (.cons u (.cons w ws)) ++ rest = printTerm u ++ (sepAnd ++ (printAnds (.cons w ws) ++ rest)) := by
        simp [printAnds]
      rw [htxt] at hpos hN
      obtain ⟨s1, tok1, l1, h1, h2, h3⟩ := termR_ok2 u hu _ _ _ (.path kwAnd) d F F N l.sc hC1 hF1 rfl hpos
        (by simp [nestA] at hd; omega) hN (by simp [costA] at hP; omega) (by simp [costA] at hP; omega)
      obtain ⟨l', h4, h5⟩ := andTail_ok2 (.cons w ws) hus rest T T' tok' d F N l1 hC hF hc hk h3
        (by simp [nestA] at hd ⊢; omega) (by simp [List.length_append] at hN ⊢; omega) (by simp [costA] at hP ⊢; omega)
      refine ⟨l', ?_, h5⟩
      unfold andLoop
      simp only [hcur, FTok.isPath, beq_self_eq_true, if_true, heof, Bool.false_eq_true, if_false]
      rw [read_ok h1]
      simp only [h2, h4, imgA2]

theorem orsR_ok2 : (o : Ors) → o ≠ .nil → AllO2 o → ∀ (rest T T' : List UInt8) (tok' : FTok) (d fuelL fuelP N : Nat)
    (s : Scan), Cont2 rest T → Follow T tok' T' → isCont tok' = true →
    notKw tok' kwAnd → notKw tok' kwOr →
    Pos s (printOrs o ++ rest) → d + nestO o ≤ 64 →
    (printOrs o ++ rest).length + 8 ≤ N → N ≤ fuelL → costO o + N ≤ fuelP →
    ∃ s1 tok1 l', lexRead fuelL s = .ok s1 tok1 ∧ parseOr fuelP d { sc := s1, cur := tok1 } = .ok (imgO2 o, l')
      ∧ At l' tok' T'
  | .nil, h, _, _, _, _, _, _, _, _, _, _, _, _, _, _, _, _, _, _, _, _ => absurd rfl h
  | .cons .nil as, _, h, _, _, _, _, _, _, _, _, _, _, _, _, _, _, _, _, _, _, _ => absurd rfl h.1.1
  | .cons (.cons t ts) as, _, hall, rest, T, T', tok', d, fuelL, fuelP, N, s, hC, hF, hc, hkA, hkO, hp, hd, hN, hL, hP => by
    obtain ⟨⟨_, hat, hats⟩, has⟩ := hall
    obtain ⟨F, rfl⟩ : ∃ F, fuelP = F + 2 := ⟨fuelP - 2, by simp [costO, costA] at hP; omega⟩
    -- what follows the first `And`: the end of this expression, or ` or ` and the next `And`
    have key : ∃ (rest1 T1 T1' : List UInt8) (tok1' : FTok),
        printOrs (.cons (.cons t ts) as) ++ rest = printAnds (.cons t ts) ++ rest1 ∧ Cont2 rest1 T1 ∧ Follow T1 tok1' T1'
        ∧ isCont tok1' = true ∧ notKw tok1' kwAnd ∧
        (match as with
         | .nil => tok1' = tok' ∧ T1' = T'
         | .cons _ _ => tok1' = .path kwOr ∧ T1' = printOrs as ++ rest) := by
      cases as with
      | nil => exact ⟨rest, T, T', tok', by simp [printOrs], hC, hF, hc, hkA, rfl, rfl⟩
      | cons b bs =>
        obtain ⟨⟨hbne, hba⟩, _⟩ := has
        cases b with
        | nil => exact absurd rfl hbne
        | cons w ws =>
          have hX : okHead (printOrs (.cons (.cons w ws) bs) ++ rest) := okHead_append (ors_head2 w ws bs hba.1)
          obtain ⟨hC1, hF1⟩ := sep_or2 _ hX
          exact ⟨_, _, _, .path kwOr, by simp [printOrs], hC1, hF1, rfl, by simp [notKw, FTok.isPath, kwOr, kwAnd], rfl, rfl⟩
    obtain ⟨rest1, T1, T1', tok1', htxt, hC1, hF1, hc1, hk1, hrel⟩ := key
    rw [htxt] at hp hN
    -- the first term
    have tkey : ∃ (rest2 T2 T2' : List UInt8) (tok2' : FTok),
        printAnds (.cons t ts) ++ rest1 = printTerm t ++ rest2 ∧ Cont2 rest2 T2 ∧ Follow T2 tok2' T2'
        ∧ isCont tok2' = true ∧
        (match ts with
         | .nil => tok2' = tok1' ∧ T2' = T1'
         | .cons _ _ => tok2' = .path kwAnd ∧ T2' = printAnds ts ++ rest1) := by
      cases ts with
      | nil => exact ⟨rest1, T1, T1', tok1', by simp [printAnds], hC1, hF1, hc1, rfl, rfl⟩
      | cons w ws =>
        have hX : okHead (printAnds (.cons w ws) ++ rest1) := okHead_append (ands_head2 w ws hats.1)
        obtain ⟨hC2, hF2⟩ := sep_and2 _ hX
        exact ⟨_, _, _, .path kwAnd, by simp [printAnds], hC2, hF2, rfl, rfl, rfl⟩
    obtain ⟨rest2, T2, T2', tok2', htxt2, hC2, hF2, hc2, hrel2⟩ := tkey
    rw [htxt2] at hp hN
    obtain ⟨s1, tokA, l1, h1, h2, h3⟩ := termR_ok2 t hat rest2 T2 T2' tok2' d fuelL F N s hC2 hF2 hc2 hp
      (by simp [nestO, nestA] at hd; omega) hN hL (by simp [costO, costA] at hP; omega)
    have hlen2 : (printAnds ts ++ rest1).length ≤ (printTerm t ++ rest2).length := by
      rw [← htxt2]; cases ts <;> simp [printAnds, List.length_append] <;> omega
    obtain ⟨l2, h4, h5⟩ := andTail_ok2 ts hats rest1 T1 T1' tok1' d F N l1 hC1 hF1 hc1 hk1
      (by cases ts with
          | nil => simp only at hrel2 ⊢; rw [← hrel2.1, ← hrel2.2]; exact h3
          | cons w ws => simp only at hrel2 ⊢; rw [← hrel2.1, ← hrel2.2]; exact h3)
      (by simp [nestO, nestA] at hd; omega) (by omega) (by simp [costO, costA] at hP; omega)
    have hlen1 : (printOrs as ++ rest).length ≤ (printAnds (.cons t ts) ++ rest1).length := by
      rw [← htxt]; cases as <;> simp [printOrs, List.length_append] <;> omega
    obtain ⟨l3, h6, h7⟩ := orTail_ok2 as has rest T T' tok' d (F + 1) N l2 hC hF hc hkA hkO
      (by cases as with
          | nil => simp only at hrel ⊢; rw [← hrel.1, ← hrel.2]; exact h5
          | cons b bs => simp only at hrel ⊢; rw [← hrel.1, ← hrel.2]; exact h5)
      (by simp [nestO] at hd; omega) (by rw [htxt2] at hlen1; omega) (by simp [costO, costA] at hP; omega)
    refine ⟨s1, tokA, l3, h1, ?_, h7⟩
    unfold parseOr
    unfold parseAnd
    simp only [h2, h4, h6, imgO2, imgA2]

theorem orTail_ok2 : (as : Ors) → AllO2 as → ∀ (rest T T' : List UInt8) (tok' : FTok) (d fuelP N : Nat) (l : FLex),
    Cont2 rest T → Follow T tok' T' → isCont tok' = true → notKw tok' kwAnd → notKw tok' kwOr →
    (match as with
     | .nil => At l tok' T'
     | .cons _ _ => At l (.path kwOr) (printOrs as ++ rest)) →
    d + nestO as ≤ 64 → (printOrs as ++ rest).length + 8 ≤ N → costO as + N ≤ fuelP →
    ∃ l', orLoop fuelP d l = .ok (imgO2 as, l') ∧ At l' tok' T'
  | .nil, _, rest, T, T', tok', d, fuelP, N, l, hC, hF, hc, hkA, hkO, hAt, hd, hN, hP => by
    obtain ⟨F, rfl⟩ : ∃ F, fuelP = F + 1 := ⟨fuelP - 1, by simp [costO] at hP; omega⟩
    refine ⟨l, ?_, hAt⟩
    unfold orLoop
    have : l.cur.isPath kwOr = false := by rw [hAt.1]; exact hkO
    simp [this, imgO2]
  | .cons .nil bs, h, _, _, _, _, _, _, _, _, _, _, _, _, _, _, _, _, _ => absurd rfl h.1.1
  | .cons (.cons t ts) bs, hall, rest, T, T', tok', d, fuelP, N, l, hC, hF, hc, hkA, hkO, hAt, hd, hN, hP => by
    obtain ⟨F, rfl⟩ : ∃ F, fuelP = F + 1 := ⟨fuelP - 1, by simp [costO] at hP; omega⟩
    simp only at hAt
    have heof := hAt.eof_false (okHead_append (ors_head2 t ts bs hall.1.2.1))
    obtain ⟨hcur, hpos⟩ := hAt
    -- read the first token of the next `And`, parse it and the rest of the `Or`: this is `parse_or` again
    have hcost : costO (.cons (.cons t ts) bs) ≥ 2 := by simp [costO, costA]; omega
    obtain ⟨s1, tokA, l3, h1, h2, h3⟩ := orsR_ok2 (.cons (.cons t ts) bs) (by simp) hall rest T T' tok' d F (F + 1) N l.sc
      hC hF hc hkA hkO hpos hd hN (by omega) (by omega)
    refine ⟨l3, ?_, h3⟩
    -- `or_loop` after the keyword does what `parse_or` does
    unfold parseOr at h2
    unfold orLoop
    simp only [hcur, FTok.isPath, beq_self_eq_true, if_true, heof, Bool.false_eq_true, if_false]
    rw [read_ok h1]
    exact h2
end

theorem okHead_len2 {X : List UInt8} (h : okHead X) : 1 ≤ X.length := by
  obtain ⟨c, r, hX, _⟩ := h; simp [hX]

mutual
theorem costT_le2 : (t : Term) → OkT2 t → costT t + 4 ≤ 5 * (printTerm t).length
  | .parens o, h => by
    have := costO_le2 o h.2
    simp [costT, printTerm, List.length_append] at this ⊢; omega
  | .has p, h => by have := okHead_len2 (term_head2 (.has p) h); simp [costT] at this ⊢; omega
  | .missing p, h => by have := okHead_len2 (term_head2 (.missing p) h); simp [costT] at this ⊢; omega
  | .isA s, h => by have := okHead_len2 (term_head2 (.isA s) h); simp [costT] at this ⊢; omega
  | .weq p r, h => by have := okHead_len2 (term_head2 (.weq p r) h); simp [costT] at this ⊢; omega
  | .rel r t f, h => by have := okHead_len2 (term_head2 (.rel r t f) h); simp [costT] at this ⊢; omega
  | .cmp p o v, h => by have := okHead_len2 (term_head2 (.cmp p o v) h); simp [costT] at this ⊢; omega
theorem costA_le2 : (a : Ands) → AllA2 a → costA a ≤ 5 * (printAnds a).length + 1
  | .nil, _ => by simp [costA]
  | .cons t .nil, h => by
    have := costT_le2 t h.1
    simp [costA, printAnds] at this ⊢; omega
  | .cons t (.cons u us), h => by
    have h1 := costT_le2 t h.1
    have h2 := costA_le2 (.cons u us) h.2
    simp only [costA, printAnds, List.length_append] at h1 h2 ⊢
    have : sepAnd.length = 5 := by decide
    omega
theorem costO_le2 : (o : Ors) → AllO2 o → costO o ≤ 5 * (printOrs o).length + 4
  | .nil, _ => by simp [costO]
  | .cons a .nil, h => by
    have := costA_le2 a h.1.2
    simp [costO, printOrs] at this ⊢; omega
  | .cons a (.cons b bs), h => by
    have h1 := costA_le2 a h.1.2
    have h2 := costO_le2 (.cons b bs) h.2
    simp only [costO, printOrs, List.length_append] at h1 h2 ⊢
    have : sepOr.length = 4 := by decide
    omega
end

/-- print → parse on the fragment, with the fuel the cost function asks for -/
theorem print_parse_fuel2 (f : Ors) (hne : f ≠ .nil) (hall : AllO2 f) (hd : nestO f ≤ 64) (fuel : Nat)
    (hf : costO f + (printFilter f).length + 8 ≤ fuel) : parseFilter fuel (printFilter f) = .ok (imgO2 f) := by
  have hv := views_make (printFilter f)
  obtain ⟨s1, tok1, l', h1, h2, h3c, h3p⟩ := orsR_ok2 f hne hall [] [] [] .none 0 fuel fuel
    ((printFilter f).length + 8) (Scan.make (printFilter f)) ⟨Or.inl ⟨rfl, rfl⟩, noUp_nil⟩ follow_nil rfl
    (by simp [notKw, FTok.isPath]) (by simp [notKw, FTok.isPath]) (Or.inl (by simpa [printFilter] using hv))
    (by omega) (by simp [printFilter]) (by omega) (by omega)
  unfold parseFilter
  simp only
  rw [read_ok (l := { sc := Scan.make (printFilter f), cur := .none }) h1]
  simp only [h2, h3c, FTok.isNone, if_true]

/-- … and with the fuel `Filter::try_from` is modelled with -/
theorem print_parse2 (f : Ors) (hne : f ≠ .nil) (hall : AllO2 f) (hd : nestO f ≤ 64) :
    filterOfBytes (printFilter f) = .ok (imgO2 f) := by
  unfold filterOfBytes
  apply print_parse_fuel2 f hne hall hd
  have := costO_le2 f hall
  simp only [printFilter, fuelFor] at this ⊢
  omega
