/-
  C04: the writer's text is one of the spellings of the grammar — `Spells v (enc v true)` and
  `SpellsTop v (encode v)` for every well-formed value whose numbers print as `-?d+(.d+)?`.
-/
import Hs.Lemmas.ZincSpellTop
import Hs.Lemmas.ZincSpellNum4
namespace Hs.Zinc
open Hs Hs.Scan Hs.Spell

theorem rowLine_sp (cells : List (List Char × List UInt8)) (single : Bool) :
    ∀ (ns : List (List Char)), ns ≠ [] → (∀ n ∈ ns, cellOf cells n single = cellText cells n) →
      RowLine cells ns (rowLine cells ns single)
  | [], h, _ => absurd rfl h
  | [n], _, he => by
    simp only [rowLine]
    rw [he n (by simp)]
    exact RowLine.one cells n
  | n :: n2 :: ns, _, he => by
    simp only [rowLine]
    rw [he n (by simp)]
    have ih := rowLine_sp cells single (n2 :: ns) (by simp) (fun x hx => he x (by simp [hx]))
    have := RowLine.cons cells n n2 ns [] _ Blanks.nil ih
    simpa using this

theorem cellText_encCells (n : List Char) : ∀ (t : Tags),
    cellText (encCells t) n = match t.get? n with | some v => enc v true | none => []
  | .nil => by simp [encCells, cellText, Tags.get?]
  | .cons k v t => by
    have ih := cellText_encCells n t
    by_cases hk : k = n
    · simp [encCells, cellText, Tags.get?, hk]
    · have hk' : (k == n) = false := by simpa using hk
      simp only [encCells, cellText, Tags.get?, hk, if_false, List.find?_cons, hk'] at ih ⊢
      exact ih

theorem cellOf_encCells_sp (r : Tags) (n : List Char) (single : Bool) (hp : single = true → r.get? n ≠ none) :
    cellOf (encCells r) n single = cellText (encCells r) n := by
  rw [cellOf_encCells, cellText_encCells n r]
  cases hget : r.get? n with
  | some v => simp [cellBytes, hget]
  | none =>
    cases single with
    | false => simp [cellBytes, hget]
    | true => exact absurd hget (hp rfl)

/-- the writer's rows (after the column line's LF) end with LF -/
theorem encRows_last (names : List (List Char)) (single : Bool) : ∀ rows : Rows,
    ([10] ++ encRows rows names single).getLast? = some 10
  | .nil => by simp [encRows]
  | .cons r rs => by
    have ih := encRows_last names single rs
    simp only [encRows]
    rw [show [10] ++ (rowLine (encCells r) names single ++ [10] ++ encRows rs names single)
      = ([10] ++ rowLine (encCells r) names single) ++ ([10] ++ encRows rs names single) by simp]
    rw [getLast?_append_ne _ _ (by simp)]
    exact ih

theorem spTag_enc (k : List Char) (v : Val) (h : Spells v (enc v true)) : SpTag k v (encChars k ++ valPart v) := by
  by_cases hm : isMarker v = true
  · obtain ⟨rfl, _⟩ := lexImg_marker hm
    simpa [valPart, isMarker] using SpTag.marker k
  · have hm' : isMarker v = false := by simpa using hm
    have := SpTag.val k v [] _ Blanks.nil h
    simpa [valPart, hm'] using this

theorem enc_grid_nested_sp (md : OTags) (cols : Cols) (rows : Rows) (ver : List Char)
    (hwf : wfV (.grid md cols rows ver) = true) :
    enc (.grid md cols rows ver) true = 60 :: 60 :: ([10] ++ (verBytes ++ metaPart md ++ [10] ++ encCols cols ++ [10]
      ++ encRows rows cols.names (cols.length == 1)) ++ [62, 62]) := by
  simp only [wfV, Bool.and_eq_true, colsShape] at hwf
  cases cols with
  | nil => simp at hwf
  | cons n cm c =>
    have := enc_grid_nested md n cm c rows ver []
    simp only [List.append_nil] at this
    rw [this]
    simp [gridBody, tailR]

mutual
theorem spells_enc : ∀ v : Val, wfV v = true → Hs.Spec.strictV v = true → Spells v (enc v true)
  | .null, _, _ => by simp only [enc]; exact Spells.null
  | .remove, _, _ => by simp only [enc]; exact Spells.remove
  | .marker, _, _ => by simp only [enc]; exact Spells.marker
  | .na, _, _ => by simp only [enc]; exact Spells.na
  | .bool true, _, _ => by simp only [enc]; exact Spells.true_
  | .bool false, _, _ => by simp only [enc]; exact Spells.false_
  | .num n, hwf, hs => by
    simp only [wfV] at hwf
    simp only [Hs.Spec.strictV] at hs
    simp only [enc]
    exact Spells.num n _ (numSp_enc n hwf hs)
  | .str s, _, _ => by simp only [enc]; exact Spells.str s _ (quoted_encQuoted s)
  | .uri s, _, _ => by
    simp only [enc, encUri]
    have := Spells.uri s _ (uriBody_enc s)
    simpa using this
  | .ref id .none, _, _ => by
    simp only [enc]
    simpa using Spells.ref id
  | .ref id (.some d), _, _ => by
    simp only [enc]
    simpa using Spells.refDis id d _ (quoted_encQuoted d)
  | .sym s, _, _ => by
    simp only [enc]
    simpa using Spells.sym s
  | .date d, _, _ => by simp only [enc]; exact Spells.date d
  | .time t, _, _ => by simp only [enc]; exact Spells.time t _ (TimeSp.canon t)
  | .dateTime t, _, _ => by
    simp only [enc]
    rw [← encDateTime_sp]
    exact Spells.dateTime t
  | .coord a b, hwf, hs => by
    simp only [wfV, Bool.and_eq_true, decTextOk] at hwf
    simp only [Hs.Spec.strictV, Bool.and_eq_true] at hs
    obtain ⟨da, ea⟩ := decimal_of_strict a.txt hwf.1.1 hs.1
    obtain ⟨db, eb⟩ := decimal_of_strict b.txt hwf.2.1 hs.2
    simp only [enc]
    rw [encChars_all_ascii hwf.1.1, encChars_all_ascii hwf.2.1]
    have := Spells.coord a b _ _ _ _ [] [] [] [] da db ea eb Blanks.nil Blanks.nil Blanks.nil Blanks.nil
    simpa using this
  | .xstr ty v, hwf, _ => by
    simp only [wfV] at hwf
    have hu : upperFirst ty = ty := upperFirst_of_upper (by simp only [isXStrType, Bool.and_eq_true] at hwf; exact hwf.1)
    simp only [enc, hu]
    have := Spells.xstr ty v _ [] [] (quoted_encQuoted v) Blanks.nil Blanks.nil
    simpa using this
  | .list xs, hwf, hs => by
    simp only [wfV] at hwf
    simp only [Hs.Spec.strictV] at hs
    simp only [enc]
    have := Spells.list xs [] _ Blanks.nil (spells_encVals xs hwf hs)
    simpa using this
  | .dict d, hwf, hs => by
    simp only [wfV, Bool.and_eq_true] at hwf
    simp only [Hs.Spec.strictV] at hs
    simp only [enc]
    have := Spells.dict d [] _ [] Blanks.nil (spells_encTags true 44 (Or.inl ⟨rfl, rfl⟩) d hwf.2 hs) Blanks.nil
    simpa using this
  | .grid md cols rows ver, hwf, hs => by
    have hwf0 := hwf
    simp only [wfV, Bool.and_eq_true] at hwf
    obtain ⟨⟨⟨⟨⟨⟨_, hms⟩, hcs⟩, hrs⟩, hwo⟩, hwc⟩, hwr⟩ := hwf
    simp only [Hs.Spec.strictV, Bool.and_eq_true] at hs
    simp only [colsShape, Bool.and_eq_true] at hcs
    have hcne : cols ≠ .nil := by
      intro e; rw [e] at hcs; simp at hcs
    have hnne : cols.names ≠ [] := by
      cases cols with
      | nil => exact absurd rfl hcne
      | cons n cm c => simp [Cols.names]
    have hg : SpGrid md cols rows ver (verBytes ++ metaPart md ++ [10] ++ encCols cols ++ [10]
        ++ encRows rows cols.names (cols.length == 1)) :=
      by
        have := SpGrid.mk md cols rows ver _ [] [10] _ [] [10] _ (spells_encMeta md hwo hs.1.1 hms) Blanks.nil Nl.lf
          (spells_encCols cols hcne hwc hs.1.2 hcs.1.2) Blanks.nil Nl.lf
          (spells_encRows cols.names (cols.length == 1) hnne rows hwr hs.2 hrs)
        simpa [verBytes] using this
    have := Spells.grid md cols rows ver [] [10] _ Blanks.nil Nl.lf hg
    rw [enc_grid_nested_sp md cols rows ver hwf0]
    simpa using this
theorem spells_encVals : ∀ xs : Vals, wfVs xs = true → Hs.Spec.strictVs xs = true → SpItems xs (encVals xs)
  | .nil, _, _ => by simp only [encVals]; exact SpItems.nil
  | .cons v .nil, hwf, hs => by
    simp only [wfVs, Bool.and_eq_true] at hwf
    simp only [Hs.Spec.strictVs, Bool.and_eq_true] at hs
    simp only [encVals]
    have := SpItems.last v _ [] (spells_enc v hwf.1 hs.1) Blanks.nil
    simpa using this
  | .cons v (.cons v2 vs), hwf, hs => by
    have hwf' := hwf
    have hs' := hs
    simp only [wfVs, Bool.and_eq_true] at hwf'
    simp only [Hs.Spec.strictVs, Bool.and_eq_true] at hs'
    have ih := spells_encVals (.cons v2 vs) (by simp only [wfVs, Bool.and_eq_true]; exact hwf'.2)
      (by simp only [Hs.Spec.strictVs, Bool.and_eq_true]; exact hs'.2)
    rw [encVals_cons2]
    have := SpItems.cons v v2 vs _ [] [] _ (spells_enc v hwf'.1 hs'.1) Blanks.nil Blanks.nil ih
    simpa using this
theorem spells_encTags (br : Bool) (sep : UInt8) (hsep : (br = true ∧ sep = 44) ∨ sep = 32) :
    ∀ t : Tags, wfT t = true → Hs.Spec.strictT t = true → SpTags br t (encTags t sep)
  | .nil, _, _ => by simp only [encTags]; exact SpTags.nil br
  | .cons k v .nil, hwf, hs => by
    simp only [wfT, Bool.and_eq_true] at hwf
    simp only [Hs.Spec.strictT, Bool.and_eq_true] at hs
    rw [encTags_one]
    exact SpTags.one br k v _ (spTag_enc k v (spells_enc v hwf.1 hs.1))
  | .cons k v (.cons k2 v2 t), hwf, hs => by
    have hwf' := hwf
    have hs' := hs
    simp only [wfT, Bool.and_eq_true] at hwf'
    simp only [Hs.Spec.strictT, Bool.and_eq_true] at hs'
    have ih := spells_encTags br sep hsep (.cons k2 v2 t) (by simp only [wfT, Bool.and_eq_true]; exact hwf'.2)
      (by simp only [Hs.Spec.strictT, Bool.and_eq_true]; exact hs'.2)
    rw [encTags_cons2]
    rcases hsep with ⟨rfl, rfl⟩ | rfl
    · have := SpTags.comma k v k2 v2 t _ [] [] _ (spTag_enc k v (spells_enc v hwf'.1 hs'.1)) Blanks.nil Blanks.nil ih
      simpa using this
    · have := SpTags.space br k v k2 v2 t _ [32] _ (spTag_enc k v (spells_enc v hwf'.1 hs'.1)) blanks_one (by simp) ih
      simpa using this
theorem spells_encMeta : ∀ md : OTags, wfO md = true → Hs.Spec.strictO md = true → metaShape md = true →
    SpMeta md (metaPart md)
  | .none, _, _, _ => by simp only [metaPart]; exact SpMeta.none
  | .some .nil, _, _, hm => by simp [metaShape, Tags.isEmpty] at hm
  | .some (.cons k v t), hwf, hs, _ => by
    simp only [wfO] at hwf
    simp only [Hs.Spec.strictO] at hs
    simp only [metaPart, Tags.isEmpty, Bool.false_eq_true, if_false]
    exact SpMeta.some _ [32] _ blanks_one (by simp) (spells_encTags false 32 (Or.inr rfl) (.cons k v t) hwf hs)
theorem spells_encCols : ∀ c : Cols, c ≠ .nil → wfC c = true → Hs.Spec.strictC c = true → colsShapeAux c = true →
    SpCols c (encCols c)
  | .nil, h, _, _, _ => absurd rfl h
  | .cons n md .nil, _, hwf, hs, hsh => by
    simp only [wfC, Bool.and_eq_true] at hwf
    simp only [Hs.Spec.strictC, Bool.and_eq_true] at hs
    obtain ⟨_, h2, _⟩ := colsShapeAux_tail hsh
    rw [encCols_one]
    exact SpCols.one n md _ (spells_encMeta md hwf.1 hs.1 h2)
  | .cons n md (.cons n2 md2 c), _, hwf, hs, hsh => by
    have hwf' := hwf
    have hs' := hs
    simp only [wfC, Bool.and_eq_true] at hwf'
    simp only [Hs.Spec.strictC, Bool.and_eq_true] at hs'
    obtain ⟨_, h2, h3⟩ := colsShapeAux_tail hsh
    have ih := spells_encCols (.cons n2 md2 c) (by simp) (by simp only [wfC, Bool.and_eq_true]; exact hwf'.2)
      (by simp only [Hs.Spec.strictC, Bool.and_eq_true]; exact hs'.2) h3
    rw [encCols_cons2]
    have := SpCols.cons n md n2 md2 c _ [] _ (spells_encMeta md hwf'.1 hs'.1 h2) Blanks.nil ih
    simpa using this
theorem spells_encCells : ∀ r : Tags, wfT r = true → Hs.Spec.strictT r = true → SpCells r (encCells r)
  | .nil, _, _ => by simp only [encCells]; exact SpCells.nil
  | .cons k v t, hwf, hs => by
    simp only [wfT, Bool.and_eq_true] at hwf
    simp only [Hs.Spec.strictT, Bool.and_eq_true] at hs
    simp only [encCells]
    exact SpCells.cons k v t _ _ (spells_enc v hwf.1 hs.1) (spells_encCells t hwf.2 hs.2)
theorem spells_encRows (names : List (List Char)) (single : Bool) (hne : names ≠ []) :
    ∀ rows : Rows, wfR rows = true → Hs.Spec.strictR rows = true → rowsShape names single rows = true →
      SpRows names rows (encRows rows names single)
  | .nil, _, _, _ => by simp only [encRows]; exact SpRows.nil names
  | .cons r rs, hwf, hs, hsh => by
    simp only [wfR, Bool.and_eq_true] at hwf
    simp only [Hs.Spec.strictR, Bool.and_eq_true] at hs
    simp only [rowsShape, Bool.and_eq_true] at hsh
    obtain ⟨_, _, p3⟩ := rowShape_parts hsh.1
    simp only [encRows]
    have hl := rowLine_sp (encCells r) single names hne
      (fun n hn => cellOf_encCells_sp r n single (fun h => p3 h n hn))
    have := SpRows.cons names r rs _ _ [] [10] _ (spells_encCells r hwf.1 hs.1) hl Blanks.nil Nl.lf
      (spells_encRows names single hne rs hwf.2 hs.2 hsh.2)
    simpa using this
end

theorem spGrid_enc (md : OTags) (cols : Cols) (rows : Rows) (ver : List Char)
    (hwf : wfV (.grid md cols rows ver) = true) (hs : Hs.Spec.strictV (.grid md cols rows ver) = true) :
    SpGrid md cols rows ver (verBytes ++ metaPart md ++ [10] ++ encCols cols ++ [10]
      ++ encRows rows cols.names (cols.length == 1)) := by
  simp only [wfV, Bool.and_eq_true] at hwf
  obtain ⟨⟨⟨⟨⟨⟨_, hms⟩, hcs⟩, hrs⟩, hwo⟩, hwc⟩, hwr⟩ := hwf
  simp only [Hs.Spec.strictV, Bool.and_eq_true] at hs
  simp only [colsShape, Bool.and_eq_true] at hcs
  have hcne : cols ≠ .nil := by
    intro e; rw [e] at hcs; simp at hcs
  have hnne : cols.names ≠ [] := by
    cases cols with
    | nil => exact absurd rfl hcne
    | cons n cm c => simp [Cols.names]
  have := SpGrid.mk md cols rows ver _ [] [10] _ [] [10] _ (spells_encMeta md hwo hs.1.1 hms) Blanks.nil Nl.lf
    (spells_encCols cols hcne hwc hs.1.2 hcs.1.2) Blanks.nil Nl.lf
    (spells_encRows cols.names (cols.length == 1) hnne rows hwr hs.2 hrs)
  simpa [verBytes] using this

theorem enc_top_eq : ∀ v : Val, (∀ md cols rows ver, v ≠ .grid md cols rows ver) → enc v false = enc v true
  | .grid md cols rows ver, h => absurd rfl (h md cols rows ver)
  | .null, _ => by simp [enc]
  | .remove, _ => by simp [enc]
  | .marker, _ => by simp [enc]
  | .bool _, _ => by simp [enc]
  | .na, _ => by simp [enc]
  | .num _, _ => by simp [enc]
  | .str _, _ => by simp [enc]
  | .uri _, _ => by simp [enc]
  | .ref _ _, _ => by simp [enc]
  | .sym _, _ => by simp [enc]
  | .date _, _ => by simp [enc]
  | .time _, _ => by simp [enc]
  | .dateTime _, _ => by simp [enc]
  | .coord _ _, _ => by simp [enc]
  | .xstr _ _, _ => by simp [enc]
  | .list _, _ => by rw [enc, enc]
  | .dict _, _ => by rw [enc, enc]

/-- **the writer's document is one of the spellings** -/
theorem spellsTop_encode (v : Val) (hwf : wfV v = true) (hs : Hs.Spec.strictV v = true) : SpellsTop v (encode v) := by
  by_cases hg : ∃ md cols rows ver, v = .grid md cols rows ver
  · obtain ⟨md, cols, rows, ver, rfl⟩ := hg
    have hwf0 := hwf
    simp only [wfV, Bool.and_eq_true, colsShape] at hwf
    cases cols with
    | nil => simp at hwf
    | cons n cm c =>
      have hb := spGrid_enc md (.cons n cm c) rows ver hwf0 hs
      have := SpellsTop.gridNl md (.cons n cm c) rows ver [] _ [] [10] [] Blanks.nil hb Blanks.nil Nl.lf White.nil
        (fun _ _ => by
          rw [show verBytes ++ metaPart md ++ [10] ++ encCols (.cons n cm c) ++ [10]
              ++ encRows rows (Cols.names (.cons n cm c)) (Cols.length (.cons n cm c) == 1)
            = (verBytes ++ metaPart md ++ [10] ++ encCols (.cons n cm c)) ++ ([10]
              ++ encRows rows (Cols.names (.cons n cm c)) (Cols.length (.cons n cm c) == 1)) by simp]
          rw [getLast?_append_ne _ _ (by simp), encRows_last]
          decide)
      unfold encode
      rw [enc_grid_top]
      simpa [gridBody, tailR] using this
  · have hng : ∀ md cols rows ver, v ≠ .grid md cols rows ver := fun md cols rows ver e => hg ⟨md, cols, rows, ver, e⟩
    unfold encode
    rw [enc_top_eq v hng]
    have := SpellsTop.other v [] _ [] hng Blanks.nil (spells_enc v hwf hs) ⟨White.nil, fun b e => by cases e⟩
    simpa using this

end Hs.Zinc
