/-
  Lemmas for C18: the ownership protocol stated over the history (counting allocations and destroys,
  "since the pointer was returned nothing touched its container") against the allocator's view `step`.
  Histories are kept latest-event-first (`past`), so that a new event is a `cons`.
-/
import Hs.Model.COwn
namespace Hs.COwn
open Hs

def isAlloc (o : Obj) : Ev → Bool
  | .alloc o' => o' == o
  | _ => false

def isFree (o : Obj) : Ev → Bool
  | .free _ o' => o' == o
  | _ => false

/-- how often `o` was handed out / taken back in a history -/
def allocs (o : Obj) (t : List Ev) : Nat := t.countP (isAlloc o)
def frees (o : Obj) (t : List Ev) : Nat := t.countP (isFree o)

/-- the caller owns `o`: handed out once, not yet destroyed -/
def Owned (past : List Ev) (o : Obj) : Prop := allocs o past = 1 ∧ frees o past = 0

/-- the event modifies or destroys `o` -/
def touches (o : Obj) : Ev → Bool
  | .mutate o' => o' == o
  | .free _ o' => o' == o
  | _ => false

/-- pointer `b` into `o` was returned, and no later event modified or destroyed `o` (`past` is latest first) -/
def VB (past : List Ev) (b : Nat) (o : Obj) : Prop :=
  ∃ recent older, past = recent ++ Ev.borrow b o :: older ∧ ∀ e ∈ recent, touches o e = false

/-- the documented protocol, as the precondition of an event in terms of the history before it -/
def Pre (past : List Ev) : Ev → Prop
  | .alloc o => allocs o past = 0                  -- a handed-out object is a new object
  | .free c o => o.cls = c ∧ Owned past o          -- destroyed by its own destroy function, while owned (so: once)
  | .use o => Owned past o                         -- never passed after it was destroyed
  | .mutate o => Owned past o
  | .borrow _ o => Owned past o
  | .deref b => ∃ o, VB past b o                   -- entry pointers only while the container is alive and unmodified

/-- a history follows the protocol -/
def Follows : List Ev → List Ev → Prop
  | _, [] => True
  | past, e :: t => Pre past e ∧ Follows (e :: past) t

/-- everything handed out was destroyed -/
def Complete (t : List Ev) : Prop := ∀ o, allocs o t = frees o t

/-- allocator's view vs. history -/
structure Inv (past : List Ev) (h : Heap) : Prop where
  live_iff : ∀ o, o ∈ h.live ↔ Owned past o
  nodup : h.live.Nodup
  borrow_iff : ∀ b o, (b, o) ∈ h.borrows ↔ VB past b o
  frees_le : ∀ o, frees o past ≤ allocs o past

theorem allocs_cons (o : Obj) (e : Ev) (t : List Ev) :
    allocs o (e :: t) = allocs o t + (if isAlloc o e then 1 else 0) := by
  simp [allocs, List.countP_cons]

theorem frees_cons (o : Obj) (e : Ev) (t : List Ev) :
    frees o (e :: t) = frees o t + (if isFree o e then 1 else 0) := by
  simp [frees, List.countP_cons]

theorem vb_cons (e : Ev) (past : List Ev) (b : Nat) (o : Obj) :
    VB (e :: past) b o ↔ e = .borrow b o ∨ (touches o e = false ∧ VB past b o) := by
  constructor
  · intro ⟨recent, older, h1, h2⟩
    cases recent with
    | nil =>
      simp at h1
      exact .inl h1.1
    | cons e' recent =>
      simp at h1
      obtain ⟨he, hp⟩ := h1
      subst he
      refine .inr ⟨h2 e (List.mem_cons_self), recent, older, hp, ?_⟩
      intro x hx
      exact h2 x (List.mem_cons_of_mem _ hx)
  · intro h
    rcases h with h | ⟨ht, recent, older, h1, h2⟩
    · exact ⟨[], past, by simp [h], by simp⟩
    · refine ⟨e :: recent, older, by simp [h1], ?_⟩
      intro x hx
      rcases List.mem_cons.mp hx with hx | hx
      · rw [hx]; exact ht
      · exact h2 x hx

theorem inv_empty : Inv [] Heap.empty :=
  ⟨by intro o; simp [Heap.empty, Owned, allocs], by simp [Heap.empty],
   by intro b o; simp [Heap.empty, VB], by intro o; simp [frees, allocs]⟩

theorem mem_dropBorrows (bs : List (Nat × Obj)) (o : Obj) (b : Nat) (o' : Obj) :
    (b, o') ∈ dropBorrows bs o ↔ (b, o') ∈ bs ∧ o' ≠ o := by
  simp [dropBorrows]

/-- one event: if its precondition holds in the history, the allocator accepts it and stays in step -/
theorem step_ok {past : List Ev} {h : Heap} (inv : Inv past h) (e : Ev) (pre : Pre past e) :
    ∃ h', step h e = .ok h' ∧ Inv (e :: past) h' := by
  cases e with
  | alloc o =>
    have hnot : o ∉ h.live := by
      intro hm
      have := (inv.live_iff o).mp hm
      simp only [Pre] at pre
      rw [this.1] at pre
      cases pre
    have hf0 : frees o past = 0 := by
      have := inv.frees_le o
      simp only [Pre] at pre
      omega
    refine ⟨{ h with live := o :: h.live }, by simp [step, hnot], ?_, ?_, ?_, ?_⟩
    · intro o'
      by_cases ho : o' = o
      · subst ho
        simp only [Pre] at pre
        simp [Owned, allocs_cons, frees_cons, isAlloc, isFree, pre, hf0]
      · have h1 : (o == o') = false := by simp; exact fun e => ho e.symm
        simp [Owned, allocs_cons, frees_cons, isAlloc, isFree, h1, ho]
        exact inv.live_iff o'
    · exact List.nodup_cons.mpr ⟨hnot, inv.nodup⟩
    · intro b o'
      simp [vb_cons, touches, ← inv.borrow_iff b o']
    · intro o'
      have := inv.frees_le o'
      simp only [allocs_cons, frees_cons, isFree]
      by_cases hx : isAlloc o' (Ev.alloc o) = true <;> simp [hx] <;> omega
  | free c o =>
    obtain ⟨hc, hown⟩ := pre
    have hm : o ∈ h.live := (inv.live_iff o).mpr hown
    refine ⟨{ live := h.live.erase o, borrows := dropBorrows h.borrows o }, by simp [step, hc, hm], ?_, ?_, ?_, ?_⟩
    · intro o'
      by_cases ho : o' = o
      · subst ho
        simp [inv.nodup.mem_erase_iff, Owned, frees_cons, isFree]
      · have h1 : (o == o') = false := by simp; exact fun e => ho e.symm
        simp [inv.nodup.mem_erase_iff, ho, Owned, allocs_cons, frees_cons, isAlloc, isFree, h1]
        exact inv.live_iff o'
    · exact inv.nodup.erase o
    · intro b o'
      rw [mem_dropBorrows, vb_cons, inv.borrow_iff b o']
      simp [touches]
      constructor
      · intro ⟨h1, h2⟩; exact ⟨fun e => h2 e.symm, h1⟩
      · intro ⟨h1, h2⟩; exact ⟨h2, fun e => h1 e.symm⟩
    · intro o'
      have := inv.frees_le o'
      by_cases ho : o' = o
      · subst ho
        simp [allocs_cons, frees_cons, isAlloc, isFree, hown.1, hown.2]
      · have h1 : (o == o') = false := by simp; exact fun e => ho e.symm
        simp [allocs_cons, frees_cons, isAlloc, isFree, h1]
        exact this
  | use o =>
    have hm : o ∈ h.live := (inv.live_iff o).mpr pre
    refine ⟨h, by simp [step, hm], ?_, inv.nodup, ?_, ?_⟩
    · intro o'; simp [Owned, allocs_cons, frees_cons, isAlloc, isFree]
      exact (inv.live_iff o')
    · intro b o'; simp [vb_cons, touches, ← inv.borrow_iff b o']
    · intro o'; simpa [allocs_cons, frees_cons, isAlloc, isFree] using inv.frees_le o'
  | mutate o =>
    have hm : o ∈ h.live := (inv.live_iff o).mpr pre
    refine ⟨{ h with borrows := dropBorrows h.borrows o }, by simp [step, hm], ?_, inv.nodup, ?_, ?_⟩
    · intro o'; simp [Owned, allocs_cons, frees_cons, isAlloc, isFree]
      exact (inv.live_iff o')
    · intro b o'
      rw [mem_dropBorrows, vb_cons, inv.borrow_iff b o']
      simp [touches]
      constructor
      · intro ⟨h1, h2⟩; exact ⟨fun e => h2 e.symm, h1⟩
      · intro ⟨h1, h2⟩; exact ⟨h2, fun e => h1 e.symm⟩
    · intro o'; simpa [allocs_cons, frees_cons, isAlloc, isFree] using inv.frees_le o'
  | borrow b o =>
    have hm : o ∈ h.live := (inv.live_iff o).mpr pre
    refine ⟨{ h with borrows := (b, o) :: h.borrows }, by simp [step, hm], ?_, inv.nodup, ?_, ?_⟩
    · intro o'; simp [Owned, allocs_cons, frees_cons, isAlloc, isFree]
      exact (inv.live_iff o')
    · intro b' o'
      rw [vb_cons, ← inv.borrow_iff b' o']
      simp [touches]
      constructor
      · intro hx
        rcases hx with ⟨h1, h2⟩ | hx
        · exact .inl ⟨h1.symm, h2.symm⟩
        · exact .inr hx
      · intro hx
        rcases hx with ⟨h1, h2⟩ | hx
        · exact .inl ⟨h1.symm, h2.symm⟩
        · exact .inr hx
    · intro o'; simpa [allocs_cons, frees_cons, isAlloc, isFree] using inv.frees_le o'
  | deref b =>
    obtain ⟨o, hvb⟩ := pre
    have hm : (b, o) ∈ h.borrows := (inv.borrow_iff b o).mpr hvb
    have hany : h.borrows.any (fun p => p.1 == b) = true := by
      rw [List.any_eq_true]
      exact ⟨(b, o), hm, by simp⟩
    refine ⟨h, by simp [step, hany], ?_, inv.nodup, ?_, ?_⟩
    · intro o'; simp [Owned, allocs_cons, frees_cons, isAlloc, isFree]
      exact (inv.live_iff o')
    · intro b' o'; simp [vb_cons, touches, ← inv.borrow_iff b' o']
    · intro o'; simpa [allocs_cons, frees_cons, isAlloc, isFree] using inv.frees_le o'

/-- histories of any length -/
theorem run_ok : ∀ (t : List Ev) (past : List Ev) (h : Heap), Inv past h → Follows past t →
    ∃ h', run h t = .ok h' ∧ Inv (t.reverse ++ past) h'
  | [], past, h, inv, _ => ⟨h, rfl, by simpa using inv⟩
  | e :: t, past, h, inv, ⟨pre, fol⟩ => by
    obtain ⟨h1, hs, inv1⟩ := step_ok inv e pre
    obtain ⟨h2, hr, inv2⟩ := run_ok t (e :: past) h1 inv1 fol
    refine ⟨h2, by simp [run, hs, hr], ?_⟩
    simpa [List.reverse_cons, List.append_assoc] using inv2

end Hs.COwn
