/-
  C01 ladder: `TokRt` for finite numbers, `-INF`, coordinates, dates and times.
-/
import Hs.Lemmas.ZincRtTok
import Hs.Lemmas.ZincRtCoord
import Hs.Lemmas.ZincRtTime
import Hs.Lemmas.ZincRtDateTime
namespace Hs.Zinc
open Hs Hs.Scan

/-- decimal text of a finite number: ASCII, and as `numBytesOk` describes -/
def numTextOk (txt : List Char) : Bool := txt.all (fun c => c.toNat < 128) && numBytesOk (txt.map byteOf)

/-- a finite number the reader returns unchanged (lexically): decimal text, unit of the table -/
def finiteNumOk (n : Num) : Bool :=
  !Flt.isNaNBits n.v.bits && !Flt.isInfBits n.v.bits && numTextOk n.v.txt && unitOk n.unit

theorem all_ascii_mem {cs : List Char} (h : cs.all (fun c => c.toNat < 128) = true) : ∀ c ∈ cs, c.toNat < 128 := by
  simpa using h

theorem tok_num_finite (n : Num) (h : finiteNumOk n = true) : TokRt (.num n) := by
  simp only [finiteNumOk, numTextOk, Bool.and_eq_true, Bool.not_eq_eq_eq_not, Bool.not_true] at h
  obtain ⟨⟨⟨hnan, hinf⟩, hasc, hnb⟩, hu⟩ := h
  refine ⟨rfl, ?_⟩
  intro s rest fuel hat hs hd hf
  have henc : enc (.num n) true = n.v.txt.map byteOf ++ unitBytes n.unit := by
    rw [enc]
    simp only [encNum, hnan, hinf, Bool.false_eq_true, if_false]
    cases n.unit <;> simp [unitBytes, encChars_all_ascii hasc]
  rw [henc] at hat hf
  simp only [List.length_append] at hf
  obtain ⟨s', e, h', hs'⟩ := lexRead_num _ hnb n.unit hu s rest fuel (by simpa using hat) hs hd (by omega)
  refine ⟨s', ?_, Post.of_clean h' hs'⟩
  rw [e]
  simp [mkNum, lexImg, lexNumI, hnan, hinf, asciiChars_map_byteOf (all_ascii_mem hasc)]

theorem tok_neginf (n : Num) (h1 : Flt.isNaNBits n.v.bits = false) (h2 : Flt.isInfBits n.v.bits = true)
    (h3 : Flt.signBit n.v.bits = true) : TokRt (.num n) := by
  refine ⟨rfl, ?_⟩
  intro s rest fuel hat hs hd hf
  have henc : enc (.num n) true = [45, 73, 78, 70] := by
    rw [enc]; simp [encNum, h1, h2, h3]; decide
  rw [henc] at hat
  obtain ⟨s', e, h', hs'⟩ := lexRead_neginf s rest fuel (by simpa using hat) hs (by omega)
  refine ⟨s', ?_, Post.of_clean h' hs'⟩
  rw [e]
  simp [lexImg, lexNumI, h1, h2, h3]

/-- coordinate component text -/
def decTextOk (txt : List Char) : Bool := txt.all (fun c => c.toNat < 128) && decBytesOk (txt.map byteOf)

theorem tok_coord (a b : Flt) (ha : decTextOk a.txt = true) (hb : decTextOk b.txt = true) : TokRt (.coord a b) := by
  simp only [decTextOk, Bool.and_eq_true] at ha hb
  refine ⟨rfl, ?_⟩
  intro s rest fuel hat hs hd hf
  have henc : enc (.coord a b) true = 67 :: 40 :: (a.txt.map byteOf ++ 44 :: (b.txt.map byteOf ++ [41])) := by
    rw [enc]; simp [encChars_all_ascii ha.1, encChars_all_ascii hb.1]
  rw [henc] at hat hf
  simp only [List.length_cons, List.length_append, List.length_nil] at hf
  obtain ⟨s', e, h', hs'⟩ := lexRead_coord _ _ ha.2 hb.2 s rest fuel (by simpa using hat) hs (by omega)
  refine ⟨s', ?_, Post.of_clean h' hs'⟩
  rw [e]
  simp [lexImg, mkCoordFlt, asciiChars_map_byteOf (all_ascii_mem ha.1), asciiChars_map_byteOf (all_ascii_mem hb.1)]

theorem tok_date (d : Date) (h : dateOk d = true) : TokRt (.date d) := by
  refine ⟨rfl, ?_⟩
  intro s rest fuel hat hs hd hf
  have henc : enc (.date d) true = encChars d.txt := by rw [enc]
  rw [henc] at hat
  obtain ⟨s', e, h', hs'⟩ := lexRead_date d h s rest fuel hat hs hd (by omega)
  exact ⟨s', by simpa [lexImg] using e, Post.of_clean h' hs'⟩

theorem tok_time (t : Time) (h : timeOk t = true) : TokRt (.time t) := by
  refine ⟨rfl, ?_⟩
  intro s rest fuel hat hs hd hf
  have henc : enc (.time t) true = encChars t.txt := by rw [enc]
  rw [henc] at hat hf
  have := encChars_length_ge t.txt
  obtain ⟨s', e, h', hs'⟩ := lexRead_time t h s rest fuel hat hs hd (by omega)
  exact ⟨s', by simpa [lexImg] using e, Post.of_clean h' hs'⟩


/-- the text of a timestamp token: chrono's RFC 3339 text, plus the zone's city name unless the zone is UTC -/
def dtText (t : DateTime) : List Char :=
  if t.tzid == "UTC".toList then t.txt else t.txt ++ [' '] ++ t.zone

/-- a timestamp the reader accepts: ASCII token text of the shape `dtBytesOk` describes (valid calendar
fields, fraction digits, `Z` / `Z Name` / `±hh:mm Name` with a zone name the zone table resolves) -/
def dtOk (t : DateTime) : Bool :=
  (dtText t).all (fun c => c.toNat < 128) && dtBytesOk ((dtText t).map byteOf)

theorem encDateTime_eq (t : DateTime) : encDateTime t = encChars (dtText t) := by
  unfold encDateTime dtText
  by_cases h : (t.tzid == "UTC".toList) = true
  · simp only [h, if_true]
  · simp only [h, Bool.false_eq_true, if_false]
    rw [encChars_append, encChars_append]
    have : encChars [' '] = [32] := by decide
    rw [this]

theorem tok_datetime (t : DateTime) (h : dtOk t = true) : TokRt (.dateTime t) := by
  simp only [dtOk, Bool.and_eq_true] at h
  refine ⟨rfl, ?_⟩
  intro s rest fuel hat hs hd hf
  have henc : enc (.dateTime t) true = (dtText t).map byteOf := by
    rw [enc, encDateTime_eq, encChars_all_ascii h.1]
  rw [henc] at hat hf
  obtain ⟨s', e, hp⟩ := lexRead_datetime _ h.2 s rest fuel hat hs hd (by omega)
  refine ⟨s', ?_, hp⟩
  rw [e, asciiChars_map_byteOf (all_ascii_mem h.1)]
  simp [lexImg, dtVal, dtText]

end Hs.Zinc
