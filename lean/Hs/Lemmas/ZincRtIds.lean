/-
  C01 ladder, rung 3c: identifiers, Ref (with and without dis), Symbol, XStr.
-/
import Hs.Lemmas.ZincRtStr
namespace Hs.Zinc
open Hs Hs.Scan

/-! ### ASCII texts -/

/-- the byte of an ASCII character -/
def byteOf (c : Char) : UInt8 := UInt8.ofNat c.toNat

/-- every character is ASCII and its byte satisfies `P` -/
def AllB (P : UInt8 → Bool) (cs : List Char) : Bool := cs.all (fun c => c.toNat < 128 && P (byteOf c))

theorem AllB_cons {P : UInt8 → Bool} {c : Char} {cs : List Char} :
    AllB P (c :: cs) = true ↔ (c.toNat < 128 ∧ P (byteOf c) = true) ∧ AllB P cs = true := by
  simp [AllB]

theorem encChars_ascii {P : UInt8 → Bool} : ∀ {cs : List Char}, AllB P cs = true →
    encChars cs = cs.map byteOf ∧ ∀ b ∈ cs.map byteOf, P b = true := by
  intro cs
  induction cs with
  | nil => intro _; simp
  | cons c cs ih =>
    intro h
    obtain ⟨⟨h1, h2⟩, h3⟩ := AllB_cons.mp h
    obtain ⟨e, hp⟩ := ih h3
    rw [encChars_cons, encChar_ascii c h1, e]
    refine ⟨rfl, ?_⟩
    intro b hb
    simp only [List.map_cons, List.mem_cons] at hb
    rcases hb with rfl | hb
    · exact h2
    · exact hp b hb

theorem chr_byteOf (c : Char) (h : c.toNat < 128) : chr (byteOf c) = c := by
  unfold chr byteOf
  rw [u8_ofNat_toNat (by omega), Char.ofNat_toNat]

/-- a reader loop stops at `rest`: it is empty or starts with a byte outside the loop's class -/
def Stop (P : UInt8 → Bool) (rest : List UInt8) : Prop := ∀ b r, rest = b :: r → P b = false

theorem Stop_nil (P : UInt8 → Bool) : Stop P [] := by intro b r h; cases h
theorem Stop_cons {P : UInt8 → Bool} {b : UInt8} {r : List UInt8} (h : P b = false) : Stop P (b :: r) := by
  intro b' r' e; cases e; exact h

/-! ### the id alphabets -/

def isAlnumB (b : UInt8) : Bool := isDigitB b || isLowerB b || isUpperB b
def isRefB (b : UInt8) : Bool := isAlnumB b || isRefPunct b
def isLitB (b : UInt8) : Bool := isAlnumB b || b == 95

theorem refLoop_rt (bs : List UInt8) (hbs : ∀ b ∈ bs, isRefB b = true) :
    ∀ (s : Scan) (rest : List UInt8) (fuel : Nat) (acc : List UInt8), At s (bs ++ rest) → Stop isRefB rest →
    bs.length < fuel → refLoop fuel s acc = .ok (acc ++ bs, advN bs.length s) := by
  induction bs with
  | nil =>
    intro s rest fuel acc h hst hf
    obtain ⟨f, rfl⟩ : ∃ f, fuel = f + 1 := ⟨fuel - 1, by omega⟩
    rw [refLoop]
    cases rest with
    | nil => simp [At.eof_nil h, advN]
    | cons b r =>
      have := hst b r rfl
      simp only [isRefB, isAlnumB] at this
      simp [h.eof, h.cur, Scan.isAlphaNum, Scan.isDigit, Scan.isLower, Scan.isUpper, this, advN]
  | cons b bs ih =>
    intro s rest fuel acc h hst hf
    obtain ⟨f, rfl⟩ : ∃ f, fuel = f + 1 := ⟨fuel - 1, by omega⟩
    have hb := hbs b (by simp)
    simp only [isRefB, isAlnumB] at hb
    simp only [List.cons_append] at h
    rw [refLoop]
    simp only [h.eof, h.cur, Scan.isAlphaNum, Scan.isDigit, Scan.isLower, Scan.isUpper, hb]
    simp only [Bool.not_false, Bool.and_self, if_true]
    rw [ih (fun x hx => hbs x (by simp [hx])) s.advance rest f _ h.advance hst (by simpa using hf)]
    simp [advN]

theorem literalLoop_rt (bs : List UInt8) (hbs : ∀ b ∈ bs, isLitB b = true) :
    ∀ (s : Scan) (rest : List UInt8) (fuel : Nat) (acc : List UInt8), At s (bs ++ rest) → Stop isLitB rest →
    bs.length < fuel → literalLoop fuel s acc = .ok (acc ++ bs, advN bs.length s) := by
  induction bs with
  | nil =>
    intro s rest fuel acc h hst hf
    obtain ⟨f, rfl⟩ : ∃ f, fuel = f + 1 := ⟨fuel - 1, by omega⟩
    rw [literalLoop]
    cases rest with
    | nil => simp [At.eof_nil h, advN]
    | cons b r =>
      have := hst b r rfl
      simp only [isLitB, isAlnumB] at this
      simp [h.eof, h.cur, Scan.isAlphaNum, Scan.isDigit, Scan.isLower, Scan.isUpper, this, advN]
  | cons b bs ih =>
    intro s rest fuel acc h hst hf
    obtain ⟨f, rfl⟩ : ∃ f, fuel = f + 1 := ⟨fuel - 1, by omega⟩
    have hb := hbs b (by simp)
    simp only [isLitB, isAlnumB] at hb
    simp only [List.cons_append] at h
    rw [literalLoop]
    simp only [h.eof, h.cur, Scan.isAlphaNum, Scan.isDigit, Scan.isLower, Scan.isUpper, hb]
    simp only [Bool.not_false, Bool.and_self, if_true]
    rw [ih (fun x hx => hbs x (by simp [hx])) s.advance rest f _ h.advance hst (by simpa using hf)]
    simp [advN]


/-! ### `parseLiteral`, `parseId` -/

theorem parseLiteral_rt (cs : List Char) (hcs : AllB isLitB cs = true) (hne : cs ≠ [])
    (s : Scan) (rest : List UInt8) (fuel : Nat) (h : At s (encChars cs ++ rest)) (hst : Stop isLitB rest)
    (hf : cs.length < fuel) :
    parseLiteral fuel s = .ok (cs, advN cs.length s) ∧ At (advN cs.length s) rest := by
  obtain ⟨e, hp⟩ := encChars_ascii hcs
  have hl : (cs.map byteOf).length = cs.length := by simp
  have hat : At (advN cs.length s) rest := by
    rw [e] at h; rw [← hl]; exact h.advN
  refine ⟨?_, hat⟩
  unfold parseLiteral
  rw [e] at h
  rw [literalLoop_rt _ hp s rest fuel [] h hst (by omega)]
  have : (cs.map byteOf).isEmpty = false := by cases cs <;> simp_all
  simp only [List.nil_append, this, hl]
  rw [← e, lossy_encChars]; rfl

/-- identifier: a lower-case ASCII letter followed by ASCII letters, digits and `_` -/
def isIdent (cs : List Char) : Bool :=
  match cs with
  | [] => false
  | c :: r => c.toNat < 128 && isLowerB (byteOf c) && AllB isLitB r

theorem isIdent_lit {cs : List Char} (h : isIdent cs = true) : AllB isLitB cs = true ∧ cs ≠ [] := by
  cases cs with
  | nil => simp [isIdent] at h
  | cons c r =>
    simp only [isIdent, Bool.and_eq_true, decide_eq_true_eq] at h
    refine ⟨AllB_cons.mpr ⟨⟨h.1.1, ?_⟩, h.2⟩, by simp⟩
    simp [isLitB, isAlnumB, h.1.2]

theorem parseId_rt (cs : List Char) (hcs : isIdent cs = true)
    (s : Scan) (rest : List UInt8) (fuel : Nat) (h : At s (encChars cs ++ rest)) (hst : Stop isLitB rest)
    (hf : cs.length < fuel) :
    parseId fuel s = .ok (cs, advN cs.length s) ∧ At (advN cs.length s) rest := by
  obtain ⟨hl, hne⟩ := isIdent_lit hcs
  obtain ⟨e, hat⟩ := parseLiteral_rt cs hl hne s rest fuel h hst hf
  refine ⟨?_, hat⟩
  unfold parseId
  cases cs with
  | nil => exact absurd rfl hne
  | cons c r =>
    simp only [isIdent, Bool.and_eq_true, decide_eq_true_eq] at hcs
    rw [encChars_cons, encChar_ascii c hcs.1.1] at h
    simp only [List.cons_append, List.nil_append] at h
    have : s.isLower = true := by
      unfold Scan.isLower; rw [h.cur]; exact hcs.1.2
    simp [this, e]

/-! ### Ref -/

/-- what may follow a Ref without display name: nothing, a byte outside the id alphabet other than a
space, or a space followed by a byte other than `"` (the reader peeks one byte after the space; a space followed by
`"` starts a display name; a space at the very end of the input also ends the Ref, with the scanner's
`is_eof` flag already up — that case does not occur in writer output and is not covered here) -/
def RefEnd (rest : List UInt8) : Prop :=
  rest = [] ∨ (∃ b r, rest = b :: r ∧ isRefB b = false ∧ b ≠ 32) ∨ (∃ x r, rest = 32 :: x :: r ∧ x ≠ 34)

theorem RefEnd.stop {rest : List UInt8} (h : RefEnd rest) : Stop isRefB rest := by
  rcases h with rfl | ⟨b, r, rfl, hb, _⟩ | ⟨x, r, rfl, _⟩
  · exact Stop_nil _
  · exact Stop_cons hb
  · exact Stop_cons (by decide)

theorem parseRef_nodis (id : List Char) (hid : AllB isRefB id = true) (hne : id ≠ [])
    (s : Scan) (rest : List UInt8) (fuel : Nat) (h : At s (64 :: encChars id ++ rest)) (hs : s.stash = [])
    (hend : RefEnd rest) (hf : id.length < fuel) :
    ∃ s', parseRef fuel s = .ok (.ref id none, s') ∧ At s' rest ∧ s'.stash.length ≤ 1 ∧
      (rest.head? ≠ some 32 → s'.stash = []) := by
  obtain ⟨e, hp⟩ := encChars_ascii hid
  have hl : (id.map byteOf).length = id.length := by simp
  rw [e] at h
  simp only [List.cons_append] at h
  have h1 : At (advN id.length s.advance) rest := by rw [← hl]; exact h.advance.advN
  have hs1 : (advN id.length s.advance).stash = [] := advN_stash_nil _ _ (by rw [At.advance_stash, hs]; rfl)
  have hne' : (id.map byteOf).isEmpty = false := by cases id <;> simp_all
  unfold parseRef
  simp only [h.cur, bne_self_eq_false, Bool.false_eq_true, if_false]
  rw [refLoop_rt _ hp s.advance rest fuel [] h.advance hend.stop (by omega)]
  simp only [List.nil_append, hne', Bool.false_eq_true, if_false, hl]
  rw [← e, lossy_encChars]
  rcases hend with rfl | ⟨b, r, rfl, hb, hb32⟩ | ⟨x, r, rfl, hx⟩
  · refine ⟨_, ?_, h1, by simp [hs1], fun _ => hs1⟩
    simp [At.eof_nil h1]
  · refine ⟨_, ?_, h1, by simp [hs1], fun _ => hs1⟩
    simp [h1.eof, h1.cur, hb32]
  · obtain ⟨s2, e2, h2, hs2, _, _⟩ := h1.peek0' hs1
    refine ⟨s2, ?_, h2, by omega, fun hh => absurd rfl hh⟩
    simp [h1.eof, h1.cur, e2, hx]

theorem parseRef_dis (id : List Char) (hid : AllB isRefB id = true) (hne : id ≠ []) (dis : List Char)
    (s : Scan) (rest : List UInt8) (fuel : Nat)
    (h : At s (64 :: encChars id ++ 32 :: encQuoted dis ++ rest)) (hs : s.stash = [])
    (hf : id.length + (encQuoted dis).length < fuel) :
    ∃ s', parseRef fuel s = .ok (.ref id (some dis), s') ∧ At s' rest ∧ s'.stash = [] := by
  obtain ⟨e, hp⟩ := encChars_ascii hid
  have hl : (id.map byteOf).length = id.length := by simp
  rw [e] at h
  simp only [List.cons_append, List.append_assoc] at h
  have h1 : At (advN id.length s.advance) (32 :: (encQuoted dis ++ rest)) := by rw [← hl]; exact h.advance.advN
  have hs1 : (advN id.length s.advance).stash = [] := advN_stash_nil _ _ (by rw [At.advance_stash, hs]; rfl)
  have hne' : (id.map byteOf).isEmpty = false := by cases id <;> simp_all
  have hq : encQuoted dis ++ rest = 34 :: (dis.flatMap encStrChar ++ 34 :: rest) := by simp [encQuoted]
  rw [hq] at h1
  obtain ⟨s2, e2, h2, hs2, _, _⟩ := h1.peek0' hs1
  have h3 := h2.advance
  have hs3 : s2.advance.stash = [] := advance_stash_nil (by omega)
  rw [← hq] at h3
  obtain ⟨s4, e4, h4, hs4⟩ := parseStr_rt dis s2.advance rest fuel h3 (by omega)
  refine ⟨s4, ?_, h4, hs4 hs3⟩
  unfold parseRef
  simp only [h.cur, bne_self_eq_false, Bool.false_eq_true, if_false]
  rw [refLoop_rt _ hp s.advance _ fuel [] h.advance (Stop_cons (by decide)) (by omega)]
  simp only [List.nil_append, hne', Bool.false_eq_true, if_false, hl]
  rw [← e, lossy_encChars]
  simp [h1.eof, h1.cur, e2, h2.readQ, e4]

/-! ### Symbol -/

/-- Symbol body: a lower-case ASCII letter followed by id characters -/
def isSymBody (cs : List Char) : Bool :=
  match cs with
  | [] => false
  | c :: r => c.toNat < 128 && isLowerB (byteOf c) && AllB isRefB r

theorem parseSymbol_rt (cs : List Char) (hcs : isSymBody cs = true)
    (s : Scan) (rest : List UInt8) (fuel : Nat) (h : At s (94 :: encChars cs ++ rest)) (hst : Stop isRefB rest)
    (hf : cs.length < fuel) :
    parseSymbol fuel s = .ok (.sym cs, advN cs.length s.advance) ∧ At (advN cs.length s.advance) rest := by
  cases cs with
  | nil => simp [isSymBody] at hcs
  | cons c r =>
    simp only [isSymBody, Bool.and_eq_true, decide_eq_true_eq] at hcs
    have hall : AllB isRefB (c :: r) = true :=
      AllB_cons.mpr ⟨⟨hcs.1.1, by simp [isRefB, isAlnumB, hcs.1.2]⟩, hcs.2⟩
    obtain ⟨e, hp⟩ := encChars_ascii hall
    have hl : ((c :: r).map byteOf).length = (c :: r).length := by simp
    rw [e] at h
    simp only [List.cons_append] at h
    have h0 := h.advance
    have hat : At (advN (c :: r).length s.advance) rest := by rw [← hl]; exact h0.advN
    refine ⟨?_, hat⟩
    unfold parseSymbol
    simp only [h.cur, bne_self_eq_false, Bool.false_eq_true, if_false]
    have hlow : s.advance.isLower = true := by
      unfold Scan.isLower
      simp only [List.map_cons] at h0
      rw [h0.cur]; exact hcs.1.2
    simp only [hlow, Bool.not_true, Bool.false_eq_true, if_false]
    rw [refLoop_rt _ hp s.advance rest fuel [] h0 hst (by simp at hf ⊢; omega)]
    have hne' : (List.map byteOf (c :: r)).isEmpty = false := by simp
    simp only [List.nil_append, hl, hne', Bool.false_eq_true, if_false]
    rw [← e, lossy_encChars]


/-! ### XStr body -/

theorem isSpace_of_cur {s : Scan} {b : UInt8} (h : s.cur = b) (h1 : b ≠ 32) (h2 : b ≠ 9) : s.isSpace = false := by
  unfold Scan.isSpace; rw [h]; simp [h1, h2]

theorem parseXStrBody_rt (name v : List Char) (s : Scan) (rest : List UInt8) (fuel : Nat)
    (h : At s (40 :: encQuoted v ++ 41 :: rest)) (hs : s.stash = [])
    (hf : (encQuoted v).length < fuel) :
    ∃ s', parseXStrBody fuel name s = .ok (.xstr name v, s') ∧ At s' rest ∧ s'.stash = [] := by
  obtain ⟨f, rfl⟩ : ∃ f, fuel = f + 1 := ⟨fuel - 1, by omega⟩
  simp only [List.cons_append] at h
  have h0 := h.advance
  have hs0 : s.advance.stash = [] := by rw [At.advance_stash, hs]; rfl
  have hq : encQuoted v ++ 41 :: rest = 34 :: (v.flatMap encStrChar ++ 34 :: 41 :: rest) := by simp [encQuoted]
  have hsp0 : s.advance.isSpace = false := by
    rw [hq] at h0; exact isSpace_of_cur h0.cur (by decide) (by decide)
  obtain ⟨s2, e2, h2, hs2⟩ := parseStr_rt v s.advance (41 :: rest) (f + 1) h0 (by omega)
  have hsp2 : s2.isSpace = false := isSpace_of_cur h2.cur (by decide) (by decide)
  refine ⟨s2.advance, ?_, h2.advance, by rw [At.advance_stash, hs2 hs0]; rfl⟩
  unfold parseXStrBody
  simp [h.cur, consumeSpaces_none hsp0, e2, consumeSpaces_none hsp2, h2.cur]

end Hs.Zinc
