/-
  C04 read direction, numbers (4): the writer's number text is one of the grammar's spellings.
-/
import Hs.Lemmas.ZincSpellBase
import Hs.Lemmas.ZincRtTok2
import Hs.Lemmas.ZincRtWf
import Hs.Lemmas.SpecRtVal
namespace Hs.Zinc
open Hs Hs.Scan Hs.Spell

theorem digits_self (d : UInt8) (r : List UInt8) (h : ∀ x ∈ d :: r, isDigitB x = true) : Digits (d :: r) (d :: r) := by
  refine ⟨h, ?_, d, r, rfl, h d (by simp)⟩
  rw [List.filter_eq_self]
  intro x hx
  have := h x hx
  simp only [bne_iff_ne, ne_eq]
  intro e; subst e; revert this; decide

theorem decimal_of_parts (neg : Bool) (body : List UInt8) (hp : Hs.Spec.DecParts body) :
    Decimal ((if neg then [45] else []) ++ body) ((if neg then [45] else []) ++ body) := by
  obtain ⟨b, ip, fp, rfl, hip, hfp⟩ := hp
  rcases hfp with rfl | ⟨c, fr, rfl, hfr⟩
  · have := Decimal.int neg (b :: ip) (b :: ip) (digits_self b ip hip)
    simpa using this
  · have := Decimal.frac neg (b :: ip) (b :: ip) (c :: fr) (c :: fr) (digits_self b ip hip) (digits_self c fr hfr)
    simpa using this

theorem decimal_of_strictDec (tb : List UInt8) (h : Hs.Spec.strictDec tb = true) : Decimal tb tb := by
  unfold Hs.Spec.strictDec at h
  split at h
  · have := decimal_of_parts true _ (Hs.Spec.strictBody_parts h)
    simpa using this
  · have := decimal_of_parts false _ (Hs.Spec.strictBody_parts h)
    simpa using this

/-- the writer's text is one of the spellings (finite numbers printed as `-?d+(.d+)?`, i.e. `strictText`) -/
theorem decimal_of_strict (txt : List Char) (hasc : txt.all (fun c => c.toNat < 128) = true)
    (h : Hs.Spec.strictText txt = true) :
    Decimal (txt.map byteOf) (txt.map byteOf) ∧ txt = chars (txt.map byteOf) := by
  refine ⟨decimal_of_strictDec _ h, ?_⟩
  rw [chars_eq, asciiChars_map_byteOf (all_ascii_mem hasc)]

theorem numSp_enc (n : Num) (hn : numOk n = true) (hs : Hs.Spec.strictNum n = true) : NumSp n (encNum n) := by
  unfold numOk at hn
  unfold Hs.Spec.strictNum at hs
  by_cases h1 : Flt.isNaNBits n.v.bits = true
  · have he : encNum n = [78, 97, 78] := by simp [encNum, h1]; decide
    rw [he]; exact NumSp.nan n h1
  · simp only [Bool.not_eq_true] at h1
    simp only [h1, Bool.false_eq_true, if_false, Bool.false_or] at hn hs
    by_cases h2 : Flt.isInfBits n.v.bits = true
    · by_cases h3 : Flt.signBit n.v.bits = true
      · have he : encNum n = [45, 73, 78, 70] := by simp [encNum, h1, h2, h3]; decide
        rw [he]; exact NumSp.negInf n h1 h2 h3
      · simp only [Bool.not_eq_true] at h3
        have he : encNum n = [73, 78, 70] := by simp [encNum, h1, h2, h3]; decide
        rw [he]; exact NumSp.posInf n h1 h2 h3
    · simp only [Bool.not_eq_true] at h2
      simp only [h2, Bool.false_eq_true, if_false, Bool.false_or] at hn hs
      simp only [finiteNumOk, numTextOk, Bool.and_eq_true] at hn
      obtain ⟨⟨_, hasc, _⟩, _⟩ := hn
      obtain ⟨hd, ht⟩ := decimal_of_strict n.v.txt hasc hs
      have hsp := NumSp.dec n h1 h2 _ _ hd ht
      have he : encNum n = n.v.txt.map byteOf ++ unitText n.unit := by
        simp only [encNum, h1, h2, Bool.false_eq_true, if_false]
        cases n.unit <;> simp [unitText, encChars_all_ascii hasc]
      rw [he]; exact hsp

end Hs.Zinc
