/-
  Hs.Lemmas.ZincTotalGood — C03: no function of the Zinc parser model ever yields `panic` or `depth`
  (mutual induction on the fuel through the parser's `mutual` block).
-/
import Hs.Lemmas.ZincTotalMeasure
namespace Hs
open Scan

/-- neither `panic` nor `depth` -/
abbrev Res.Good {α} (r : Res α) : Prop := r.Sat 0 0 (fun _ => True)

theorem Res.Good.ne_panic {α} {r : Res α} (h : r.Good) : r ≠ .panic := Res.Sat.ne_panic h
theorem Res.Good.ne_depth {α} {r : Res α} (h : r.Good) : r ≠ .depth := Res.Sat.ne_depth h
theorem Res.Sat.good {α} {r : Res α} {fuel m} {Q : α → Prop} (h : r.Sat fuel m Q) : r.Good :=
  Res.Sat.mono h (fun _ => Nat.le_refl _) (fun _ _ => True.intro)

namespace Zinc

/-- the statements proved together by induction on the fuel -/
structure GoodAll (fuel : Nat) : Prop where
  parseValue : ∀ d p, (parseValue fuel d p).Good
  parseList : ∀ d p, (parseList fuel d p).Good
  listLoop : ∀ d p e acc, (listLoop fuel d p e acc).Good
  parseDict : ∀ d p, (parseDict fuel d p).Good
  dictParts : ∀ d p e acc, (dictParts fuel d p e acc).Good
  colMeta : ∀ d p acc, (colMeta fuel d p acc).Good
  gridColumns : ∀ d p acc, (gridColumns fuel d p acc).Good
  consumeEnd : ∀ r, (consumeEnd fuel r).Good
  rowLoop : ∀ d p cols k acc, (rowLoop fuel d p cols k acc).Good
  rowNext : ∀ d r cols, (rowNext fuel d r cols).Good
  rowsLoop : ∀ d r cols acc, (rowsLoop fuel d r cols acc).Good
  gridHeader : ∀ d p, (gridHeader fuel d p).Good
  parseGrid : ∀ d p, (parseGrid fuel d p).Good

theorem goodAll : ∀ fuel, GoodAll fuel := by
  intro fuel
  induction fuel with
  | zero =>
    constructor <;> intros
    · rw [parseValue]; exact Nat.le_refl _
    · rw [parseList]; exact Nat.le_refl _
    · rw [listLoop]; exact Nat.le_refl _
    · rw [parseDict]; exact Nat.le_refl _
    · rw [dictParts]; exact Nat.le_refl _
    · rw [colMeta]; exact Nat.le_refl _
    · rw [gridColumns]; exact Nat.le_refl _
    · rw [consumeEnd]; exact Nat.le_refl _
    · rw [rowLoop]; exact Nat.le_refl _
    · rw [rowNext]; exact Nat.le_refl _
    · rw [rowsLoop]; exact Nat.le_refl _
    · rw [gridHeader]; exact Nat.le_refl _
    · rw [parseGrid]; exact Nat.le_refl _
  | succ n ih =>
    constructor
    · intro d p; rw [parseValue]; res_auto
    · intro d p; rw [parseList]; res_auto
    · intro d p e acc; rw [listLoop]; res_auto
    · intro d p; rw [parseDict]; res_auto
    · intro d p e acc; rw [dictParts]; res_auto
    · intro d p acc; rw [colMeta]; res_auto
    · intro d p acc; rw [gridColumns]; res_auto
    · intro r; rw [consumeEnd]
      dsimp only
      res_split_inline 0 0 (fun _ => True)
      all_goals res_auto
    · intro d p cols k acc; rw [rowLoop]; res_auto
    · intro d r cols; rw [rowNext]; res_auto
    · intro d r cols acc; rw [rowsLoop]; res_auto
    · intro d p; rw [gridHeader]
      dsimp only
      res_split_inline 0 0 (fun _ => True)
      all_goals res_auto
    · intro d p; rw [parseGrid]; res_auto

end Zinc
end Hs
