/-
  C11, decoder image invariant, part 3: `dictOf` (collecting into a `BTreeMap`) on ANY entry list, duplicates
  included: the keys of the result are strictly ascending, every entry of the result is one of the given entries,
  and the result is empty only for the empty list.
-/
import Hs.Lemmas.ZincRtSort
import Hs.Lemmas.ZincImageBase
namespace Hs.Zinc
open Hs

theorem insertSorted_mem (k : List Char) (v : Val) :
    ∀ (l : List (List Char × Val)) (p : List Char × Val), p ∈ insertSorted k v l → p = (k, v) ∨ p ∈ l
  | [], p, h => by simpa [insertSorted] using h
  | (k', v') :: rest, p, h => by
    unfold insertSorted at h
    by_cases h1 : (k == k') = true
    · simp only [h1, if_true, List.mem_cons] at h
      rcases h with h | h
      · exact Or.inl h
      · exact Or.inr (by simp [h])
    · simp only [h1, Bool.false_eq_true, if_false] at h
      by_cases h2 : leChars k k' = true
      · simp only [h2, if_true, List.mem_cons] at h
        rcases h with h | h | h
        · exact Or.inl h
        · exact Or.inr (by simp [h])
        · exact Or.inr (by simp [h])
      · simp only [h2, Bool.false_eq_true, if_false, List.mem_cons] at h
        rcases h with h | h
        · exact Or.inr (by simp [h])
        · rcases insertSorted_mem k v rest p h with h | h
          · exact Or.inl h
          · exact Or.inr (by simp [h])

theorem insertSorted_ne_nil (k : List Char) (v : Val) (l : List (List Char × Val)) : insertSorted k v l ≠ [] := by
  cases l with
  | nil => simp [insertSorted]
  | cons p rest =>
    obtain ⟨k', v'⟩ := p
    unfold insertSorted
    split
    · simp
    · split <;> simp

/-- inserting keeps the keys strictly ascending, whether or not the key is already present -/
theorem insertSorted_sorted (k : List Char) (v : Val) :
    ∀ l : List (List Char × Val), SortedKV l → SortedKV (insertSorted k v l)
  | [], _ => by simp [insertSorted, SortedKV]
  | (k', v') :: rest, hs => by
    unfold SortedKV at hs
    rw [List.pairwise_cons] at hs
    unfold insertSorted
    by_cases h1 : (k == k') = true
    · have e : k = k' := by simpa using h1
      simp only [h1, if_true]
      unfold SortedKV
      rw [List.pairwise_cons]
      exact ⟨fun x hx => by rw [e]; exact hs.1 x hx, hs.2⟩
    · have hk : k ≠ k' := by simpa using h1
      simp only [h1, Bool.false_eq_true, if_false]
      by_cases hle : leChars k k' = true
      · simp only [hle, if_true]
        unfold SortedKV
        rw [List.pairwise_cons]
        have hlt : ltKey k k' = true := by
          simp only [ltKey, Bool.and_eq_true, bne_iff_ne, ne_eq]; exact ⟨hle, hk⟩
        refine ⟨?_, List.pairwise_cons.mpr hs⟩
        intro x hx
        simp only [List.mem_cons] at hx
        rcases hx with rfl | hx
        · exact hlt
        · exact ltKey_trans hlt (hs.1 x hx)
      · simp only [hle, Bool.false_eq_true, if_false]
        have ihs := insertSorted_sorted k v rest hs.2
        have hlt : ltKey k' k = true := by
          simp only [ltKey, Bool.and_eq_true, bne_iff_ne, ne_eq]
          rcases leChars_total k k' with h | h
          · exact absurd h hle
          · exact ⟨h, fun e => hk e.symm⟩
        unfold SortedKV
        rw [List.pairwise_cons]
        refine ⟨?_, ihs⟩
        intro x hx
        rcases insertSorted_mem k v rest x hx with rfl | hx'
        · exact hlt
        · exact hs.1 x hx'

theorem foldl_insertSorted_gen : ∀ (l acc : List (List Char × Val)), SortedKV acc →
    SortedKV (l.foldl (fun acc p => insertSorted p.1 p.2 acc) acc) ∧
      (∀ p ∈ l.foldl (fun acc p => insertSorted p.1 p.2 acc) acc, p ∈ acc ∨ p ∈ l) ∧
      ((acc ≠ [] ∨ l ≠ []) → l.foldl (fun acc p => insertSorted p.1 p.2 acc) acc ≠ [])
  | [], acc, hs => ⟨hs, fun p hp => Or.inl hp, fun h => by simpa using h⟩
  | (k, v) :: rest, acc, hs => by
    simp only [List.foldl_cons]
    obtain ⟨a, b, c⟩ := foldl_insertSorted_gen rest (insertSorted k v acc) (insertSorted_sorted k v acc hs)
    refine ⟨a, ?_, fun _ => c (Or.inl (insertSorted_ne_nil k v acc))⟩
    intro p hp
    rcases b p hp with h | h
    · rcases insertSorted_mem k v acc p h with rfl | h
      · exact Or.inr (by simp)
      · exact Or.inl h
    · exact Or.inr (by simp [h])

theorem Tags.toList_ofList : ∀ l : List (List Char × Val), (Tags.ofList l).toList = l
  | [] => rfl
  | (k, v) :: t => by simp [Tags.ofList, Tags.toList, Tags.toList_ofList t]

theorem keysSorted_of_pairwise : ∀ ks : List (List Char), ks.Pairwise (fun a b => ltKey a b = true) →
    keysSorted ks = true
  | [], _ => rfl
  | k :: ks, h => by
    rw [List.pairwise_cons] at h
    simp only [keysSorted, Bool.and_eq_true, List.all_eq_true]
    exact ⟨h.1, keysSorted_of_pairwise ks h.2⟩

/-- **the keys of a collected dict are strictly ascending** (any entry list) -/
theorem dictOf_sorted (kvs : List (List Char × Val)) : keysSorted (dictOf kvs).keys = true := by
  unfold dictOf
  obtain ⟨hs, _, _⟩ := foldl_insertSorted_gen kvs [] (by simp [SortedKV])
  rw [← Tags.keys_toList, Tags.toList_ofList]
  apply keysSorted_of_pairwise
  rw [List.pairwise_map]
  exact hs

/-- **every entry of a collected dict is one of the entries collected** -/
theorem dictOf_mem (kvs : List (List Char × Val)) (p : List Char × Val) (h : p ∈ (dictOf kvs).toList) : p ∈ kvs := by
  unfold dictOf at h
  rw [Tags.toList_ofList] at h
  obtain ⟨_, hm, _⟩ := foldl_insertSorted_gen kvs [] (by simp [SortedKV])
  rcases hm p h with h | h
  · simp at h
  · exact h

theorem dictOf_nonempty (kvs : List (List Char × Val)) (h : kvs.isEmpty = false) : (dictOf kvs).isEmpty = false := by
  unfold dictOf
  obtain ⟨_, _, hn⟩ := foldl_insertSorted_gen kvs [] (by simp [SortedKV])
  have hne : kvs ≠ [] := by intro e; rw [e] at h; simp at h
  have := hn (Or.inr hne)
  cases hx : List.foldl (fun acc p => insertSorted p.1 p.2 acc) [] kvs with
  | nil => exact absurd hx this
  | cons p r => obtain ⟨k, v⟩ := p; simp [Tags.ofList, Tags.isEmpty]

/-! ### Boolean predicates on `Tags` from statements about the entries -/

theorem keysIdent_of_mem : ∀ t : Tags, (∀ p ∈ t.toList, isIdent p.1 = true) → keysIdent t = true
  | .nil, _ => rfl
  | .cons k v t, h => by
    simp only [keysIdent, Bool.and_eq_true]
    exact ⟨h (k, v) (by simp [Tags.toList]), keysIdent_of_mem t (fun p hp => h p (by simp [Tags.toList, hp]))⟩

theorem decT_of_mem : ∀ t : Tags, (∀ p ∈ t.toList, decV p.2 = true) → decT t = true
  | .nil, _ => rfl
  | .cons k v t, h => by
    simp only [decT, Bool.and_eq_true]
    exact ⟨h (k, v) (by simp [Tags.toList]), decT_of_mem t (fun p hp => h p (by simp [Tags.toList, hp]))⟩

theorem nestT_le_of_mem (n : Nat) : ∀ t : Tags, (∀ p ∈ t.toList, nestV p.2 + 1 ≤ n) → nestT t ≤ n
  | .nil, _ => by simp [nestT]
  | .cons k v t, h => by
    simp only [nestT]
    have h1 := h (k, v) (by simp [Tags.toList])
    have h2 := nestT_le_of_mem n t (fun p hp => h p (by simp [Tags.toList, hp]))
    simp only at h1
    omega

theorem keysAll_of_mem (names : List (List Char)) : ∀ t : Tags, (∀ p ∈ t.toList, p.1 ∈ names) →
    t.keys.all (fun k => names.contains k) = true
  | .nil, _ => rfl
  | .cons k v t, h => by
    simp only [Tags.keys, List.all_cons, Bool.and_eq_true]
    refine ⟨by simpa using h (k, v) (by simp [Tags.toList]), ?_⟩
    exact keysAll_of_mem names t (fun p hp => h p (by simp [Tags.toList, hp]))

end Hs.Zinc
