/-
  C01 ladder, rung 5 (grids, part 3): column meta (`parse_grid_column_meta`, tags separated by spaces and
  ended by `,` or newline) and the column line (`parse_grid_columns`).
-/
import Hs.Lemmas.ZincRtDict
namespace Hs.Zinc
open Hs Hs.Scan

/-- terminator of a column's meta: `,` (more columns) or newline (last column) -/
def TermC (term : UInt8) : Prop := term = 44 ∨ term = 10

theorem Delim_tailOfC {term : UInt8} (st : TermC term) (rest : List UInt8) (t : Tags)
    (hk : keysIdent t = true) : Delim (tailOf 32 term rest t) := by
  cases t with
  | nil =>
    right; left
    refine ⟨term, rest, rfl, ?_⟩
    rcases st with h | h <;> simp [h]
  | cons k v t' =>
    simp only [keysIdent, Bool.and_eq_true] at hk
    right; right
    obtain ⟨b, r, e, hb⟩ := isIdent_head hk.1
    refine ⟨b, r ++ (valPart v ++ tailOf 32 term rest t'), ?_, hb⟩
    show 32 :: (encTags (.cons k v t') 32 ++ term :: rest) = _
    rw [encTags_split, e]; simp

theorem stop_lit_tailC {term : UInt8} (st : TermC term) (rest : List UInt8) (v : Val) (t : Tags) :
    Stop isLitB (valPart v ++ tailOf 32 term rest t) := by
  have h58 : isLitB 58 = false := by decide
  have hsep : isLitB 32 = false := by decide
  have hterm : isLitB term = false := by rcases st with h | h <;> rw [h] <;> decide
  unfold valPart
  by_cases hm : isMarker v = true
  · simp only [hm, if_true, List.nil_append]
    cases t with
    | nil => exact Stop_cons hterm
    | cons _ _ _ => exact Stop_cons hsep
  · simp only [hm, if_false, Bool.false_eq_true, List.cons_append]
    exact Stop_cons h58

/-- the loop of `parse_grid_column_meta` positioned on the name of the first of the remaining tags -/
def RdTagsC (term : UInt8) (t : Tags) : Prop :=
  ∀ (k : List Char) (v : Val) (t' : Tags), t = .cons k v t' →
  ∀ (depth fuel : Nat) (p : PS) (acc : List (List Char × Val)) (rest : List UInt8),
    p.tok = .id k → At p.sc (valPart v ++ tailOf 32 term rest t') → p.sc.stash = [] →
    4 * (encTags t 32).length + 10 ≤ fuel → depth + nestT t ≤ 64 →
    ∃ p', colMeta fuel depth p acc = .ok (acc ++ (lexImgT t).toList, p') ∧ p'.tok = .ch term ∧
      At p'.sc rest ∧ p'.sc.stash = []

theorem RdTagsC_nil (term : UInt8) : RdTagsC term .nil := by
  intro k v t' e; cases e

theorem col_next {term : UInt8} (st : TermC term) (t : Tags) (hk : keysIdent t = true)
    (ih : RdTagsC term t) (depth f g : Nat) (sc : Scan) (acc : List (List Char × Val)) (rest : List UInt8)
    (hp : Post sc (tailOf 32 term rest t))
    (hf : 4 * sepLen 32 t + 8 ≤ f) (hg : 4 * sepLen 32 t + 8 ≤ g) (hn : depth + nestT t ≤ 64) :
    ∃ p4 p', lexRead f sc = .ok p4 ∧ PS.isChar p4 58 = false ∧
      colMeta g depth p4 acc = .ok (acc ++ (lexImgT t).toList, p') ∧ p'.tok = .ch term ∧
      At p'.sc rest ∧ p'.sc.stash = [] := by
  have hterm58 : (term == 58) = false := by rcases st with h | h <;> rw [h] <;> decide
  have htermS : isSpecial term = true := by rcases st with h | h <;> rw [h] <;> decide
  have hterm13 : term ≠ 13 := by rcases st with h | h <;> rw [h] <;> decide
  have hterm32 : term ≠ 32 := by rcases st with h | h <;> rw [h] <;> decide
  cases t with
  | nil =>
    simp only [tailOf] at hp
    obtain ⟨f', rfl⟩ : ∃ f', f = f' + 1 := ⟨f - 1, by omega⟩
    obtain ⟨g', rfl⟩ : ∃ g', g = g' + 1 := ⟨g - 1, by omega⟩
    refine ⟨{ sc := sc.advance, tok := .ch term }, { sc := sc.advance, tok := .ch term },
      lexRead_special hp.1 htermS hterm13 f', by simp [isChar_ch, hterm58], ?_, rfl, hp.1.advance, ?_⟩
    · rw [colMeta]
      simp only [isEof_mk, isChar_ch]
      by_cases he : sc.advance.eof = true <;> by_cases h44 : (term == 44) = true <;>
        simp [he, h44, lexImgT, Tags.toList]
    · show sc.advance.stash = []
      rw [At.advance_stash, hp.clean hterm32]; rfl
  | cons k v t' =>
    simp only [keysIdent, Bool.and_eq_true] at hk
    have hp0 : Post sc (32 :: (encTags (.cons k v t') 32 ++ term :: rest)) := hp
    rw [encTags_split] at hp0
    have hlenk : k.length ≤ (encChars k).length := encChars_length_ge k
    have hlen := encTags_length k v t' 32
    simp only [sepLen] at hf hg
    obtain ⟨b, r, ek, hb⟩ := isIdent_head hk.1
    obtain ⟨f', rfl⟩ : ∃ f', f = f' + 2 := ⟨f - 2, by omega⟩
    have hp1 := hp0
    rw [ek] at hp1
    simp only [List.cons_append] at hp1
    have hbne : b ≠ 32 ∧ b ≠ 9 := by
      constructor <;> (intro e; subst e; revert hb; decide)
    obtain ⟨e1, h1, hs1⟩ := lexRead_space hp1.1 hbne hp1.2.1 f'
    have h1' : At sc.advance (encChars k ++ (valPart v ++ tailOf 32 term rest t')) := by
      rw [ek]; simpa using h1
    obtain ⟨e5, h5⟩ := lexRead_id k hk.1 sc.advance _ (f' + 1) h1' (stop_lit_tailC st rest v t') (by omega)
    obtain ⟨p', e', ht', h', hs'⟩ := ih k v t' rfl depth g { sc := advN k.length sc.advance, tok := .id k }
      acc rest rfl h5 (advN_stash_nil _ _ hs1) (by omega) hn
    exact ⟨{ sc := advN k.length sc.advance, tok := .id k }, p', by rw [e1, e5], rfl, e', ht', h', hs'⟩

theorem RdTagsC_cons {term : UInt8} (st : TermC term) {k : List Char} {v : Val} {t' : Tags}
    (hkt : keysIdent t' = true) (hv : isMarker v = false → RdVal v)
    (ih : RdTagsC term t') : RdTagsC term (.cons k v t') := by
  intro k0 v0 t0 e0
  cases e0
  intro depth fuel p acc rest htok hat hs hf hn
  obtain ⟨f, rfl⟩ : ∃ f, fuel = f + 1 := ⟨fuel - 1, by omega⟩
  have hlen := encTags_length k v t' 32
  simp only [nestT] at hn
  have hnot44 : PS.isChar p 44 = false := by unfold PS.isChar; rw [htok]
  by_cases hm : isMarker v = true
  · obtain ⟨rfl, hmi⟩ := lexImg_marker hm
    simp only [valPart, isMarker, if_true, List.nil_append] at hat
    have hpost : Post p.sc (tailOf 32 term rest t') := Post.of_clean hat hs
    obtain ⟨p4, p', e4, h58, e', ht', h', hs'⟩ := col_next st t' hkt ih depth f f p.sc
      (acc ++ [(k, .marker)]) rest hpost (by omega) (by omega) (by omega)
    refine ⟨p', ?_, ht', h', hs'⟩
    have heof : p.sc.eof = false := by
      cases t' <;> exact hat.eof
    rw [colMeta]
    simp only [PS.isEof, heof, hnot44, Bool.false_eq_true, if_false, htok, PS.read, e4, h58]
    by_cases he : p4.sc.eof = true
    · obtain ⟨f', rfl⟩ : ∃ f', f = f' + 1 := ⟨f - 1, by omega⟩
      rw [colMeta] at e'
      simp only [PS.isEof, he, if_true] at e'
      simp only [he, if_true]
      rw [e']; simp [lexImgT, Tags.toList, lexImg]
    · simp only [he, Bool.false_eq_true, if_false, e']
      simp [lexImgT, Tags.toList, lexImg]
  · have hm' : isMarker v = false := by simpa using hm
    have hvp : valPart v = 58 :: enc v true := by simp [valPart, hm']
    rw [hvp] at hat hlen
    simp only [List.cons_append, List.length_cons] at hat hlen
    have h1 := hat.advance
    have hs1 : p.sc.advance.stash = [] := by rw [At.advance_stash, hs]; rfl
    obtain ⟨p2, p3, e2, _, hst, e3, hp3⟩ := hv hm' depth f f p.sc.advance _ h1 hs1 (Delim_tailOfC st rest t' hkt)
      (by omega) (by omega) (by omega)
    obtain ⟨p4, p', e4, _, e', ht', h', hs'⟩ := col_next st t' hkt ih depth f f p3.sc
      (acc ++ [(k, lexImg v)]) rest hp3 (by omega) (by omega) (by omega)
    refine ⟨p', ?_, ht', h', hs'⟩
    obtain ⟨f', rfl⟩ : ∃ f', f = f' + 1 := ⟨f - 1, by omega⟩
    have heof1 : p.sc.advance.eof = false := by
      cases hx : enc v true ++ tailOf 32 term rest t' with
      | nil => cases t' <;> simp [tailOf] at hx
      | cons b r => rw [hx] at h1; exact h1.eof
    rw [colMeta]
    simp only [PS.isEof, hat.eof, hnot44, Bool.false_eq_true, if_false, htok, PS.read,
      lexRead_special hat (by decide) (by decide) f', heof1, isChar_ch, e2, e3, e4, e']
    simp [lexImgT, Tags.toList]


/-! ### the column line -/

/-- a column's meta on the wire: nothing, or a space and the tags -/
def metaPart : OTags → List UInt8
  | .none => []
  | .some t => if t.isEmpty then [] else 32 :: encTags t 32

theorem encCols_one (n : List Char) (md : OTags) : encCols (.cons n md .nil) = encChars n ++ metaPart md := by
  cases md with
  | none => simp [encCols, metaPart]
  | some t => cases t <;> simp [encCols, metaPart, Tags.isEmpty]
theorem encCols_cons2 (n : List Char) (md : OTags) (n2 : List Char) (md2 : OTags) (c : Cols) :
    encCols (.cons n md (.cons n2 md2 c)) = encChars n ++ metaPart md ++ 44 :: encCols (.cons n2 md2 c) := by
  cases md with
  | none => simp [encCols, metaPart]
  | some t => cases t <;> simp [encCols, metaPart, Tags.isEmpty]

/-- a meta dict as the grid reader needs it: absent, or non-empty with identifier keys in ascending order
whose tags frame for both terminators -/
def MetaOkC : OTags → Prop
  | .none => True
  | .some t => t.isEmpty = false ∧ keysIdent t = true ∧ keysSorted t.keys = true ∧ RdTagsC 44 t ∧ RdTagsC 10 t

def ColsOk : Cols → Prop
  | .nil => True
  | .cons n md c => isIdent n = true ∧ MetaOkC md ∧ ColsOk c

theorem lexImgC_toList_cons (n : List Char) (md : OTags) (c : Cols) :
    (lexImgC (.cons n md c)).toList = (n, lexImgO md) :: (lexImgC c).toList := by
  simp [lexImgC, Cols.toList]

/-- one column: its name and meta, up to and including the terminator -/
theorem col_step {term : UInt8} (st : TermC term) (n : List Char) (md : OTags) (hn : isIdent n = true)
    (hmd : MetaOkC md) (depth fuel : Nat) (p : PS) (after : List UInt8)
    (hat : At p.sc (encChars n ++ metaPart md ++ term :: after)) (hs : p.sc.stash = [])
    (hafter : term = 44 → after ≠ [])
    (hf : 4 * (encChars n ++ metaPart md).length + 12 ≤ fuel) (hd : depth + nestO md ≤ 64) :
    ∃ p3, p3.tok = .ch term ∧ At p3.sc after ∧ p3.sc.stash = [] ∧
      ∀ (acc : List (List Char × OTags)),
        gridColumns (fuel + 1) depth p acc =
          if term = 10 then .ok (acc ++ [(n, lexImgO md)], p3)
          else gridColumns fuel depth p3 (acc ++ [(n, lexImgO md)]) := by
  have hlenn : n.length ≤ (encChars n).length := encChars_length_ge n
  have hterm32 : term ≠ 32 := by rcases st with h | h <;> rw [h] <;> decide
  have htermS : isSpecial term = true := by rcases st with h | h <;> rw [h] <;> decide
  have hterm13 : term ≠ 13 := by rcases st with h | h <;> rw [h] <;> decide
  simp only [List.length_append] at hf
  cases md with
  | none =>
    simp only [metaPart, List.append_nil, List.length_nil] at hat hf
    obtain ⟨e1, h1⟩ := lexRead_id n hn p.sc (term :: after) fuel hat
      (Stop_cons (by rcases st with h | h <;> rw [h] <;> decide)) (by omega)
    have hs1 : (advN n.length p.sc).stash = [] := advN_stash_nil _ _ hs
    obtain ⟨f, rfl⟩ : ∃ f, fuel = f + 1 := ⟨fuel - 1, by omega⟩
    refine ⟨{ sc := (advN n.length p.sc).advance, tok := .ch term }, rfl, h1.advance,
      by show (advN n.length p.sc).advance.stash = []; rw [At.advance_stash, hs1]; rfl, ?_⟩
    intro acc
    rw [gridColumns]
    simp only [PS.read, e1, lexRead_special h1 htermS hterm13 f, isChar_ch]
    rcases st with rfl | rfl <;> simp [lexImgO]
  | some t =>
    obtain ⟨hne, hki, hks, hr44, hr10⟩ := hmd
    cases t with
    | nil => simp [Tags.isEmpty] at hne
    | cons k v t' =>
      simp only [metaPart, Tags.isEmpty, Bool.false_eq_true, if_false, List.length_cons] at hat hf
      have hat' : At p.sc (encChars n ++ 32 :: (encChars k ++ (valPart v ++ tailOf 32 term after t'))) := by
        rw [← encTags_split]; simpa using hat
      have hki' := hki
      simp only [keysIdent, Bool.and_eq_true] at hki'
      obtain ⟨b, r, ek, hb⟩ := isIdent_head hki'.1
      have hbne : b ≠ 32 ∧ b ≠ 9 := by
        constructor <;> (intro e; subst e; revert hb; decide)
      have hlenk : k.length ≤ (encChars k).length := encChars_length_ge k
      have hlen := encTags_length k v t' 32
      obtain ⟨e1, h1⟩ := lexRead_id n hn p.sc _ fuel hat' (Stop_cons (by decide)) (by omega)
      have hs1 : (advN n.length p.sc).stash = [] := advN_stash_nil _ _ hs
      obtain ⟨f, rfl⟩ : ∃ f, fuel = f + 2 := ⟨fuel - 2, by omega⟩
      have h1b := h1
      rw [ek] at h1b
      simp only [List.cons_append] at h1b
      obtain ⟨e2, h2, hs2⟩ := lexRead_space h1b hbne (by simp [hs1]) f
      have h2' : At (advN n.length p.sc).advance (encChars k ++ (valPart v ++ tailOf 32 term after t')) := by
        rw [ek]; simpa using h2
      obtain ⟨e3, h3⟩ := lexRead_id k hki'.1 _ _ (f + 1) h2' (stop_lit_tailC st after v t') (by omega)
      have hrt : RdTagsC term (.cons k v t') := by rcases st with rfl | rfl <;> assumption
      obtain ⟨p3, e4, ht3, h3', hs3⟩ := hrt k v t' rfl depth (f + 2)
        { sc := advN k.length (advN n.length p.sc).advance, tok := .id k } [] after rfl h3
        (advN_stash_nil _ _ hs2) (by omega) (by simpa [nestO] using hd)
      have hdict : dictOf (lexImgT (.cons k v t')).toList = lexImgT (.cons k v t') :=
        dictOf_toList _ (by rw [lexImgT_keys]; exact hks)
      have heof2 : (advN k.length (advN n.length p.sc).advance).eof = false := by
        cases hx : valPart v ++ tailOf 32 term after t' with
        | nil => cases t' <;> simp [tailOf, valPart] at hx
        | cons b' r' => rw [hx] at h3; exact h3.eof
      have hne' : ((lexImgT (.cons k v t')).toList).isEmpty = false := by simp [lexImgT, Tags.toList]
      refine ⟨p3, ht3, h3', hs3, ?_⟩
      intro acc
      have h310 : PS.isChar p3 10 = (term == 10) := by unfold PS.isChar; rw [ht3]
      have h344 : PS.isChar p3 44 = (term == 44) := by unfold PS.isChar; rw [ht3]
      rw [gridColumns]
      simp only [PS.read, e1, e2, e3, PS.isChar, PS.isEof, heof2, Bool.false_eq_true, if_false, e4,
        List.nil_append, hne', Bool.not_false, if_true, hdict, lexImgO]
      rcases st with rfl | rfl
      · have heof3 : p3.sc.eof = false := by
          cases hx : after with
          | nil => exact absurd hx (hafter rfl)
          | cons b' r' => rw [hx] at h3'; exact h3'.eof
        simp [ht3, heof3]
      · simp [ht3]

def colsLen : Cols → Nat
  | .nil => 0
  | .cons n md c => (encChars n ++ metaPart md).length + 1 + colsLen c

theorem encCols_length : ∀ (n : List Char) (md : OTags) (c : Cols),
    (encCols (.cons n md c)).length + 1 = colsLen (.cons n md c)
  | n, md, .nil => by rw [encCols_one]; simp [colsLen]
  | n, md, .cons n2 md2 c => by
    have ih := encCols_length n2 md2 c
    rw [encCols_cons2]
    simp only [colsLen, List.length_append, List.length_cons] at ih ⊢
    omega

/-- **the column line** -/
theorem gridColumns_rt : ∀ (n : List Char) (md : OTags) (c : Cols), ColsOk (.cons n md c) →
    ∀ (depth fuel : Nat) (p : PS) (acc : List (List Char × OTags)) (rest : List UInt8),
    At p.sc (encCols (.cons n md c) ++ 10 :: rest) → p.sc.stash = [] →
    4 * colsLen (.cons n md c) + 12 ≤ fuel → depth + nestC (.cons n md c) ≤ 64 →
    ∃ p', gridColumns fuel depth p acc = .ok (acc ++ (lexImgC (.cons n md c)).toList, p') ∧ p'.tok = .ch 10 ∧
      At p'.sc rest ∧ p'.sc.stash = []
  | n, md, .nil, hok, depth, fuel, p, acc, rest, hat, hs, hf, hd => by
    obtain ⟨hn, hmd, _⟩ := hok
    rw [encCols_one] at hat
    simp only [colsLen, nestC] at hf hd
    obtain ⟨f, rfl⟩ : ∃ f, fuel = f + 1 := ⟨fuel - 1, by omega⟩
    obtain ⟨p3, ht3, h3, hs3, e⟩ := col_step (Or.inr rfl) n md hn hmd depth f p rest hat hs (fun h => absurd h (by decide))
      (by omega) (by omega)
    refine ⟨p3, ?_, ht3, h3, hs3⟩
    rw [e acc]
    simp [lexImgC, Cols.toList]
  | n, md, .cons n2 md2 c, hok, depth, fuel, p, acc, rest, hat, hs, hf, hd => by
    obtain ⟨hn, hmd, hok'⟩ := hok
    rw [encCols_cons2] at hat
    simp only [colsLen, nestC] at hf hd
    obtain ⟨f, rfl⟩ : ∃ f, fuel = f + 1 := ⟨fuel - 1, by omega⟩
    have hne : encCols (.cons n2 md2 c) ++ 10 :: rest ≠ [] := by simp
    obtain ⟨p3, ht3, h3, hs3, e⟩ := col_step (Or.inl rfl) n md hn hmd depth f p
      (encCols (.cons n2 md2 c) ++ 10 :: rest) (by simpa using hat) hs (fun _ => hne) (by omega) (by omega)
    obtain ⟨p', e', ht', h', hs'⟩ := gridColumns_rt n2 md2 c hok' depth f p3 (acc ++ [(n, lexImgO md)]) rest h3 hs3
      (by simp only [colsLen]; omega) (by simp only [nestC]; omega)
    refine ⟨p', ?_, ht', h', hs'⟩
    rw [e acc]
    simp only [show (44 : UInt8) ≠ 10 by decide, if_false, e', lexImgC_toList_cons]
    simp

end Hs.Zinc
