/-
  C08, literals: the filter lexer on every literal kind the grammar admits — Str, Uri and Ref display
  names over ALL characters (non-ASCII text through the UTF-8 lemmas of the Zinc ladder), finite
  Numbers with a unit of the table, Dates, Times and DateTimes (the look-ahead of
  `parse_number_date_time`).  The scalar readers are the ones the Zinc lexer calls; their framing
  lemmas (`Hs/Lemmas/ZincRt*.lean`, `Hs/Lemmas/FilterRtDelim.lean`) are stated over `Hs.At`; here they
  are transported to the `Views` / `Pos` vocabulary of the filter proofs.
-/
import Hs.Lemmas.FilterParse
import Hs.Lemmas.FilterRtDelim
import Hs.Lemmas.ZincRtWf
namespace Hs.FText
open Hs Hs.Scan Hs.Zinc

/-! ### `Views` and `Hs.At` -/

theorem Views.toAt {s : Scan} {v : List UInt8} (h : Views s v) : Hs.At s v ∧ s.stash = [] := by
  obtain ⟨hs, h⟩ := h
  cases v with
  | nil => exact ⟨⟨h.1, hs, h.2⟩, hs⟩
  | cons b r => exact ⟨⟨h.1, h.2.1, by rw [hs]; simpa using h.2.2⟩, hs⟩

theorem views_of_at {s : Scan} {v : List UInt8} (h : Hs.At s v) (hs : s.stash = []) : Views s v := by
  cases v with
  | nil => exact ⟨hs, h.1, h.2.2⟩
  | cons b r =>
    refine ⟨hs, h.1, h.2.1, ?_⟩
    have := h.2.2
    rw [hs] at this
    simpa using this

/-- a reader that stopped in front of `rest`, having peeked at most one byte past a space -/
theorem pos_of_post {s : Scan} {rest T : List UInt8} (hS : Sp rest T) (hp : Post s rest) : Pos s T := by
  obtain ⟨hat, hlen, hclean⟩ := hp
  rcases hS with ⟨rfl, rfl⟩ | ⟨rfl, hT⟩
  · exact Or.inl (views_of_at hat hat.2.1)
  · obtain ⟨c, r, rfl, hc⟩ := hT
    cases hst : s.stash with
    | nil => exact Or.inr ⟨⟨c, r, rfl, hc⟩, Or.inl (views_of_at hat hst)⟩
    | cons y ys =>
      rw [hst] at hlen
      have hys : ys = [] := by
        cases ys with
        | nil => rfl
        | cons _ _ => simp at hlen
      subst hys
      have hu := hat.2.2
      rw [hst] at hu
      simp only [List.cons_append, List.nil_append, List.cons.injEq] at hu
      obtain ⟨rfl, hi⟩ := hu
      exact Or.inr ⟨⟨y, r, rfl, hc⟩, Or.inr ⟨y, r, rfl, hat.1, hat.2.1, hst, hi⟩⟩

/-! ### continuations -/

/-- `T` does not start with an upper-case letter (what follows a literal is `and`, `or`, `)`) -/
def NoUp (T : List UInt8) : Prop := ∀ c r, T = c :: r → isUpperB c = false

/-- what follows a term in printed text (`Cont`), and the next token does not start with an upper-case letter -/
def Cont2 (rest T : List UInt8) : Prop := Cont rest T ∧ NoUp T

theorem Cont.gdelim {rest T : List UInt8} (h : Cont rest T) : GDelim rest := by
  rcases h with ⟨h, _⟩ | ⟨h, _⟩
  · exact Or.inl h
  · exact Or.inr ⟨T, h⟩

theorem Cont2.fdelim {rest T : List UInt8} (h : Cont2 rest T) : FDelim rest := by
  obtain ⟨hC, hU⟩ := h
  rcases hC with ⟨h, _⟩ | ⟨h, c, r, hT, _⟩
  · exact Or.inl h
  · exact Or.inr ⟨c, r, by rw [h, hT], hU c r hT⟩

theorem noUp_nil : NoUp [] := by intro c r h; cases h
theorem noUp_cons {c : UInt8} {r : List UInt8} (h : isUpperB c = false) : NoUp (c :: r) := by
  intro c' r' e; cases e; exact h
theorem noUp_append {X Y : List UInt8} (hX : X ≠ []) (h : NoUp X) : NoUp (X ++ Y) := by
  cases X with
  | nil => exact absurd rfl hX
  | cons a t => intro c r e; simp only [List.cons_append, List.cons.injEq] at e; exact e.1 ▸ h a t rfl

/-! ### Str, Uri, Ref display names: all characters -/

theorem parseStr_views (cs : List Char) (rest : List UInt8) (fuel : Nat) (s : Scan)
    (hs : Views s (encQuoted cs ++ rest)) (hf : (encQuoted cs).length ≤ fuel) :
    ∃ s', parseStr fuel s = .ok (cs, s') ∧ Views s' rest := by
  obtain ⟨hat, hst⟩ := hs.toAt
  obtain ⟨s', e, h', hs'⟩ := parseStr_rt cs s rest fuel hat hf
  exact ⟨s', e, views_of_at h' (hs' hst)⟩

/-- a printed Str (any characters) as a token -/
theorem lexRead_str2 (cs : List Char) (rest : List UInt8) (fuel : Nat) (s : Scan)
    (hs : Views s (encQuoted cs ++ rest)) (hf : (encQuoted cs).length + 1 ≤ fuel) :
    ∃ s', lexRead fuel s = .ok s' (.val (.str cs)) ∧ Views s' rest := by
  obtain ⟨F, rfl⟩ : ∃ F, fuel = F + 1 := ⟨fuel - 1, by omega⟩
  obtain ⟨s', h1, h2⟩ := parseStr_views cs rest F s hs (by omega)
  refine ⟨s', ?_, h2⟩
  have hs' : Views s (34 :: (cs.flatMap encStrChar ++ [34] ++ rest)) := by simpa [encQuoted] using hs
  unfold lexRead
  simp only [Views.cons_eof hs', Views.cons_cur hs']
  have e : ∀ k : UInt8, k ≠ 34 → ((34 : UInt8) == k) = false := by intro k hk; simp; exact fun h => hk h.symm
  simp only [Bool.false_eq_true, if_false, e 10 (by decide), e 13 (by decide), e 9 (by decide), e 32 (by decide),
    Bool.or_self, beq_self_eq_true, if_true, h1]

/-- a printed Uri (any characters) as a token -/
theorem lexRead_uri2 (cs : List Char) (rest : List UInt8) (fuel : Nat) (s : Scan)
    (hs : Views s (encUri cs ++ rest)) (hf : (encUri cs).length + 1 ≤ fuel) :
    ∃ s', lexRead fuel s = .ok s' (.val (.uri cs)) ∧ Views s' rest := by
  obtain ⟨F, rfl⟩ : ∃ F, fuel = F + 1 := ⟨fuel - 1, by omega⟩
  obtain ⟨hat, hst⟩ := hs.toAt
  obtain ⟨s', h1, h2, h3⟩ := parseUri_rt cs s rest F hat hst (by omega)
  refine ⟨s', ?_, views_of_at h2 h3⟩
  have hs' : Views s (96 :: (cs.flatMap encUriChar ++ [96] ++ rest)) := by simpa [encUri] using hs
  unfold lexRead
  simp only [Views.cons_eof hs', Views.cons_cur hs']
  have e : ∀ k : UInt8, k ≠ 96 → ((96 : UInt8) == k) = false := by intro k hk; simp; exact fun h => hk h.symm
  simp only [Bool.false_eq_true, if_false, e 10 (by decide), e 13 (by decide), e 9 (by decide), e 32 (by decide),
    e 34 (by decide), Bool.or_self, beq_self_eq_true, if_true, h1]

/-- `@id "dis"` with any display name, followed by anything -/
theorem lexRead_refdis2 (id dis : List Char) (hid : RefSeg id) (rest : List UInt8)
    (fuel : Nat) (s : Scan) (hs : Views s (64 :: (segBytes id ++ 32 :: (encQuoted dis ++ rest))))
    (hf : (segBytes id).length + (encQuoted dis).length + 3 ≤ fuel) :
    ∃ s', lexRead fuel s = .ok s' (.val (.ref id (some dis))) ∧ Views s' rest := by
  obtain ⟨F, rfl⟩ : ∃ F, fuel = F + 1 := ⟨fuel - 1, by omega⟩
  have hadv := hs.advance
  have hq : ∃ q, encQuoted dis ++ rest = 34 :: q := ⟨dis.flatMap encStrChar ++ 34 :: rest, by simp [encQuoted]⟩
  obtain ⟨q, hq⟩ := hq
  have hno : NoRefHead (32 :: (encQuoted dis ++ rest)) := by simp [NoRefHead]; decide
  obtain ⟨s1, h1, h2⟩ := refLoop_pass (segBytes id) hid.all _ hno F s.advance [] hadv (by omega)
  have hne : (segBytes id).isEmpty = false := by
    cases hb : segBytes id with
    | nil => exact absurd hb hid.2.1
    | cons b r => rfl
  rw [hq] at h2
  have hp := Views.peek h2
  have hrd := read_stashed hp.2.1 hp.2.2.2.1 hp.2.2.2.2
  rw [← hq] at hrd
  obtain ⟨s4, h4, h5⟩ := parseStr_views dis rest F s1.peek.2.read.2 hrd.2 (by omega)
  refine ⟨s4, ?_, h5⟩
  have e : ∀ k : UInt8, k ≠ 64 → ((64 : UInt8) == k) = false := by intro k hk; simp; exact fun h => hk h.symm
  unfold lexRead
  simp only [Views.cons_eof hs, Views.cons_cur hs]
  simp only [Bool.false_eq_true, if_false, e 10 (by decide), e 13 (by decide), e 9 (by decide), e 32 (by decide),
    e 34 (by decide), e 96 (by decide), Bool.or_self, beq_self_eq_true, if_true]
  unfold parseRef
  simp only [Views.cons_cur hs, bne_self_eq_false, Bool.false_eq_true, if_false, h1, List.nil_append, hne, hid.lossy]
  simp only [Views.cons_eof h2, Views.cons_cur h2, Bool.not_false, beq_self_eq_true, Bool.and_self, if_true]
  cases hpk : s1.peek with
  | mk o s2 =>
    rw [hpk] at hp hrd h4
    simp only at hp hrd h4
    rw [hp.1]
    simp only [beq_self_eq_true, if_true]
    unfold Scan.readQ
    cases hr2 : s2.read with
    | mk o2 s3 =>
      rw [hr2] at hrd h4
      simp only at hrd h4
      rw [hrd.1]
      simp only [h4]

/-! ### Number, Date, Time, DateTime -/

theorem ndt_first : ∀ b : UInt8, (!(isDigitB b || b == 45) || (b != 10 && b != 13 && b != 9 && b != 32 && b != 34
    && b != 96 && b != 64 && b != 94)) = true :=
  all_u8 (fun b => (!(isDigitB b || b == 45) || (b != 10 && b != 13 && b != 9 && b != 32 && b != 34
    && b != 96 && b != 64 && b != 94))) (by decide +kernel)

/-- `Lexer::read` on a byte that starts a number, date or time -/
theorem lexRead_ndt2 {s : Scan} {b : UInt8} {r : List UInt8} (h : Hs.At s (b :: r))
    (hb : (isDigitB b || b == 45) = true) (fuel : Nat) :
    lexRead (fuel + 1) s =
      (match parseNumberDateTime fuel s with
       | .ok (v, s') =>
         (match v with
          | .num n => if numIsInf n then TokR.err s' else .ok s' (.val v)
          | _ => .ok s' (.val v))
       | .err => .err (ndtErr fuel s) | .panic => .panic | .diverge => .diverge | .depth => .depth) := by
  have hd := ndt_first b
  simp only [hb, Bool.not_true, Bool.false_or, Bool.and_eq_true, bne_iff_ne, ne_eq] at hd
  obtain ⟨⟨⟨⟨⟨⟨⟨d1, d2⟩, d3⟩, d4⟩, d5⟩, d6⟩, d7⟩, d8⟩ := hd
  rw [lexRead]
  simp only [h.eof, h.cur]
  simp [d1, d2, d3, d4, d5, d6, d7, d8, hb]
  rfl

/-- a finite number (decimal text, optional unit of the table) whose text does not round to infinity -/
theorem lexRead_num2 (n : Num) (hn : finiteNumOk n = true) (hfin : lexIsInf n.v.txt = false)
    (rest : List UInt8) (hd : GDelim rest) (fuel : Nat) (s : Scan)
    (hs : Views s (encNum n ++ rest)) (hf : (encNum n).length + 2 ≤ fuel) :
    ∃ s', lexRead fuel s = .ok s' (.val (.num (lexNumI n))) ∧ Views s' rest := by
  obtain ⟨F, rfl⟩ : ∃ F, fuel = F + 1 := ⟨fuel - 1, by omega⟩
  simp only [finiteNumOk, numTextOk, Bool.and_eq_true, Bool.not_eq_eq_eq_not, Bool.not_true] at hn
  obtain ⟨⟨⟨hnan, hinf⟩, hasc, hnb⟩, hu⟩ := hn
  have henc : encNum n = n.v.txt.map byteOf ++ unitBytes n.unit := by
    simp only [encNum, hnan, hinf, Bool.false_eq_true, if_false]
    cases n.unit <;> simp [unitBytes, encChars_all_ascii hasc]
  rw [henc] at hs hf
  simp only [List.length_append] at hf
  obtain ⟨hat, hst⟩ := hs.toAt
  obtain ⟨s', e, h', hs'⟩ := ndt_num_rt _ hnb n.unit hu s rest F (by simpa using hat) hst hd (by omega)
  refine ⟨s', ?_, views_of_at h' hs'⟩
  have hfirst : ∃ b0 r0, n.v.txt.map byteOf = b0 :: r0 ∧ (isDigitB b0 || b0 == 45) = true := by
    simp only [numBytesOk, Bool.and_eq_true] at hnb
    cases hx : n.v.txt.map byteOf with
    | nil => rw [hx] at hnb; simp at hnb
    | cons b0 r0 => rw [hx] at hnb; exact ⟨b0, r0, rfl, hnb.2⟩
  obtain ⟨b0, r0, hb0, hfst⟩ := hfirst
  have hat' : Hs.At s (b0 :: (r0 ++ (unitBytes n.unit ++ rest))) := by
    have := hat; rw [hb0] at this; simpa using this
  rw [lexRead_ndt2 hat' hfst, e]
  have htxt : asciiChars (n.v.txt.map byteOf) = n.v.txt := asciiChars_map_byteOf (all_ascii_mem hasc)
  simp [mkNum, numIsInf, htxt, hfin, lexNumI, hnan, hinf]

theorem lexRead_date2 (d : Date) (hok : dateOk d = true) (rest : List UInt8) (hd : GDelim rest) (fuel : Nat)
    (s : Scan) (hs : Views s (encChars d.txt ++ rest)) (hf : 2 ≤ fuel) :
    ∃ s', lexRead fuel s = .ok s' (.val (.date d)) ∧ Views s' rest := by
  obtain ⟨F, rfl⟩ : ∃ F, fuel = F + 1 := ⟨fuel - 1, by omega⟩
  obtain ⟨hat, hst⟩ := hs.toAt
  obtain ⟨s', e, h', hs'⟩ := ndt_date_rt d hok s rest F hat hst hd
  refine ⟨s', ?_, views_of_at h' hs'⟩
  obtain ⟨b0, r0, hb0, hfst⟩ : ∃ b0 r0, encChars d.txt = b0 :: r0 ∧ (isDigitB b0 || b0 == 45) = true := by
    simp only [dateOk, Bool.and_eq_true] at hok
    obtain ⟨hasc, hm⟩ := hok
    rw [encChars_all_ascii hasc]
    split at hm
    · rename_i y0 _ _ _ _ _ _ _ heq
      simp only [Bool.and_eq_true] at hm
      exact ⟨y0, _, heq, by simp [hm.1.1.1.1.1.1.1.1]⟩
    · simp at hm
  have hat' : Hs.At s (b0 :: (r0 ++ rest)) := by
    have := hat; rw [hb0] at this; simpa using this
  rw [lexRead_ndt2 hat' hfst, e]

theorem lexRead_time2 (t : Time) (hok : timeOk t = true) (rest : List UInt8) (hd : GDelim rest) (fuel : Nat)
    (s : Scan) (hs : Views s (encChars t.txt ++ rest)) (hf : t.txt.length + 2 ≤ fuel) :
    ∃ s', lexRead fuel s = .ok s' (.val (.time t)) ∧ Views s' rest := by
  obtain ⟨F, rfl⟩ : ∃ F, fuel = F + 1 := ⟨fuel - 1, by omega⟩
  obtain ⟨hat, hst⟩ := hs.toAt
  obtain ⟨s', e, h', hs'⟩ := ndt_time_rt t hok s rest F hat hst hd (by omega)
  refine ⟨s', ?_, views_of_at h' hs'⟩
  obtain ⟨b0, r0, hb0, hfst⟩ : ∃ b0 r0, encChars t.txt = b0 :: r0 ∧ (isDigitB b0 || b0 == 45) = true := by
    simp only [timeOk, Bool.and_eq_true] at hok
    obtain ⟨hasc, hm⟩ := hok
    rw [encChars_all_ascii hasc]
    split at hm
    · rename_i h0 _ _ _ _ _ _ heq
      simp only [Bool.and_eq_true] at hm
      exact ⟨h0, _, heq, by simp [hm.1.1.1.1.1.1]⟩
    · simp at hm
  have hat' : Hs.At s (b0 :: (r0 ++ rest)) := by
    have := hat; rw [hb0] at this; simpa using this
  rw [lexRead_ndt2 hat' hfst, e]

/-- a timestamp token comes back as its token text; the zone reader may have peeked one byte past the space
that follows -/
theorem lexRead_datetime2 (t : DateTime) (hok : dtOk t = true) (rest : List UInt8) (hd : FDelim rest) (fuel : Nat)
    (s : Scan) (hs : Views s (encDateTime t ++ rest)) (hf : (encDateTime t).length + 2 ≤ fuel) :
    ∃ s', lexRead fuel s = .ok s' (.val (lexImg (.dateTime t))) ∧ Post s' rest := by
  obtain ⟨F, rfl⟩ : ∃ F, fuel = F + 1 := ⟨fuel - 1, by omega⟩
  simp only [dtOk, Bool.and_eq_true] at hok
  have henc : encDateTime t = (dtText t).map byteOf := by
    rw [encDateTime_eq, encChars_all_ascii hok.1]
  rw [henc] at hs hf
  obtain ⟨hat, hst⟩ := hs.toAt
  obtain ⟨s', e, hp⟩ := ndt_datetime_rt _ hok.2 s rest F hat hst hd (by omega)
  refine ⟨s', ?_, hp⟩
  obtain ⟨b0, r0, hb0, hfst⟩ : ∃ b0 r0, (dtText t).map byteOf = b0 :: r0 ∧ (isDigitB b0 || b0 == 45) = true := by
    have hm := hok.2
    unfold dtBytesOk at hm
    split at hm
    · rename_i y0 _ _ _ _ _ _ _ _ _ _ _ _ _ _ heq
      simp only [Bool.and_eq_true] at hm
      exact ⟨y0, _, heq, by simp [hm.1.1.1.1.1.1.1.1.1.1.1.1.1.1.1]⟩
    · simp at hm
  have hat' : Hs.At s (b0 :: (r0 ++ rest)) := by
    have := hat; rw [hb0] at this; simpa using this
  rw [lexRead_ndt2 hat' hfst, e, asciiChars_map_byteOf (all_ascii_mem hok.1)]
  simp [lexImg, dtVal, dtText]

/-! ### `Follow` for the new literal kinds -/

theorem follow_str2 (cs : List Char) {rest T : List UInt8} (h : Sp rest T) :
    Follow (encQuoted cs ++ rest) (.val (.str cs)) T := by
  refine ⟨by have := h.len; simp; omega, ?_⟩
  intro fuel s hv hf
  obtain ⟨s', h1, h2⟩ := lexRead_str2 cs rest fuel s hv (by simp at hf; omega)
  exact ⟨s', h1, h.pos h2⟩

theorem follow_uri2 (cs : List Char) {rest T : List UInt8} (h : Sp rest T) :
    Follow (encUri cs ++ rest) (.val (.uri cs)) T := by
  refine ⟨by have := h.len; simp; omega, ?_⟩
  intro fuel s hv hf
  obtain ⟨s', h1, h2⟩ := lexRead_uri2 cs rest fuel s hv (by simp at hf; omega)
  exact ⟨s', h1, h.pos h2⟩

theorem follow_refdis2 {id : List Char} (hid : RefSeg id) (dis : List Char) {rest T : List UInt8} (h : Sp rest T) :
    Follow (64 :: (segBytes id ++ 32 :: (encQuoted dis ++ rest))) (.val (.ref id (some dis))) T := by
  refine ⟨by have := h.len; simp; omega, ?_⟩
  intro fuel s hv hf
  obtain ⟨s', h1, h2⟩ := lexRead_refdis2 id dis hid rest fuel s hv (by simp at hf; omega)
  exact ⟨s', h1, h.pos h2⟩

theorem follow_num2 (n : Num) (hn : finiteNumOk n = true) (hfin : lexIsInf n.v.txt = false) {rest T : List UInt8}
    (h : Cont rest T) : Follow (encNum n ++ rest) (.val (.num (lexNumI n))) T := by
  refine ⟨by have := h.len; simp; omega, ?_⟩
  intro fuel s hv hf
  obtain ⟨s', h1, h2⟩ := lexRead_num2 n hn hfin rest h.gdelim fuel s hv (by simp at hf; omega)
  exact ⟨s', h1, h.sp.pos h2⟩

theorem follow_date2 (d : Date) (hok : dateOk d = true) {rest T : List UInt8} (h : Cont rest T) :
    Follow (encChars d.txt ++ rest) (.val (.date d)) T := by
  refine ⟨by have := h.len; simp; omega, ?_⟩
  intro fuel s hv hf
  obtain ⟨s', h1, h2⟩ := lexRead_date2 d hok rest h.gdelim fuel s hv (by omega)
  exact ⟨s', h1, h.sp.pos h2⟩

theorem follow_time2 (t : Time) (hok : timeOk t = true) {rest T : List UInt8} (h : Cont rest T) :
    Follow (encChars t.txt ++ rest) (.val (.time t)) T := by
  refine ⟨by have := h.len; simp; omega, ?_⟩
  intro fuel s hv hf
  have := encChars_length_ge t.txt
  obtain ⟨s', h1, h2⟩ := lexRead_time2 t hok rest h.gdelim fuel s hv (by simp at hf; omega)
  exact ⟨s', h1, h.sp.pos h2⟩

theorem follow_datetime2 (t : DateTime) (hok : dtOk t = true) {rest T : List UInt8} (h : Cont2 rest T) :
    Follow (encDateTime t ++ rest) (.val (lexImg (.dateTime t))) T := by
  refine ⟨by have := h.1.len; simp; omega, ?_⟩
  intro fuel s hv hf
  obtain ⟨s', h1, h2⟩ := lexRead_datetime2 t hok rest h.fdelim fuel s hv (by simp at hf; omega)
  exact ⟨s', h1, pos_of_post h.1.sp h2⟩

/-! ### the literals of the full property -/

/-- The literals the syntax admits (the property's list): Bool; Symbol and Ref over the id alphabet, a Ref
with any display name; any Str; any Uri; a finite Number whose text is a decimal `f64::from_str` accepts
(what `Display for f64` prints), which does not round to infinity, with no unit or a unit of the table;
Date, Time and DateTime whose texts chrono accepts, the zone name resolvable through the zone table. -/
def OkLit2 : Val → Prop
  | .bool _ => True
  | .sym s => SymSeg s
  | .ref id _ => RefSeg id
  | .str _ => True
  | .uri _ => True
  | .num n => finiteNumOk n = true ∧ lexIsInf n.v.txt = false
  | .date d => dateOk d = true
  | .time t => timeOk t = true
  | .dateTime t => dtOk t = true
  | _ => False

instance : (v : Val) → Decidable (OkLit2 v)
  | .bool _ => isTrue trivial
  | .sym s => inferInstanceAs (Decidable (SymSeg s))
  | .ref id _ => inferInstanceAs (Decidable (RefSeg id))
  | .str _ => isTrue trivial
  | .uri _ => isTrue trivial
  | .num n => inferInstanceAs (Decidable (finiteNumOk n = true ∧ lexIsInf n.v.txt = false))
  | .date d => inferInstanceAs (Decidable (dateOk d = true))
  | .time t => inferInstanceAs (Decidable (timeOk t = true))
  | .dateTime t => inferInstanceAs (Decidable (dtOk t = true))
  | .null => isFalse id
  | .remove => isFalse id
  | .marker => isFalse id
  | .na => isFalse id
  | .coord _ _ => isFalse id
  | .xstr _ _ => isFalse id
  | .list _ => isFalse id
  | .dict _ => isFalse id
  | .grid _ _ _ _ => isFalse id

/-- the token a printed literal is read as: its lexical image (`true` / `false` are read as one-segment paths) -/
def litTok2 : Val → FTok
  | .bool true => .path kwTrue
  | .bool false => .path kwFalse
  | v => .val (lexImg v)

theorem follow_lit2 : (v : Val) → OkLit2 v → ∀ {rest T : List UInt8}, Cont2 rest T →
    Follow (printVal v ++ rest) (litTok2 v) T
  | .bool true, _, rest, T, hC => by
    have := follow_path (p := kwTrue) ⟨by simp [kwTrue], by simpa [kwTrue] using kwTrue_seg⟩ hC.1
    simpa [printVal, true_eq, pathBytes, kwTrue, litTok2] using this
  | .bool false, _, rest, T, hC => by
    have := follow_path (p := kwFalse) ⟨by simp [kwFalse], by simpa [kwFalse] using kwFalse_seg⟩ hC.1
    simpa [printVal, false_eq, pathBytes, kwFalse, litTok2] using this
  | .sym s, h, rest, T, hC => by
    have hs : SymSeg s := h
    have := follow_sym hs hC.1.sp
    simpa [printVal, encode, enc, hs.1.enc, litTok2, lexImg] using this
  | .ref id Option.none, h, rest, T, hC => by
    have hid : RefSeg id := h
    have := follow_ref hid hC.1
    simpa [printVal, encode, enc, hid.enc, litTok2, lexImg] using this
  | .ref id (some d), h, rest, T, hC => by
    have hid : RefSeg id := h
    have := follow_refdis2 hid d hC.1.sp
    simpa [printVal, encode, enc, hid.enc, litTok2, lexImg] using this
  | .str cs, _, rest, T, hC => by
    have := follow_str2 cs hC.1.sp
    simpa [printVal, encode, enc, litTok2, lexImg] using this
  | .uri cs, _, rest, T, hC => by
    have := follow_uri2 cs hC.1.sp
    simpa [printVal, encode, enc, litTok2, lexImg] using this
  | .num n, h, rest, T, hC => by
    have := follow_num2 n h.1 h.2 hC.1
    simpa [printVal, encode, enc, litTok2, lexImg] using this
  | .date d, h, rest, T, hC => by
    have := follow_date2 d h hC.1
    simpa [printVal, encode, enc, litTok2, lexImg] using this
  | .time t, h, rest, T, hC => by
    have := follow_time2 t h hC.1
    simpa [printVal, encode, enc, litTok2, lexImg] using this
  | .dateTime t, h, rest, T, hC => by
    have := follow_datetime2 t h hC
    simpa [printVal, encode, enc, litTok2] using this
  | .null, h, _, _, _ => absurd h (by simp [OkLit2])
  | .remove, h, _, _, _ => absurd h (by simp [OkLit2])
  | .marker, h, _, _, _ => absurd h (by simp [OkLit2])
  | .na, h, _, _, _ => absurd h (by simp [OkLit2])
  | .coord _ _, h, _, _, _ => absurd h (by simp [OkLit2])
  | .xstr _ _, h, _, _, _ => absurd h (by simp [OkLit2])
  | .list _, h, _, _, _ => absurd h (by simp [OkLit2])
  | .dict _, h, _, _, _ => absurd h (by simp [OkLit2])
  | .grid _ _ _ _, h, _, _, _ => absurd h (by simp [OkLit2])

theorem nonWs_of_firstOk {bs : List UInt8} (h : FirstOk bs) : nonWs bs := by
  obtain ⟨b, r, rfl, h1, h2, h3, h4⟩ := h
  exact ⟨b, r, rfl, by simp [isWsB, h1, h2, h3, h4]⟩

theorem numOk_of_finite {n : Num} (h : finiteNumOk n = true) : numOk n = true := by
  unfold numOk; split
  · rfl
  · split
    · rfl
    · exact h

theorem lit_head2 (v : Val) (h : OkLit2 v) : nonWs (printVal v) := by
  cases v <;> simp [OkLit2] at h
  case bool b =>
    cases b
    · exact ⟨102, [97, 108, 115, 101], by simp [printVal, bytesOfAscii], by decide⟩
    · exact ⟨116, [114, 117, 101], by simp [printVal, bytesOfAscii], by decide⟩
  case sym s => exact ⟨94, encChars s, by simp [printVal, encode, enc], by decide⟩
  case str cs => exact ⟨34, cs.flatMap encStrChar ++ [34], by simp [printVal, encode, enc, encQuoted], by decide⟩
  case uri cs => exact ⟨96, cs.flatMap encUriChar ++ [96], by simp [printVal, encode, enc, encUri], by decide⟩
  case ref id dis =>
    cases dis with
    | none => exact ⟨64, encChars id, by simp [printVal, encode, enc], by decide⟩
    | some d => exact ⟨64, encChars id ++ [32] ++ encQuoted d, by simp [printVal, encode, enc], by decide⟩
  case num n =>
    have := nonWs_of_firstOk (firstOk_num n (numOk_of_finite h.1))
    simpa [printVal, encode, enc] using this
  case date d =>
    have := nonWs_of_firstOk (firstOk_date d h)
    simpa [printVal, encode, enc] using this
  case time t =>
    have := nonWs_of_firstOk (firstOk_time t h)
    simpa [printVal, encode, enc] using this
  case dateTime t =>
    have := nonWs_of_firstOk (firstOk_datetime t h)
    simpa [printVal, encode, enc] using this

theorem parseCmp_lit2 (v : Val) (h : OkLit2 v) (F : Nat) (l : FLex) (s' : Scan) (p : Path) (op : CmpOp)
    (hr : lexRead F l.sc = .ok s' (litTok2 v)) :
    parseCmp F l p op = .ok (.cmp p op (lexImg v), { sc := s', cur := litTok2 v }) := by
  unfold parseCmp
  rw [read_ok hr]
  cases v <;> simp [OkLit2] at h <;> try (simp [litTok2]; done)
  case bool b => cases b <;> simp [litTok2, kwTrue, kwFalse, lexImg]

end Hs.FText
