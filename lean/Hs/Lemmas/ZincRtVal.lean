/-
  C01 ladder, rung 5 (first half): values through the parser.  `RdVal v` is the framing statement for
  one value: reading the first token of `enc v true ++ rest` and running `parseValue` yields the lexical
  image of `v` and leaves the scanner at `rest`.  Scalars satisfy it as soon as their token does (`TokRt`);
  lists and dicts satisfy it when their elements do.
-/
import Hs.Lemmas.ZincRtLex
namespace Hs.Zinc
open Hs Hs.Scan

/-! ### the lexical image (the same function as `Hs.C01.lexImage`, see `Hs.Thm.C01`) -/

def lexNumI (n : Num) : Num :=
  if Flt.isNaNBits n.v.bits then { v := { bits := nanBits, txt := "NaN".toList }, unit := none }
  else if Flt.isInfBits n.v.bits then
    (if Flt.signBit n.v.bits then { v := { bits := negInfBits, txt := "-inf".toList }, unit := none }
     else { v := { bits := posInfBits, txt := "inf".toList }, unit := none })
  else { v := { bits := lexBits, txt := n.v.txt }, unit := n.unit }

mutual
def lexImg : Val → Val
  | .num n => .num (lexNumI n)
  | .coord a b => .coord { bits := lexBits, txt := a.txt } { bits := lexBits, txt := b.txt }
  | .dateTime t =>
    .dateTime { secs := 0, ns := 0, off := 0, zone := [], tzid := [],
                txt := if t.tzid == "UTC".toList then t.txt else t.txt ++ [' '] ++ t.zone }
  | .list xs => .list (lexImgs xs)
  | .dict d => .dict (lexImgT d)
  | .grid md cols rows ver => .grid (lexImgO md) (lexImgC cols) (lexImgR rows) ver
  | v => v
def lexImgs : Vals → Vals
  | .nil => .nil
  | .cons v vs => .cons (lexImg v) (lexImgs vs)
def lexImgT : Tags → Tags
  | .nil => .nil
  | .cons k v t => .cons k (lexImg v) (lexImgT t)
def lexImgO : OTags → OTags
  | .none => .none
  | .some t => .some (lexImgT t)
def lexImgC : Cols → Cols
  | .nil => .nil
  | .cons n m c => .cons n (lexImgO m) (lexImgC c)
def lexImgR : Rows → Rows
  | .nil => .nil
  | .cons r rs => .cons (lexImgT r) (lexImgR rs)
end

/-! ### nesting depth as the parser counts it -/

mutual
def nestV : Val → Nat
  | .list xs => nestVs xs
  | .dict d => nestT d
  | .grid md cols rows _ => max (nestO md) (max (nestC cols) (nestR rows))
  | _ => 0
def nestVs : Vals → Nat
  | .nil => 0
  | .cons v vs => max (nestV v + 1) (nestVs vs)
def nestT : Tags → Nat
  | .nil => 0
  | .cons _ v t => max (nestV v + 1) (nestT t)
def nestO : OTags → Nat
  | .none => 0
  | .some t => nestT t
def nestC : Cols → Nat
  | .nil => 0
  | .cons _ m c => max (nestO m) (nestC c)
def nestR : Rows → Nat
  | .nil => 0
  | .cons r rs => max (nestT r) (nestR rs)
end

def Scalar : Val → Bool
  | .list _ => false
  | .dict _ => false
  | .grid _ _ _ _ => false
  | _ => true

/-- the lexer returns the image of scalar `v` for its printed text, whatever delimiter follows -/
def TokRt (v : Val) : Prop :=
  Scalar v = true ∧ ∀ (s : Scan) (rest : List UInt8) (fuel : Nat), At s (enc v true ++ rest) → s.stash = [] →
    Delim rest → (enc v true).length + 3 ≤ fuel →
    ∃ s', lexRead fuel s = .ok { sc := s', tok := .val (lexImg v) } ∧ Post s' rest

/-- a token a value can start with -/
def Starts (p : PS) : Prop :=
  match p.tok with
  | .val _ => True
  | .id _ => True
  | .ch c => c = 91 ∨ c = 123 ∨ c = 60
  | .none => False

theorem Starts.isChar {p : PS} (h : Starts p) (c : UInt8) (hc : c ≠ 91 ∧ c ≠ 123 ∧ c ≠ 60) : p.isChar c = false := by
  unfold Starts at h
  unfold PS.isChar
  split <;> simp_all
  rcases h with rfl | rfl | rfl <;> simp [Ne.symm hc.1, Ne.symm hc.2.1, Ne.symm hc.2.2]

theorem Starts.tokNone {p : PS} (h : Starts p) : p.tokNone = false := by
  unfold Starts at h
  unfold PS.tokNone
  split <;> simp_all

/-- framing statement for a value -/
def RdVal (v : Val) : Prop :=
  ∀ (depth f1 f2 : Nat) (s : Scan) (rest : List UInt8), At s (enc v true ++ rest) → s.stash = [] → Delim rest →
    4 * (enc v true).length + 8 ≤ f1 → 4 * (enc v true).length + 8 ≤ f2 → depth + nestV v < 64 →
    ∃ p p', lexRead f1 s = .ok p ∧ (rest ≠ [] → p.sc.eof = false) ∧ Starts p ∧
      parseValue f2 depth p = .ok (lexImg v, p') ∧ Post p'.sc rest

theorem parseValue_val (fuel depth : Nat) (hd : depth < 64) (s : Scan) (v : Val) :
    parseValue (fuel + 1) depth { sc := s, tok := .val v } = .ok (v, { sc := s, tok := .val v }) := by
  rw [parseValue]
  have : ¬ (depth ≥ maxNestingDepth) := by unfold maxNestingDepth; omega
  simp [this]

theorem RdVal_of_TokRt {v : Val} (h : TokRt v) : RdVal v := by
  intro depth f1 f2 s rest hat hs hd hf1 hf2 hn
  obtain ⟨s', e, hp⟩ := h.2 s rest f1 hat hs hd (by omega)
  obtain ⟨f, rfl⟩ : ∃ f, f2 = f + 1 := ⟨f2 - 1, by omega⟩
  refine ⟨_, _, e, ?_, trivial, parseValue_val f depth (by omega) s' _, hp⟩
  intro hne
  cases rest with
  | nil => exact absurd rfl hne
  | cons b r => exact hp.1.eof

/-! ### lists -/

theorem encVals_one (v : Val) : encVals (.cons v .nil) = enc v true := by rw [encVals]
theorem encVals_cons2 (v w : Val) (ws : Vals) :
    encVals (.cons v (.cons w ws)) = enc v true ++ 44 :: encVals (.cons w ws) := by
  simp [encVals]
theorem enc_list (xs : Vals) (b : Bool) : enc (.list xs) b = 91 :: (encVals xs ++ [93]) := by rw [enc]; simp

theorem Vals.ofList_toList : ∀ xs : Vals, Vals.ofList xs.toList = xs
  | .nil => rfl
  | .cons v vs => by simp [Vals.toList, Vals.ofList, Vals.ofList_toList vs]

/-- the item loop of `parse_list` on the remaining elements `xs` -/
def RdVals (xs : Vals) : Prop :=
  ∀ (depth fuel : Nat) (p : PS) (acc : List Val) (rest : List UInt8), At p.sc (encVals xs ++ 93 :: rest) →
    p.sc.stash = [] → 4 * (encVals xs).length + 10 ≤ fuel → depth + nestVs xs ≤ 64 →
    ∃ p', listLoop fuel depth p false acc = .ok (.list (Vals.ofList (acc ++ (lexImgs xs).toList)), p') ∧
      At p'.sc rest ∧ p'.sc.stash = []

theorem isChar_ch (s : Scan) (c d : UInt8) : PS.isChar { sc := s, tok := .ch c } d = (c == d) := rfl

/-- the closing bracket -/
theorem listLoop_close (fuel depth : Nat) (p : PS) (ec : Bool) (acc : List Val) (rest : List UInt8)
    (h : At p.sc (93 :: rest)) (hs : p.sc.stash = []) (hf : 2 ≤ fuel) :
    ∃ p', listLoop fuel depth p ec acc = .ok (.list (Vals.ofList acc), p') ∧ At p'.sc rest ∧ p'.sc.stash = [] := by
  obtain ⟨f, rfl⟩ : ∃ f, fuel = f + 2 := ⟨fuel - 2, by omega⟩
  refine ⟨{ sc := p.sc.advance, tok := .ch 93 }, ?_, h.advance, by rw [At.advance_stash, hs]; rfl⟩
  rw [listLoop]
  simp only [PS.read, lexRead_special h (by decide) (by decide) f]
  simp [isChar_ch]

theorem RdVals_nil : RdVals .nil := by
  intro depth fuel p acc rest h hs hf hn
  simp only [encVals, List.nil_append] at h
  obtain ⟨p', e, h', hs'⟩ := listLoop_close fuel depth p false acc rest h hs (by omega)
  exact ⟨p', by simpa [lexImgs, Vals.toList] using e, h', hs'⟩

theorem Post.clean {s : Scan} {b : UInt8} {r : List UInt8} (h : Post s (b :: r)) (hb : b ≠ 32) : s.stash = [] :=
  h.2.2 (by simpa using hb)

theorem RdVals_cons {v : Val} {vs : Vals} (hv : RdVal v) (hvs : RdVals vs) : RdVals (.cons v vs) := by
  intro depth fuel p acc rest h hs hf hn
  obtain ⟨f, rfl⟩ : ∃ f, fuel = f + 1 := ⟨fuel - 1, by omega⟩
  simp only [nestVs] at hn
  cases vs with
  | nil =>
    rw [encVals_one] at h hf
    obtain ⟨p1, p2, e1, _, hst, e2, hp2⟩ := hv depth f f p.sc (93 :: rest) h hs
      (Or.inr (Or.inl ⟨_, _, rfl, by simp⟩)) (by omega) (by omega) (by omega)
    obtain ⟨p', e', h', hs'⟩ := listLoop_close f depth p2 true (acc ++ [lexImg v]) rest hp2.1
      (hp2.clean (by decide)) (by omega)
    refine ⟨p', ?_, h', hs'⟩
    rw [listLoop]
    simp only [PS.read, e1]
    simp only [hst.isChar 93 (by decide), Bool.false_eq_true, if_false, e2, PS.isEof, hp2.1.eof, e']
    simp [lexImgs, Vals.toList]
  | cons w ws =>
    rw [encVals_cons2] at h hf
    simp only [List.append_assoc, List.cons_append, List.length_append, List.length_cons] at h hf
    obtain ⟨p1, p2, e1, _, hst, e2, hp2⟩ := hv depth f f p.sc (44 :: (encVals (.cons w ws) ++ 93 :: rest)) h hs
      (Or.inr (Or.inl ⟨_, _, rfl, by simp⟩)) (by omega) (by omega) (by omega)
    obtain ⟨f', rfl⟩ : ∃ f', f = f' + 2 := ⟨f - 2, by omega⟩
    have hc := hp2.1
    obtain ⟨p', e', h', hs'⟩ := hvs depth (f' + 1) { sc := p2.sc.advance, tok := .ch 44 } (acc ++ [lexImg v]) rest
      hc.advance (by rw [At.advance_stash, hp2.clean (by decide)]; rfl) (by omega) (by omega)
    refine ⟨p', ?_, h', hs'⟩
    rw [listLoop]
    simp only [PS.read, e1]
    simp only [hst.isChar 93 (by decide), Bool.false_eq_true, if_false, e2, PS.isEof, hc.eof]
    rw [listLoop]
    simp only [PS.read, lexRead_special hc (by decide) (by decide) f']
    simp only [isChar_ch, e']
    simp [lexImgs, Vals.toList]

theorem RdVal_list {xs : Vals} (h : RdVals xs) : RdVal (.list xs) := by
  intro depth f1 f2 s rest hat hs hd hf1 hf2 hn
  rw [enc_list] at hat hf1 hf2
  simp only [List.cons_append, List.append_assoc, List.length_cons, List.length_append, List.length_nil] at hat hf1 hf2
  simp only [nestV] at hn
  obtain ⟨g1, rfl⟩ : ∃ g, f1 = g + 1 := ⟨f1 - 1, by omega⟩
  obtain ⟨g2, rfl⟩ : ∃ g, f2 = g + 2 := ⟨f2 - 2, by omega⟩
  obtain ⟨p', e', h', hs'⟩ := h (depth + 1) g2 { sc := s.advance, tok := .ch 91 } [] rest hat.advance
    (by rw [At.advance_stash, hs]; rfl) (by omega) (by omega)
  have heof1 : s.advance.eof = false := by
    cases hx : encVals xs ++ 93 :: rest with
    | nil => simp at hx
    | cons b r => have := hat.advance; simp only [List.nil_append] at this; rw [hx] at this; exact this.eof
  refine ⟨_, p', lexRead_special hat (by decide) (by decide) g1, fun _ => heof1, Or.inl rfl, ?_, Post.of_clean h' hs'⟩
  rw [parseValue]
  have : ¬ (depth ≥ maxNestingDepth) := by unfold maxNestingDepth; omega
  simp only [this, if_false]
  rw [parseList]
  simp only [isChar_ch, e']
  simp [lexImg, Vals.ofList_toList]

end Hs.Zinc
