/-
  Hs.Lemmas.HaysonRead3 — the read direction by induction on the derivation of `Denotes`: every Hayson
  document of a value is decoded by the visitor model to that value.
-/
import Hs.Lemmas.HaysonRead2
set_option linter.unusedSimpArgs false
namespace Hs.Spec.Hayson
open Hs Hs.Hayson

mutual
theorem read_denotes : {w : Val} → {doc : Json} → Denotes w doc → fromJson doc = .ok w
  | _, _, .null => by simp [fromJson]
  | _, _, .bool b => by simp [fromJson]
  | _, _, .str x => by simp [fromJson]
  | _, _, .numTok h => numTok_decodes h
  | _, _, .marker => by simp [fromJson, visitMap, earlyReturn, s]
  | _, _, .remove => by simp [fromJson, visitMap, earlyReturn, s]
  | _, _, .na => by simp [fromJson, visitMap, earlyReturn, s]
  | _, _, .number hv hu hp => read_number hv hu hp
  | _, _, .ref hd hp => read_ref hd hp
  | _, _, .symbol hp => read_symbol hp
  | _, _, .uri hp => read_uri hp
  | _, _, .date hp => read_date hp
  | _, _, .time hp => read_time hp
  | _, _, .dateTime hz hp => read_dateTime hz hp
  | _, _, .coord ha hb hp => read_coord ha hb hp
  | _, _, .xstr hp => read_xstr hp
  | _, _, .list (vs := vs) hl => by
    rw [fromJson_arr _ _ (read_denotesL hl), Vals.ofList_toList]
  | _, _, .dict hd => read_denotesD hd
  | _, _, .gridNoMeta (cols := cols) (rows := rows) hc hr hp => by
    rw [read_gridNoMeta (read_denotesCols hc) (read_denotesRows hr) hp, Cols.ofList_toList, Rows.ofList_toList]
  | _, _, .gridMeta (t := t) (cols := cols) (rows := rows) hm hk hnv hkm hvm hpm hc hr hp => by
    obtain ⟨m, h1, h2, h3⟩ := read_metaObj (read_denotesM hm) hk hnv hkm hvm hpm
    rw [read_gridMeta h1 (read_denotesCols hc) (read_denotesRows hr) hp, h2, h3, Tags.ofList_toList,
      Cols.ofList_toList, Rows.ofList_toList]
theorem read_denotesL : {vs : Vals} → {js : Jsons} → DenotesL vs js → seq js = .ok vs.toList
  | _, _, .nil => by simp [seq, Vals.toList]
  | _, _, .cons hv hl => by
    simp only [Vals.toList]
    exact seq_cons _ _ _ _ (read_denotes hv) (read_denotesL hl)
theorem read_denotesM : {t : Tags} → {tm : Mems} → DenotesM t tm → decView tm = okView t.toList
  | _, _, .nil => by simp [decView, okView, Tags.toList]
  | _, _, .cons hv hm => by
    have ih := read_denotesM hm
    simp only [decView, okView] at ih ⊢
    simp [Tags.toList, read_denotes hv, ih]
theorem read_denotesD : {t : Tags} → {ms : Members} → DenotesD t ms → fromJson (.obj ms) = .ok (.dict t)
  | _, _, .mk hm hk hkm hp => read_dictObj (read_denotesM hm) hk hkm hp
theorem read_denotesCols : {c : Cols} → {js : Jsons} → DenotesCols c js →
    seq js = .ok (c.toList.map colVal)
  | _, _, .nil => by simp [seq, Cols.toList]
  | _, _, .consNoMeta hp hc => by
    simp only [Cols.toList, List.map_cons]
    exact seq_cons _ _ _ _ (read_colNoMeta hp) (read_denotesCols hc)
  | _, _, .consMeta hd hp hc => by
    simp only [Cols.toList, List.map_cons]
    exact seq_cons _ _ _ _ (read_colMeta (read_denotesD hd) hp) (read_denotesCols hc)
theorem read_denotesRows : {r : Rows} → {js : Jsons} → DenotesRows r js →
    seq js = .ok (r.toList.map Val.dict)
  | _, _, .nil => by simp [seq, Rows.toList]
  | _, _, .cons hd hr => by
    simp only [Rows.toList, List.map_cons]
    exact seq_cons _ _ _ _ (read_denotesD hd) (read_denotesRows hr)
end

end Hs.Spec.Hayson
