/-
  print → parse for the skeleton of the filter grammar (C08): trees whose terms are `has` / `missing`
  over identifier paths and parenthesised groups, any `and` / `or` nesting.  One mutual induction over
  the tree; the lexer is used only through the token lemmas of `Hs.Lemmas.FilterLex`.
-/
import Hs.Lemmas.FilterLex
namespace Hs.FText
open Hs Hs.Scan Hs.Zinc

/-! ### positions and continuations -/

/-- a token may start here after a space: not white space, not `?`, not `-` -/
def okHead (T : List UInt8) : Prop :=
  ∃ c r, T = c :: r ∧ isWsB c = false ∧ (c == 63) = false ∧ (c == 45) = false

/-- the scanner is at `T`, or one space before it -/
def NearV (v T : List UInt8) : Prop := v = T ∨ (v = 32 :: T ∧ okHead T)

/-- the lexer state after a token: current token `tok`, scanner at (or one space before) `T` -/
def At (l : FLex) (tok : FTok) (T : List UInt8) : Prop := l.cur = tok ∧ ∃ v, Views l.sc v ∧ NearV v T

/-- what follows a term in printed text: nothing, or one space and then the next token -/
def Cont (rest T : List UInt8) : Prop := (rest = [] ∧ T = []) ∨ (rest = 32 :: T ∧ okHead T)

/-- reading a token at `T` gives `tok` and leaves the scanner at (or one space before) `T'` -/
def Follow (T : List UInt8) (tok : FTok) (T' : List UInt8) : Prop :=
  T'.length ≤ T.length ∧
  ∀ (fuel : Nat) (s : Scan), Views s T → T.length + 5 ≤ fuel →
    ∃ s' v', lexRead fuel s = .ok s' tok ∧ Views s' v' ∧ NearV v' T'

theorem Cont.pdelim {rest T : List UInt8} (h : Cont rest T) : PDelim rest := by
  rcases h with ⟨h, _⟩ | ⟨h, c, r, hT, h1, h2, h3⟩
  · exact Or.inl h
  · exact Or.inr ⟨c, r, by rw [h, hT], h1, h2, h3⟩

theorem Cont.afterSp {rest T : List UInt8} (h : Cont rest T) : afterSp rest = T := by
  rcases h with ⟨h, h'⟩ | ⟨h, _⟩ <;> subst h <;> simp [FText.afterSp, *]

theorem Cont.len {rest T : List UInt8} (h : Cont rest T) : T.length ≤ rest.length := by
  rcases h with ⟨h, h'⟩ | ⟨h, _⟩ <;> subst h <;> simp [*]

/-- reading at a position that is at `T` or one space before it -/
theorem read_near {T T' : List UInt8} {tok : FTok} (hF : Follow T tok T') (fuel : Nat) (s : Scan) (v : List UInt8)
    (hs : Views s v) (hv : NearV v T) (hf : T.length + 6 ≤ fuel) :
    ∃ s' v', lexRead fuel s = .ok s' tok ∧ Views s' v' ∧ NearV v' T' := by
  rcases hv with hv | ⟨hv, c, r, hT, hc, _, _⟩
  · subst hv; exact hF.2 fuel s hs (by omega)
  · subst hv
    obtain ⟨F, rfl⟩ : ∃ F, fuel = F + 2 := ⟨fuel - 2, by omega⟩
    rw [hT] at hs
    obtain ⟨s0, h1, h2⟩ := lexRead_space F s c r hc hs
    rw [h1]
    rw [← hT] at h2
    exact hF.2 (F + 1) s0 h2 (by omega)

theorem follow_nil : Follow [] .none [] := by
  refine ⟨Nat.le_refl _, ?_⟩
  intro fuel s hs hf
  obtain ⟨F, rfl⟩ : ∃ F, fuel = F + 1 := ⟨fuel - 1, by omega⟩
  exact ⟨s, [], lexRead_eof F s hs, hs, Or.inl rfl⟩

theorem follow_rparen {rest T : List UInt8} (h : Cont rest T) : Follow (41 :: rest) .rparen T := by
  refine ⟨by have := h.len; simp; omega, ?_⟩
  intro fuel s hs hf
  obtain ⟨F, rfl⟩ : ∃ F, fuel = F + 1 := ⟨fuel - 1, by omega⟩
  obtain ⟨h1, h2⟩ := lexRead_rparen F s rest hs
  refine ⟨s.advance, rest, h1, h2, ?_⟩
  rcases h with ⟨h, h'⟩ | ⟨h, h'⟩
  · subst h; subst h'; exact Or.inl rfl
  · exact Or.inr ⟨h, h'⟩

/-- a keyword (`and`, `or`) printed between two spaces -/
theorem follow_kw (kw : List Char) (hkw : IdSeg kw) (X : List UInt8) (hX : okHead X) :
    Follow (segBytes kw ++ 32 :: X) (.path [kw]) X := by
  refine ⟨by simp; omega, ?_⟩
  intro fuel s hs hf
  obtain ⟨c, r, hXe, h1, h2, h3⟩ := hX
  have hd : PDelim (32 :: X) := Or.inr ⟨c, r, by rw [hXe], h1, h2, h3⟩
  obtain ⟨s', h4, h5⟩ := lexRead_path [kw] (by simp) (by simpa using hkw) (32 :: X) hd fuel s
    (by simpa [pathBytes] using hs) (by simp [pathBytes] at hf ⊢; omega)
  exact ⟨s', X, h4, by simpa [afterSp] using h5, Or.inl rfl⟩

/-! ### the skeleton -/

def WFPath (p : Path) : Prop := p ≠ [] ∧ ∀ seg ∈ p, IdSeg seg

mutual
/-- skeleton terms: `has` / `missing` over identifier paths (a lone `not` is the operator, not a
name), groups of skeleton expressions -/
def SkT : Term → Prop
  | .parens o => o ≠ .nil ∧ AllO o
  | .has p => WFPath p ∧ p ≠ kwNot
  | .missing p => WFPath p
  | _ => False
def AllA : Ands → Prop
  | .nil => True
  | .cons t ts => SkT t ∧ AllA ts
def AllO : Ors → Prop
  | .nil => True
  | .cons a as => (a ≠ .nil ∧ AllA a) ∧ AllO as
end

mutual
/-- nesting depth of groups -/
def nestT : Term → Nat
  | .parens o => nestO o + 1
  | _ => 0
def nestA : Ands → Nat
  | .nil => 0
  | .cons t ts => max (nestT t) (nestA ts)
def nestO : Ors → Nat
  | .nil => 0
  | .cons a as => max (nestA a) (nestO as)
end

mutual
/-- parser calls on the way through a tree (what the fuel has to pay besides the lexer's share) -/
def costT : Term → Nat
  | .parens o => costO o + 2
  | _ => 1
def costA : Ands → Nat
  | .nil => 1
  | .cons t ts => costT t + costA ts + 1
def costO : Ors → Nat
  | .nil => 1
  | .cons a as => costA a + costO as + 1
end

def isCont : FTok → Bool
  | .none => true
  | .path _ => true
  | .rparen => true
  | _ => false

theorem lower_ok : ∀ c : UInt8, (!isLowerB c || (!isWsB c && !(c == 63) && !(c == 45))) = true := by
  apply forall_u8
  decide +kernel

theorem okHead_lower {b : UInt8} {r : List UInt8} (h : isLowerB b = true) : okHead (b :: r) := by
  have := lower_ok b
  simp only [h, Bool.not_true, Bool.false_or, Bool.and_eq_true, Bool.not_eq_true'] at this
  exact ⟨b, r, rfl, this.1.1, this.1.2, this.2⟩

theorem okHead_append {X Y : List UInt8} (h : okHead X) : okHead (X ++ Y) := by
  obtain ⟨c, r, hX, h1⟩ := h
  exact ⟨c, r ++ Y, by simp [hX], h1⟩

theorem kwNot_seg : IdSeg ['n', 'o', 't'] := by decide
theorem kwAnd_seg : IdSeg ['a', 'n', 'd'] := by decide
theorem kwOr_seg : IdSeg ['o', 'r'] := by decide

theorem path_head {p : Path} (h : WFPath p) : okHead (pathBytes p) := by
  obtain ⟨b, r, hb, hl⟩ := pathBytes_head p h.1 h.2
  rw [hb]; exact okHead_lower hl

theorem term_head : (t : Term) → SkT t → okHead (printTerm t)
  | .parens o, _ => ⟨40, 32 :: (printOrs o ++ [32, 41]), by simp [printTerm], by decide, by decide, by decide⟩
  | .has p, h => by
    have hw : WFPath p := h.1
    simp only [printTerm, printPath_eq p hw.2]; exact path_head hw
  | .missing p, _ => by
    simp only [printTerm]
    exact ⟨110, [111, 116, 32] ++ printPath p, by simp [bytesOfAscii], by decide, by decide, by decide⟩
  | .isA _, h => absurd h (by simp [SkT])
  | .weq _ _, h => absurd h (by simp [SkT])
  | .rel _ _ _, h => absurd h (by simp [SkT])
  | .cmp _ _ _, h => absurd h (by simp [SkT])

theorem ands_head (t : Term) (ts : Ands) (h : SkT t) : okHead (printAnds (.cons t ts)) := by
  cases ts with
  | nil => simpa [printAnds] using term_head t h
  | cons u us => simp only [printAnds]; rw [List.append_assoc]; exact okHead_append (term_head t h)

theorem ors_head (t : Term) (ts : Ands) (as : Ors) (h : SkT t) : okHead (printOrs (.cons (.cons t ts) as)) := by
  cases as with
  | nil => simpa [printOrs] using ands_head t ts h
  | cons u us => simp only [printOrs]; rw [List.append_assoc]; exact okHead_append (ands_head t ts h)

theorem follow_path {p : Path} (hp : WFPath p) {rest T : List UInt8} (hC : Cont rest T) :
    Follow (pathBytes p ++ rest) (.path p) T := by
  refine ⟨by have := hC.len; simp; omega, ?_⟩
  intro fuel s hs hf
  obtain ⟨s', h1, h2⟩ := lexRead_path p hp.1 hp.2 rest hC.pdelim fuel s hs (by simp at hf; omega)
  rw [hC.afterSp] at h2
  exact ⟨s', T, h1, h2, Or.inl rfl⟩

theorem follow_lparen (X : List UInt8) (hX : okHead X) : Follow (40 :: 32 :: X) .lparen X := by
  refine ⟨by simp; omega, ?_⟩
  intro fuel s hs hf
  obtain ⟨F, rfl⟩ : ∃ F, fuel = F + 1 := ⟨fuel - 1, by omega⟩
  obtain ⟨h1, h2⟩ := lexRead_lparen F s _ hs
  exact ⟨s.advance, 32 :: X, h1, h2, Or.inr ⟨rfl, hX⟩⟩

theorem cont_has (tok : FTok) (h : isCont tok = true) (F : Nat) (l : FLex) (p : Path) :
    (if tok.isNone then Res.ok (Term.has p, l) else parseCmpOrWeq F l tok p) = .ok (.has p, l) := by
  cases tok <;> simp [isCont, FTok.isNone, parseCmpOrWeq, FTok.cmpOp] at *

theorem readTry_ok {F : Nat} {l : FLex} {s' : Scan} {tok : FTok} (h : lexRead F l.sc = .ok s' tok) :
    l.readTry F = .ok (true, { sc := s', cur := tok }) := by simp [FLex.readTry, h]
theorem readOk_ok {F : Nat} {l : FLex} {s' : Scan} {tok : FTok} (h : lexRead F l.sc = .ok s' tok) :
    l.readOk F = .ok { sc := s', cur := tok } := by simp [FLex.readOk, FLex.readTry, h]
theorem read_ok {F : Nat} {l : FLex} {s' : Scan} {tok : FTok} (h : lexRead F l.sc = .ok s' tok) :
    l.read F = .ok { sc := s', cur := tok } := by simp [FLex.read, h]

theorem sepAnd_eq : sepAnd = 32 :: (segBytes ['a', 'n', 'd'] ++ [32]) := by decide
theorem sepOr_eq : sepOr = 32 :: (segBytes ['o', 'r'] ++ [32]) := by decide
theorem notSp_eq : bytesOfAscii "not " = segBytes ['n', 'o', 't'] ++ [32] := by decide

/-- the text between two terms: one space, `and`, one space -/
theorem sep_and (X : List UInt8) (hX : okHead X) :
    Cont (sepAnd ++ X) (segBytes ['a', 'n', 'd'] ++ 32 :: X) ∧
    Follow (segBytes ['a', 'n', 'd'] ++ 32 :: X) (.path kwAnd) X := by
  refine ⟨Or.inr ⟨by simp [sepAnd_eq], ?_⟩, follow_kw _ kwAnd_seg X hX⟩
  exact ⟨97, _, by simp [segBytes]; rfl, by decide, by decide, by decide⟩

theorem sep_or (X : List UInt8) (hX : okHead X) :
    Cont (sepOr ++ X) (segBytes ['o', 'r'] ++ 32 :: X) ∧
    Follow (segBytes ['o', 'r'] ++ 32 :: X) (.path kwOr) X := by
  refine ⟨Or.inr ⟨by simp [sepOr_eq], ?_⟩, follow_kw _ kwOr_seg X hX⟩
  exact ⟨111, _, by simp [segBytes]; rfl, by decide, by decide, by decide⟩

theorem At.eof_false {l : FLex} {tok : FTok} {X : List UInt8} (h : At l tok X) (hX : okHead X) : l.sc.eof = false := by
  obtain ⟨_, v, hv, hn⟩ := h
  obtain ⟨c, r, hc, _⟩ := hX
  rcases hn with hn | ⟨hn, _⟩
  · subst hn; rw [hc] at hv; exact Views.cons_eof hv
  · subst hn; exact Views.cons_eof hv


/-- `tok` is not the keyword `kw` -/
def notKw (tok : FTok) (kw : Path) : Prop := tok.isPath kw = false

set_option maxHeartbeats 1000000 in
mutual
theorem termR_ok : (t : Term) → SkT t → ∀ (rest T T' : List UInt8) (tok' : FTok) (d fuelL fuelP N : Nat)
    (s : Scan) (v : List UInt8), Cont rest T → Follow T tok' T' → isCont tok' = true →
    Views s v → NearV v (printTerm t ++ rest) → d + nestT t ≤ 64 →
    (printTerm t ++ rest).length + 8 ≤ N → N ≤ fuelL → costT t + N ≤ fuelP →
    ∃ s1 tok1 l', lexRead fuelL s = .ok s1 tok1 ∧ parseTerm fuelP d { sc := s1, cur := tok1 } = .ok (t, l')
      ∧ At l' tok' T'
  | .has p, hsk, rest, T, T', tok', d, fuelL, fuelP, N, s, v, hC, hF, hc, hs, hv, hd, hN, hL, hP => by
    have hw : WFPath p := hsk.1
    have hnn : (p == kwNot) = false := by simpa using hsk.2
    simp only [printTerm, printPath_eq p hw.2] at hv hN
    have hTl := hC.len
    obtain ⟨s1, v1, h1, h2, h3⟩ := read_near (follow_path hw hC) fuelL s v hs hv (by simp at hN ⊢; omega)
    obtain ⟨F, rfl⟩ : ∃ F, fuelP = F + 1 := ⟨fuelP - 1, by simp [costT] at hP; omega⟩
    obtain ⟨s2, v2, h4, h5, h6⟩ := read_near hF F s1 v1 h2 h3 (by simp [costT] at hP hN; omega)
    refine ⟨s1, .path p, { sc := s2, cur := tok' }, h1, ?_, rfl, v2, h5, h6⟩
    unfold parseTerm
    simp only [hnn, Bool.false_eq_true, if_false]
    rw [readTry_ok (l := { sc := s1, cur := .path p }) h4]
    exact cont_has tok' hc F _ p
  | .missing p, hsk, rest, T, T', tok', d, fuelL, fuelP, N, s, v, hC, hF, hc, hs, hv, hd, hN, hL, hP => by
    have hw : WFPath p := hsk
    have htxt : printTerm (.missing p) ++ rest = segBytes ['n', 'o', 't'] ++ 32 :: (pathBytes p ++ rest) := by
      simp [printTerm, printPath_eq p hw.2, notSp_eq]
    rw [htxt] at hv hN
    have hTl := hC.len
    have hX : okHead (pathBytes p ++ rest) := okHead_append (path_head hw)
    obtain ⟨s1, v1, h1, h2, h3⟩ := read_near (follow_kw _ kwNot_seg _ hX) fuelL s v hs hv (by omega)
    obtain ⟨F, rfl⟩ : ∃ F, fuelP = F + 1 := ⟨fuelP - 1, by simp [costT] at hP; omega⟩
    simp only [List.length_append, List.length_cons] at hN
    obtain ⟨s2, v2, h4, h5, h6⟩ := read_near (follow_path hw hC) F s1 v1 h2 h3 (by simp [costT] at hP ⊢; omega)
    obtain ⟨s3, v3, h7, h8, h9⟩ := read_near hF F s2 v2 h5 h6 (by simp [costT] at hP; omega)
    refine ⟨s1, .path kwNot, { sc := s3, cur := tok' }, h1, ?_, rfl, v3, h8, h9⟩
    unfold parseTerm
    have : (kwNot == kwNot) = true := by decide
    simp only [this, if_true]
    unfold parseNot
    rw [read_ok (l := { sc := s1, cur := .path kwNot }) h4]
    simp only
    rw [readOk_ok (l := { sc := s2, cur := .path p }) h7]
  | .parens o, hsk, rest, T, T', tok', d, fuelL, fuelP, N, s, v, hC, hF, hc, hs, hv, hd, hN, hL, hP => by
    obtain ⟨hne, hall⟩ := hsk
    have htxt : printTerm (.parens o) ++ rest = 40 :: 32 :: (printOrs o ++ (32 :: 41 :: rest)) := by
      simp [printTerm]
    rw [htxt] at hv hN
    have hTl := hC.len
    -- the group is not empty: its text starts with a term
    have hX : okHead (printOrs o ++ (32 :: 41 :: rest)) := by
      cases o with
      | nil => exact absurd rfl hne
      | cons a as =>
        obtain ⟨⟨hane, haa⟩, _⟩ := hall
        cases a with
        | nil => exact absurd rfl hane
        | cons t ts => exact okHead_append (ors_head t ts as haa.1)
    obtain ⟨s1, v1, h1, h2, h3⟩ := read_near (follow_lparen _ hX) fuelL s v hs hv (by omega)
    obtain ⟨F, rfl⟩ : ∃ F, fuelP = F + 2 := ⟨fuelP - 2, by simp [costT] at hP; omega⟩
    simp only [List.length_cons, List.length_append] at hN
    have hC' : Cont (32 :: 41 :: rest) (41 :: rest) := Or.inr ⟨rfl, 41, rest, rfl, by decide, by decide, by decide⟩
    have ih := orsR_ok o hne hall (32 :: 41 :: rest) (41 :: rest) T .rparen (d + 1) F F N s1 v1 hC' (follow_rparen hC)
      rfl (by simp [notKw, FTok.isPath]) (by simp [notKw, FTok.isPath]) h2 h3 (by simp [nestT] at hd; omega)
      (by simp [List.length_append]; omega) (by simp [costT] at hP; omega) (by simp [costT] at hP; omega)
    obtain ⟨s2, tok2, l2, h4, h5, h6c, v6, h6v, h6n⟩ := ih
    obtain ⟨s3, v3, h7, h8, h9⟩ := read_near hF F l2.sc v6 h6v h6n (by simp [costT] at hP; omega)
    refine ⟨s1, .lparen, { sc := s3, cur := tok' }, h1, ?_, rfl, v3, h8, h9⟩
    have hdd : ¬ (maxNestingDepth ≤ d) := by simp [nestT, maxNestingDepth] at hd ⊢; omega
    unfold parseTerm
    simp only
    unfold parseParens
    simp only [ge_iff_le, hdd, if_false]
    rw [read_ok (l := { sc := s1, cur := .lparen }) h4]
    simp only [h5, h6c, FTok.isRParen, Bool.not_true, Bool.false_eq_true, if_false]
    rw [readOk_ok h7]
  | .isA _, h, _, _, _, _, _, _, _, _, _, _, _, _, _, _, _, _, _, _, _ => absurd h (by simp [SkT])
  | .weq _ _, h, _, _, _, _, _, _, _, _, _, _, _, _, _, _, _, _, _, _, _ => absurd h (by simp [SkT])
  | .rel _ _ _, h, _, _, _, _, _, _, _, _, _, _, _, _, _, _, _, _, _, _, _ => absurd h (by simp [SkT])
  | .cmp _ _ _, h, _, _, _, _, _, _, _, _, _, _, _, _, _, _, _, _, _, _, _ => absurd h (by simp [SkT])

theorem andTail_ok : (ts : Ands) → AllA ts → ∀ (rest T T' : List UInt8) (tok' : FTok) (d fuelP N : Nat) (l : FLex),
    Cont rest T → Follow T tok' T' → isCont tok' = true → notKw tok' kwAnd →
    (match ts with
     | .nil => At l tok' T'
     | .cons _ _ => At l (.path kwAnd) (printAnds ts ++ rest)) →
    d + nestA ts ≤ 64 → (printAnds ts ++ rest).length + 8 ≤ N → costA ts + N ≤ fuelP →
    ∃ l', andLoop fuelP d l = .ok (ts, l') ∧ At l' tok' T'
  | .nil, _, rest, T, T', tok', d, fuelP, N, l, hC, hF, hc, hk, hAt, hd, hN, hP => by
    obtain ⟨F, rfl⟩ : ∃ F, fuelP = F + 1 := ⟨fuelP - 1, by simp [costA] at hP; omega⟩
    refine ⟨l, ?_, hAt⟩
    unfold andLoop
    have : l.cur.isPath kwAnd = false := by rw [hAt.1]; exact hk
    simp [this]
  | .cons u us, hall, rest, T, T', tok', d, fuelP, N, l, hC, hF, hc, hk, hAt, hd, hN, hP => by
    obtain ⟨hu, hus⟩ := hall
    obtain ⟨F, rfl⟩ : ∃ F, fuelP = F + 1 := ⟨fuelP - 1, by simp [costA] at hP; omega⟩
    simp only at hAt
    have heof := hAt.eof_false (okHead_append (ands_head u us hu))
    obtain ⟨hcur, v, hv, hn⟩ := hAt
    cases us with
    | nil =>
      simp only [printAnds] at hn hN
      obtain ⟨s1, tok1, l1, h1, h2, h3⟩ := termR_ok u hu rest T T' tok' d F F N l.sc v hC hF hc hv hn
        (by simp [nestA] at hd; omega) hN (by simp [costA] at hP; omega) (by simp [costA] at hP; omega)
      obtain ⟨l', h4, h5⟩ := andTail_ok .nil trivial rest T T' tok' d F N l1 hC hF hc hk h3 (by simp [nestA] at hd ⊢; omega)
        (by simp [printAnds] at hN ⊢; omega) (by simp [costA] at hP ⊢; omega)
      refine ⟨l', ?_, h5⟩
      unfold andLoop
      simp only [hcur, FTok.isPath, beq_self_eq_true, if_true, heof, Bool.false_eq_true, if_false]
      rw [read_ok h1]
      simp only [h2, h4]
    | cons w ws =>
      have hX : okHead (printAnds (.cons w ws) ++ rest) := okHead_append (ands_head w ws hus.1)
      obtain ⟨hC1, hF1⟩ := sep_and _ hX
      have htxt : printAnds (.cons u (.cons w ws)) ++ rest = printTerm u ++ (sepAnd ++ (printAnds (.cons w ws) ++ rest)) := by
        simp [printAnds]
      rw [htxt] at hn hN
      obtain ⟨s1, tok1, l1, h1, h2, h3⟩ := termR_ok u hu _ _ _ (.path kwAnd) d F F N l.sc v hC1 hF1 rfl hv hn
        (by simp [nestA] at hd; omega) hN (by simp [costA] at hP; omega) (by simp [costA] at hP; omega)
      obtain ⟨l', h4, h5⟩ := andTail_ok (.cons w ws) hus rest T T' tok' d F N l1 hC hF hc hk h3
        (by simp [nestA] at hd ⊢; omega) (by simp [List.length_append] at hN ⊢; omega) (by simp [costA] at hP ⊢; omega)
      refine ⟨l', ?_, h5⟩
      unfold andLoop
      simp only [hcur, FTok.isPath, beq_self_eq_true, if_true, heof, Bool.false_eq_true, if_false]
      rw [read_ok h1]
      simp only [h2, h4]

theorem orsR_ok : (o : Ors) → o ≠ .nil → AllO o → ∀ (rest T T' : List UInt8) (tok' : FTok) (d fuelL fuelP N : Nat)
    (s : Scan) (v : List UInt8), Cont rest T → Follow T tok' T' → isCont tok' = true →
    notKw tok' kwAnd → notKw tok' kwOr →
    Views s v → NearV v (printOrs o ++ rest) → d + nestO o ≤ 64 →
    (printOrs o ++ rest).length + 8 ≤ N → N ≤ fuelL → costO o + N ≤ fuelP →
    ∃ s1 tok1 l', lexRead fuelL s = .ok s1 tok1 ∧ parseOr fuelP d { sc := s1, cur := tok1 } = .ok (o, l')
      ∧ At l' tok' T'
  | .nil, h, _, _, _, _, _, _, _, _, _, _, _, _, _, _, _, _, _, _, _, _, _, _ => absurd rfl h
  | .cons .nil as, _, h, _, _, _, _, _, _, _, _, _, _, _, _, _, _, _, _, _, _, _, _, _ => absurd rfl h.1.1
  | .cons (.cons t ts) as, _, hall, rest, T, T', tok', d, fuelL, fuelP, N, s, v, hC, hF, hc, hkA, hkO, hs, hv, hd, hN, hL, hP => by
    obtain ⟨⟨_, hat, hats⟩, has⟩ := hall
    obtain ⟨F, rfl⟩ : ∃ F, fuelP = F + 2 := ⟨fuelP - 2, by simp [costO, costA] at hP; omega⟩
    -- what follows the first `And`: the end of this expression, or ` or ` and the next `And`
    have key : ∃ (rest1 T1 T1' : List UInt8) (tok1' : FTok),
        printOrs (.cons (.cons t ts) as) ++ rest = printAnds (.cons t ts) ++ rest1 ∧ Cont rest1 T1 ∧ Follow T1 tok1' T1'
        ∧ isCont tok1' = true ∧ notKw tok1' kwAnd ∧
        (match as with
         | .nil => tok1' = tok' ∧ T1' = T'
         | .cons _ _ => tok1' = .path kwOr ∧ T1' = printOrs as ++ rest) := by
      cases as with
      | nil => exact ⟨rest, T, T', tok', by simp [printOrs], hC, hF, hc, hkA, rfl, rfl⟩
      | cons b bs =>
        obtain ⟨⟨hbne, hba⟩, _⟩ := has
        cases b with
        | nil => exact absurd rfl hbne
        | cons w ws =>
          have hX : okHead (printOrs (.cons (.cons w ws) bs) ++ rest) := okHead_append (ors_head w ws bs hba.1)
          obtain ⟨hC1, hF1⟩ := sep_or _ hX
          exact ⟨_, _, _, .path kwOr, by simp [printOrs], hC1, hF1, rfl, by simp [notKw, FTok.isPath, kwOr, kwAnd], rfl, rfl⟩
    obtain ⟨rest1, T1, T1', tok1', htxt, hC1, hF1, hc1, hk1, hrel⟩ := key
    rw [htxt] at hv hN
    -- the first term
    have tkey : ∃ (rest2 T2 T2' : List UInt8) (tok2' : FTok),
        printAnds (.cons t ts) ++ rest1 = printTerm t ++ rest2 ∧ Cont rest2 T2 ∧ Follow T2 tok2' T2'
        ∧ isCont tok2' = true ∧
        (match ts with
         | .nil => tok2' = tok1' ∧ T2' = T1'
         | .cons _ _ => tok2' = .path kwAnd ∧ T2' = printAnds ts ++ rest1) := by
      cases ts with
      | nil => exact ⟨rest1, T1, T1', tok1', by simp [printAnds], hC1, hF1, hc1, rfl, rfl⟩
      | cons w ws =>
        have hX : okHead (printAnds (.cons w ws) ++ rest1) := okHead_append (ands_head w ws hats.1)
        obtain ⟨hC2, hF2⟩ := sep_and _ hX
        exact ⟨_, _, _, .path kwAnd, by simp [printAnds], hC2, hF2, rfl, rfl, rfl⟩
    obtain ⟨rest2, T2, T2', tok2', htxt2, hC2, hF2, hc2, hrel2⟩ := tkey
    rw [htxt2] at hv hN
    obtain ⟨s1, tokA, l1, h1, h2, h3⟩ := termR_ok t hat rest2 T2 T2' tok2' d fuelL F N s v hC2 hF2 hc2 hs hv
      (by simp [nestO, nestA] at hd; omega) hN hL (by simp [costO, costA] at hP; omega)
    have hlen2 : (printAnds ts ++ rest1).length ≤ (printTerm t ++ rest2).length := by
      rw [← htxt2]; cases ts <;> simp [printAnds, List.length_append] <;> omega
    obtain ⟨l2, h4, h5⟩ := andTail_ok ts hats rest1 T1 T1' tok1' d F N l1 hC1 hF1 hc1 hk1
      (by cases ts with
          | nil => simp only at hrel2 ⊢; rw [← hrel2.1, ← hrel2.2]; exact h3
          | cons w ws => simp only at hrel2 ⊢; rw [← hrel2.1, ← hrel2.2]; exact h3)
      (by simp [nestO, nestA] at hd; omega) (by omega) (by simp [costO, costA] at hP; omega)
    have hlen1 : (printOrs as ++ rest).length ≤ (printAnds (.cons t ts) ++ rest1).length := by
      rw [← htxt]; cases as <;> simp [printOrs, List.length_append] <;> omega
    obtain ⟨l3, h6, h7⟩ := orTail_ok as has rest T T' tok' d (F + 1) N l2 hC hF hc hkA hkO
      (by cases as with
          | nil => simp only at hrel ⊢; rw [← hrel.1, ← hrel.2]; exact h5
          | cons b bs => simp only at hrel ⊢; rw [← hrel.1, ← hrel.2]; exact h5)
      (by simp [nestO] at hd; omega) (by rw [htxt2] at hlen1; omega) (by simp [costO, costA] at hP; omega)
    refine ⟨s1, tokA, l3, h1, ?_, h7⟩
    unfold parseOr
    unfold parseAnd
    simp only [h2, h4, h6]

theorem orTail_ok : (as : Ors) → AllO as → ∀ (rest T T' : List UInt8) (tok' : FTok) (d fuelP N : Nat) (l : FLex),
    Cont rest T → Follow T tok' T' → isCont tok' = true → notKw tok' kwAnd → notKw tok' kwOr →
    (match as with
     | .nil => At l tok' T'
     | .cons _ _ => At l (.path kwOr) (printOrs as ++ rest)) →
    d + nestO as ≤ 64 → (printOrs as ++ rest).length + 8 ≤ N → costO as + N ≤ fuelP →
    ∃ l', orLoop fuelP d l = .ok (as, l') ∧ At l' tok' T'
  | .nil, _, rest, T, T', tok', d, fuelP, N, l, hC, hF, hc, hkA, hkO, hAt, hd, hN, hP => by
    obtain ⟨F, rfl⟩ : ∃ F, fuelP = F + 1 := ⟨fuelP - 1, by simp [costO] at hP; omega⟩
    refine ⟨l, ?_, hAt⟩
    unfold orLoop
    have : l.cur.isPath kwOr = false := by rw [hAt.1]; exact hkO
    simp [this]
  | .cons .nil bs, h, _, _, _, _, _, _, _, _, _, _, _, _, _, _, _, _, _ => absurd rfl h.1.1
  | .cons (.cons t ts) bs, hall, rest, T, T', tok', d, fuelP, N, l, hC, hF, hc, hkA, hkO, hAt, hd, hN, hP => by
    obtain ⟨F, rfl⟩ : ∃ F, fuelP = F + 1 := ⟨fuelP - 1, by simp [costO] at hP; omega⟩
    simp only at hAt
    have heof := hAt.eof_false (okHead_append (ors_head t ts bs hall.1.2.1))
    obtain ⟨hcur, v, hv, hn⟩ := hAt
    -- read the first token of the next `And`, parse it and the rest of the `Or`: this is `parse_or` again
    have hcost : costO (.cons (.cons t ts) bs) ≥ 2 := by simp [costO, costA]; omega
    obtain ⟨s1, tokA, l3, h1, h2, h3⟩ := orsR_ok (.cons (.cons t ts) bs) (by simp) hall rest T T' tok' d F (F + 1) N l.sc v
      hC hF hc hkA hkO hv hn hd hN (by omega) (by omega)
    refine ⟨l3, ?_, h3⟩
    -- `or_loop` after the keyword does what `parse_or` does
    unfold parseOr at h2
    unfold orLoop
    simp only [hcur, FTok.isPath, beq_self_eq_true, if_true, heof, Bool.false_eq_true, if_false]
    rw [read_ok h1]
    exact h2
end

theorem okHead_len {X : List UInt8} (h : okHead X) : 1 ≤ X.length := by
  obtain ⟨c, r, hX, _⟩ := h; simp [hX]

mutual
theorem costT_le : (t : Term) → SkT t → costT t + 4 ≤ 5 * (printTerm t).length
  | .parens o, h => by
    have := costO_le o h.2
    simp [costT, printTerm, List.length_append] at this ⊢; omega
  | .has p, h => by have := okHead_len (term_head (.has p) h); simp [costT] at this ⊢; omega
  | .missing p, h => by have := okHead_len (term_head (.missing p) h); simp [costT] at this ⊢; omega
  | .isA _, h => absurd h (by simp [SkT])
  | .weq _ _, h => absurd h (by simp [SkT])
  | .rel _ _ _, h => absurd h (by simp [SkT])
  | .cmp _ _ _, h => absurd h (by simp [SkT])
theorem costA_le : (a : Ands) → AllA a → costA a ≤ 5 * (printAnds a).length + 1
  | .nil, _ => by simp [costA]
  | .cons t .nil, h => by
    have := costT_le t h.1
    simp [costA, printAnds] at this ⊢; omega
  | .cons t (.cons u us), h => by
    have h1 := costT_le t h.1
    have h2 := costA_le (.cons u us) h.2
    simp only [costA, printAnds, List.length_append] at h1 h2 ⊢
    have : sepAnd.length = 5 := by decide
    omega
theorem costO_le : (o : Ors) → AllO o → costO o ≤ 5 * (printOrs o).length + 4
  | .nil, _ => by simp [costO]
  | .cons a .nil, h => by
    have := costA_le a h.1.2
    simp [costO, printOrs] at this ⊢; omega
  | .cons a (.cons b bs), h => by
    have h1 := costA_le a h.1.2
    have h2 := costO_le (.cons b bs) h.2
    simp only [costO, printOrs, List.length_append] at h1 h2 ⊢
    have : sepOr.length = 4 := by decide
    omega
end

/-- print → parse on the skeleton, with the fuel the cost function asks for -/
theorem print_parse_skel_fuel (f : Ors) (hne : f ≠ .nil) (hall : AllO f) (hd : nestO f ≤ 64) (fuel : Nat)
    (hf : costO f + (printFilter f).length + 8 ≤ fuel) : parseFilter fuel (printFilter f) = .ok f := by
  have hv := views_make (printFilter f)
  obtain ⟨s1, tok1, l', h1, h2, h3c, v, h3v, h3n⟩ := orsR_ok f hne hall [] [] [] .none 0 fuel fuel
    ((printFilter f).length + 8) (Scan.make (printFilter f)) (printFilter f) (Or.inl ⟨rfl, rfl⟩) follow_nil rfl
    (by simp [notKw, FTok.isPath]) (by simp [notKw, FTok.isPath]) hv (Or.inl (by simp [printFilter]))
    (by omega) (by simp [printFilter]) (by omega) (by omega)
  unfold parseFilter
  simp only
  rw [read_ok (l := { sc := Scan.make (printFilter f), cur := .none }) h1]
  simp only [h2, h3c, FTok.isNone, if_true]

/-- … and with the fuel `Filter::try_from` is modelled with -/
theorem print_parse_skel (f : Ors) (hne : f ≠ .nil) (hall : AllO f) (hd : nestO f ≤ 64) :
    filterOfBytes (printFilter f) = .ok f := by
  unfold filterOfBytes
  apply print_parse_skel_fuel f hne hall hd
  have := costO_le f hall
  simp only [printFilter, fuelFor] at this ⊢
  omega

end Hs.FText
