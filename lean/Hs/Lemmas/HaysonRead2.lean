/-
  Hs.Lemmas.HaysonRead2 — reading the container objects of a Hayson document whose members stand in any
  order: dict objects (with or without `"_kind":"dict"`), a grid meta (with or without `ver`), column
  objects (with or without `meta`), the grid object (with or without `meta`).
-/
import Hs.Lemmas.HaysonRead1
import Hs.Lemmas.HaysonGrid
set_option linter.unusedSimpArgs false
namespace Hs.Spec.Hayson
open Hs Hs.Hayson

/-! ### `insertTag` of a key that is not among the others -/

theorem foldl_insertTag_comm (k : List Char) (v : Val) :
    ∀ (l d : List (List Char × Val)), (∀ p ∈ l, p.1 ≠ k) →
      l.foldl (fun acc p => insertTag p.1 p.2 acc) (insertTag k v d)
        = insertTag k v (l.foldl (fun acc p => insertTag p.1 p.2 acc) d)
  | [], _, _ => rfl
  | (k', v') :: l, d, h => by
    have hne : k' ≠ k := h (k', v') (by simp)
    simp only [List.foldl_cons]
    rw [insertTag_comm k' k v' v hne d]
    exact foldl_insertTag_comm k v l (insertTag k' v' d) (fun p hp => h p (List.mem_cons_of_mem _ hp))

theorem getTag_insertTag (k : String) (v : Val) :
    ∀ d : List (List Char × Val), getTag (insertTag (s k) v d) k = some v
  | [] => by simp [insertTag, getTag]
  | (k', v') :: rest => by
    have ih := getTag_insertTag k v rest
    by_cases e : s k = k'
    · simp [insertTag, e, getTag]
    · by_cases l : leChars (s k) k' = true
      · simp [insertTag, e, l, getTag]
      · have e' : ¬ k' = s k := fun h => e h.symm
        simp only [getTag] at ih
        simp [insertTag, e, l, getTag, e', ih]

theorem removeTag_insertTag (k : String) (v : Val) :
    ∀ d : List (List Char × Val), (∀ p ∈ d, p.1 ≠ s k) → removeTag (insertTag (s k) v d) k = d
  | [], _ => by simp [insertTag, removeTag]
  | (k', v') :: rest, h => by
    have hk : k' ≠ s k := h (k', v') (by simp)
    have hk' : ¬ s k = k' := fun e => hk e.symm
    have hrest : ∀ p ∈ rest, p.1 ≠ s k := fun p hp => h p (List.mem_cons_of_mem _ hp)
    have ih := removeTag_insertTag k v rest hrest
    have hr : removeTag rest k = rest := removeTag_of_not_mem rest k hrest
    by_cases l : leChars (s k) k' = true
    · simp only [removeTag] at hr
      simp [insertTag, hk', l, removeTag, hk, hr]
    · simp only [removeTag] at ih
      simp [insertTag, hk', l, removeTag, hk, ih]

/-! ### the members of a dict -/

theorem decView_append (a b : Mems) : decView (a ++ b) = decView a ++ decView b := by
  simp [decView]

theorem decView_keys (L : Mems) : (decView L).map (·.1) = L.map (·.1) := by
  simp [decView, List.map_map, Function.comp_def]

theorem keys_of_decView {tm : Mems} {t : Tags} (hv : decView tm = okView t.toList) :
    tm.map (·.1) = t.keys := by
  have := congrArg (List.map (·.1)) hv
  rw [decView_keys] at this
  rw [this, Tags.keys_eq]
  simp [okView, List.map_map, Function.comp_def]

theorem decodes_of_decView {tm : Mems} {l : List (List Char × Val)} (hv : decView tm = okView l) :
    ∀ p ∈ tm, ∃ v, fromJson p.2 = .ok v := by
  intro p hp
  have : (p.1, fromJson p.2) ∈ decView tm := List.mem_map_of_mem (f := fun p => (p.1, fromJson p.2)) hp
  rw [hv] at this
  obtain ⟨q, _, e⟩ := List.mem_map.mp this
  exact ⟨q.2, by simpa using (congrArg Prod.snd e).symm⟩

theorem tagKeys_nodup {t : Tags} (hk : TagKeys t) : t.keys.Nodup :=
  (strictSorted_pairwise _ hk.1).imp (fun h => ltChars_ne h)

theorem tagKeys_noKind {t : Tags} (hk : TagKeys t) : ∀ p ∈ t.toList, p.1 ≠ s "_kind" := by
  intro p hp
  exact hk.2 p.1 (by rw [Tags.keys_eq]; exact List.mem_map_of_mem hp)

theorem tagKeys_pairwise {t : Tags} (hk : TagKeys t) :
    (([] : List (List Char × Val)) ++ t.toList).map (·.1) |>.Pairwise (fun a b => ltChars a b = true) := by
  simpa [← Tags.keys_eq] using strictSorted_pairwise _ hk.1

/-- the visitor on the decoded tag members (ascending, `_kind`-free), whatever kind it remembers -/
theorem runR_tags (t : Tags) (hk : TagKeys t) (kind : List Char) :
    runR (okView t.toList) kind [] = finish kind t.toList := by
  rw [runR_sorted t.toList kind [] (tagKeys_noKind hk) (tagKeys_pairwise hk)]
  simp

theorem finish_nil_kind (d : List (List Char × Val)) : finish [] d = .ok (.dict (Tags.ofList d)) := by
  simp [finish, s]

theorem finish_dict_kind (d : List (List Char × Val)) : finish (s "dict") d = .ok (.dict (Tags.ofList d)) := by
  have e1 : (s "dict" == s "number") = false := by decide
  have e2 : (s "dict" == s "ref") = false := by decide
  have e3 : (s "dict" == s "symbol") = false := by decide
  have e4 : (s "dict" == s "uri") = false := by decide
  have e5 : (s "dict" == s "date") = false := by decide
  have e6 : (s "dict" == s "time") = false := by decide
  have e7 : (s "dict" == s "dateTime") = false := by decide
  have e8 : (s "dict" == s "coord") = false := by decide
  have e9 : (s "dict" == s "xstr") = false := by decide
  have e10 : (s "dict" == s "grid") = false := by decide
  unfold finish
  simp only [e1, e2, e3, e4, e5, e6, e7, e8, e9, e10]
  simp

theorem kindStep_dict (last : Bool) (cont : List Char → Res Val) :
    kindStep (.str (s "dict")) last cont = cont (s "dict") := by
  simp [kindStep, s, knownKinds]

/-- **a dict object**: the tag members in any order, `"_kind":"dict"` present or absent -/
theorem read_dictObj {t : Tags} {tm km : Mems} {ms : Members}
    (hv : decView tm = okView t.toList) (hk : TagKeys t) (hkm : OptKindDict km)
    (hp : ms.toList.Perm (km ++ tm)) : fromJson (.obj ms) = .ok (.dict t) := by
  have hkeys := keys_of_decView hv
  have hnd := tagKeys_nodup hk
  have hnk : ∀ p ∈ tm, p.1 ≠ s "_kind" :=
    fun p hp' => hk.2 p.1 (by rw [← hkeys]; exact List.mem_map_of_mem hp')
  cases hkm with
  | absent =>
    rw [fromJson_obj_of_perm ms _ hp (by simpa [hkeys] using hnd)
      (noEarly_noKind _ (by simpa using hnk))
      (by simpa using decodes_of_decView hv)]
    simp only [List.nil_append, hv]
    rw [runR_tags t hk, finish_nil_kind, Tags.ofList_toList]
  | present =>
    rw [fromJson_obj_of_perm ms _ hp
      (by
        simp only [List.cons_append, List.nil_append, List.map_cons, hkeys, List.nodup_cons]
        exact ⟨fun h => hk.2 _ h rfl, hnd⟩)
      (noEarly_kindMems "dict" tm (by decide) hnk)
      (by
        intro p hp
        simp only [List.cons_append, List.nil_append, List.mem_cons] at hp
        rcases hp with e | hp
        · subst e; simp [kindMem, fromJson]
        · exact decodes_of_decView hv p hp)]
    rw [decView_append, hv]
    simp only [decView, kindMem, List.map_cons, List.map_nil, fromJson, List.cons_append, List.nil_append, runR,
      beq_self_eq_true, if_true]
    rw [kindStep_dict, runR_tags t hk, finish_dict_kind, Tags.ofList_toList]

/-- **a grid meta object**: the tag members in any order, `"_kind":"dict"` and `ver` present or absent;
it decodes to a dict from which `parse_grid` takes the version and the other tags -/
theorem read_metaObj {t : Tags} {ver : List Char} {tm km vm : Mems} {mm : Members}
    (hv : decView tm = okView t.toList) (hk : TagKeys t) (hnv : ∀ k ∈ t.keys, k ≠ s "ver")
    (hkm : OptKindDict km) (hvm : OptVer ver vm) (hp : mm.toList.Perm (km ++ vm ++ tm)) :
    ∃ m : Tags, fromJson (.obj mm) = .ok (.dict m) ∧
      (getStr m.toList "ver").getD (s "3.0") = ver ∧ removeTag m.toList "ver" = t.toList := by
  have hnv' : ∀ p ∈ t.toList, p.1 ≠ s "ver" := by
    intro p hp
    exact hnv p.1 (by rw [Tags.keys_eq]; exact List.mem_map_of_mem hp)
  cases hvm with
  | absent =>
    refine ⟨t, ?_, ?_, removeTag_of_not_mem _ _ hnv'⟩
    · exact read_dictObj hv hk hkm (by simpa using hp)
    · rw [getStr_none_of_not_mem _ _ hnv']; rfl
  | present =>
    have hkeys := keys_of_decView hv
    have hnd := tagKeys_nodup hk
    have hnk : ∀ p ∈ (s "ver", Json.str ver) :: tm, p.1 ≠ s "_kind" := by
      intro p hp'
      rcases List.mem_cons.mp hp' with e | hp'
      · subst e; simp [s]
      · exact hk.2 p.1 (by rw [← hkeys]; exact List.mem_map_of_mem hp')
    have hfold : ∀ kind, runR (okView ((s "ver", Val.str ver) :: t.toList)) kind []
        = finish kind (insertTag (s "ver") (.str ver) t.toList) := by
      intro kind
      rw [runR_noKind _ kind []
        (by
          intro p hp
          rcases List.mem_cons.mp hp with e | hp
          · subst e; simp [s]
          · exact tagKeys_noKind hk p hp)]
      simp only [List.foldl_cons]
      rw [foldl_insertTag_comm _ _ _ _ hnv', foldl_insertTag_sorted _ [] (tagKeys_pairwise hk)]
      simp
    refine ⟨Tags.ofList (insertTag (s "ver") (.str ver) t.toList), ?_, ?_, ?_⟩
    · cases hkm with
      | absent =>
        rw [fromJson_obj_of_perm mm _ hp
          (by
            simp only [List.cons_append, List.nil_append, List.map_cons, hkeys, List.nodup_cons]
            exact ⟨fun h => hnv _ h rfl, hnd⟩)
          (noEarly_noKind _ hnk)
          (by
            intro p hp
            simp only [List.cons_append, List.nil_append, List.mem_cons] at hp
            rcases hp with e | hp
            · subst e; simp [fromJson]
            · exact decodes_of_decView hv p hp)]
        have : decView ([] ++ [(s "ver", Json.str ver)] ++ tm) = okView ((s "ver", Val.str ver) :: t.toList) := by
          rw [decView_append, decView_append, hv]
          simp [decView, okView, fromJson]
        rw [this, hfold, finish_nil_kind]
      | present =>
        rw [fromJson_obj_of_perm mm _ hp
          (by
            simp only [List.cons_append, List.nil_append, List.map_cons, hkeys, List.nodup_cons, List.mem_cons,
              not_or]
            exact ⟨⟨by simp [kindMem, s], fun h => hk.2 _ h rfl⟩, fun h => hnv _ h rfl, hnd⟩)
          (noEarly_kindMems "dict" _ (by decide) hnk)
          (by
            intro p hp
            simp only [List.cons_append, List.nil_append, List.mem_cons] at hp
            rcases hp with e | e | hp
            · subst e; simp [kindMem, fromJson]
            · subst e; simp [fromJson]
            · exact decodes_of_decView hv p hp)]
        have : decView ([kindMem "dict"] ++ [(s "ver", Json.str ver)] ++ tm)
            = (s "_kind", .ok (.str (s "dict"))) :: okView ((s "ver", Val.str ver) :: t.toList) := by
          rw [decView_append, decView_append, hv]
          simp [decView, okView, fromJson, kindMem]
        rw [this]
        simp only [runR, beq_self_eq_true, if_true]
        rw [kindStep_dict, hfold, finish_dict_kind]
    · rw [Tags.toList_ofList]
      simp [getStr, getTag_insertTag]
    · rw [Tags.toList_ofList]
      exact removeTag_insertTag "ver" _ _ hnv'

/-! ### column objects -/

theorem read_colNoMeta {n : List Char} {cm : Members} (hp : cm.toList.Perm [(s "name", .str n)]) :
    fromJson (.obj cm) = .ok (colVal (n, .none)) := by
  rw [fromJson_obj_of_perm cm _ hp (by simp) (noEarly_noKind _ (by simp [s]))
    (by intro p hp; simp at hp; subst hp; simp [fromJson])]
  simp [decView, fromJson, runR, s, insertTag, finish, colVal, Tags.ofList]

theorem read_colMeta {n : List Char} {t : Tags} {mm cm : Members} (hm : fromJson (.obj mm) = .ok (.dict t))
    (hp : cm.toList.Perm [(s "name", .str n), (s "meta", .obj mm)]) :
    fromJson (.obj cm) = .ok (colVal (n, .some t)) := by
  rw [fromJson_obj_of_perm cm _ hp (by simp [s]) (noEarly_noKind _ (by simp [s]))
    (by
      intro p hp
      simp at hp
      rcases hp with e | e
      · subst e; simp [fromJson]
      · subst e; exact ⟨_, hm⟩)]
  simp only [decView, List.map_cons, List.map_nil, hm]
  simp [fromJson, runR, s, insertTag, leChars, finish, colVal, Tags.ofList]

/-! ### the grid object -/

theorem finish_grid_meta (m : Tags) (cs : List (List Char × OTags)) (rs : List Tags) :
    finish (s "grid")
      [(s "cols", .list (Vals.ofList (cs.map colVal))), (s "meta", .dict m),
       (s "rows", .list (Vals.ofList (rs.map Val.dict)))]
      = .ok (.grid (.some (Tags.ofList (removeTag m.toList "ver"))) (Cols.ofList cs) (Rows.ofList rs)
          ((getStr m.toList "ver").getD (s "3.0"))) := by
  have e1 : (s "grid" == s "number") = false := by decide
  have e2 : (s "grid" == s "ref") = false := by decide
  have e3 : (s "grid" == s "symbol") = false := by decide
  have e4 : (s "grid" == s "uri") = false := by decide
  have e5 : (s "grid" == s "date") = false := by decide
  have e6 : (s "grid" == s "time") = false := by decide
  have e7 : (s "grid" == s "dateTime") = false := by decide
  have e8 : (s "grid" == s "coord") = false := by decide
  have e9 : (s "grid" == s "xstr") = false := by decide
  have g1 : getTag [(s "cols", Val.list (Vals.ofList (cs.map colVal))), (s "meta", .dict m),
       (s "rows", .list (Vals.ofList (rs.map Val.dict)))] "rows" = some (.list (Vals.ofList (rs.map Val.dict))) := by
    simp [getTag, s]
  have g2 : getTag [(s "cols", Val.list (Vals.ofList (cs.map colVal))), (s "meta", .dict m),
       (s "rows", .list (Vals.ofList (rs.map Val.dict)))] "cols" = some (.list (Vals.ofList (cs.map colVal))) := by
    simp [getTag, s]
  have g3 : getTag [(s "cols", Val.list (Vals.ofList (cs.map colVal))), (s "meta", .dict m),
       (s "rows", .list (Vals.ofList (rs.map Val.dict)))] "meta" = some (.dict m) := by
    simp [getTag, s]
  unfold finish
  simp only [e1, e2, e3, e4, e5, e6, e7, e8, e9, g1, g2, g3, Vals.toList_ofList,
    mapM_colOf, valsOfDicts_map]
  simp

theorem finish_grid_nometa (cs : List (List Char × OTags)) (rs : List Tags) :
    finish (s "grid")
      [(s "cols", .list (Vals.ofList (cs.map colVal))), (s "rows", .list (Vals.ofList (rs.map Val.dict)))]
      = .ok (.grid .none (Cols.ofList cs) (Rows.ofList rs) (s "3.0")) := by
  have e1 : (s "grid" == s "number") = false := by decide
  have e2 : (s "grid" == s "ref") = false := by decide
  have e3 : (s "grid" == s "symbol") = false := by decide
  have e4 : (s "grid" == s "uri") = false := by decide
  have e5 : (s "grid" == s "date") = false := by decide
  have e6 : (s "grid" == s "time") = false := by decide
  have e7 : (s "grid" == s "dateTime") = false := by decide
  have e8 : (s "grid" == s "coord") = false := by decide
  have e9 : (s "grid" == s "xstr") = false := by decide
  have g1 : getTag [(s "cols", Val.list (Vals.ofList (cs.map colVal))),
       (s "rows", .list (Vals.ofList (rs.map Val.dict)))] "rows" = some (.list (Vals.ofList (rs.map Val.dict))) := by
    simp [getTag, s]
  have g2 : getTag [(s "cols", Val.list (Vals.ofList (cs.map colVal))),
       (s "rows", .list (Vals.ofList (rs.map Val.dict)))] "cols" = some (.list (Vals.ofList (cs.map colVal))) := by
    simp [getTag, s]
  have g3 : getTag [(s "cols", Val.list (Vals.ofList (cs.map colVal))),
       (s "rows", .list (Vals.ofList (rs.map Val.dict)))] "meta" = none := by
    simp [getTag, s]
  unfold finish
  simp only [e1, e2, e3, e4, e5, e6, e7, e8, e9, g1, g2, g3, Vals.toList_ofList,
    mapM_colOf, valsOfDicts_map]
  simp

/-- the grid object with a `meta` member, members in any order -/
theorem read_gridMeta {ms mm : Members} {cjs rjs : Jsons} {m : Tags} {cs : List (List Char × OTags)}
    {rs : List Tags} (hm : fromJson (.obj mm) = .ok (.dict m)) (hc : seq cjs = .ok (cs.map colVal))
    (hr : seq rjs = .ok (rs.map Val.dict))
    (hp : ms.toList.Perm [kindMem "grid", (s "meta", .obj mm), (s "cols", .arr cjs), (s "rows", .arr rjs)]) :
    fromJson (.obj ms) = .ok (.grid (.some (Tags.ofList (removeTag m.toList "ver"))) (Cols.ofList cs)
      (Rows.ofList rs) ((getStr m.toList "ver").getD (s "3.0"))) := by
  have hc' := fromJson_arr _ _ hc
  have hr' := fromJson_arr _ _ hr
  rw [fromJson_obj_of_perm ms _ hp (by simp [kindMem, s])
    (noEarly_kindMems "grid" _ (by decide) (by simp [s]))
    (by
      intro p hp
      simp at hp
      rcases hp with e | e | e | e
      · subst e; simp [kindMem, fromJson]
      · subst e; exact ⟨_, hm⟩
      · subst e; exact ⟨_, hc'⟩
      · subst e; exact ⟨_, hr'⟩)]
  simp only [decView, kindMem, List.map_cons, List.map_nil, hm, hc', hr']
  rw [← finish_grid_meta]
  simp [fromJson, runR, kindStep, knownKinds, s, insertTag, leChars]

/-- the grid object without a `meta` member, members in any order -/
theorem read_gridNoMeta {ms : Members} {cjs rjs : Jsons} {cs : List (List Char × OTags)}
    {rs : List Tags} (hc : seq cjs = .ok (cs.map colVal)) (hr : seq rjs = .ok (rs.map Val.dict))
    (hp : ms.toList.Perm [kindMem "grid", (s "cols", .arr cjs), (s "rows", .arr rjs)]) :
    fromJson (.obj ms) = .ok (.grid .none (Cols.ofList cs) (Rows.ofList rs) (s "3.0")) := by
  have hc' := fromJson_arr _ _ hc
  have hr' := fromJson_arr _ _ hr
  rw [fromJson_obj_of_perm ms _ hp (by simp [kindMem, s])
    (noEarly_kindMems "grid" _ (by decide) (by simp [s]))
    (by
      intro p hp
      simp at hp
      rcases hp with e | e | e
      · subst e; simp [kindMem, fromJson]
      · subst e; exact ⟨_, hc'⟩
      · subst e; exact ⟨_, hr'⟩)]
  simp only [decView, kindMem, List.map_cons, List.map_nil, hc', hr']
  rw [← finish_grid_nometa]
  simp [fromJson, runR, kindStep, knownKinds, s, insertTag, leChars]

end Hs.Spec.Hayson
