/-
  C11 (lazy rows), part 3: `parse_grid_iterator` on the text the writer prints for a top-level grid: the header
  (`gridHeader`), then the row iterator driven call by call (`Hands`), with the position of the scanner at the
  moment each row is handed out.
-/
import Hs.Lemmas.ZincLazyRow
namespace Hs.Zinc
open Hs Hs.Scan

/-- the text of a top-level grid in front of its first row line: `ver:"3.0"`, meta, newline, column line, newline -/
def headerBytes (md : OTags) (cols : Cols) : List UInt8 :=
  verBytes ++ (metaPart md ++ 10 :: (encCols cols ++ [10]))

theorem encode_grid_split (md : OTags) (n : List Char) (cm : OTags) (c : Cols) (rows : Rows) (ver : List Char) :
    encode (.grid md (.cons n cm c) rows ver) =
      headerBytes md (.cons n cm c) ++
        (encRows rows (Cols.names (.cons n cm c)) (Cols.length (.cons n cm c) == 1) ++ [10]) := by
  unfold encode
  rw [enc_grid_top]
  simp [gridBody, headerBytes, tailR]

theorem headerBytes_length (md : OTags) (n : List Char) (cm : OTags) (c : Cols) :
    (headerBytes md (.cons n cm c)).length = 10 + (metaPart md).length + colsLen (.cons n cm c) := by
  have := encCols_length n cm c
  simp only [headerBytes, verBytes, List.length_cons, List.length_append, List.length_nil]
  omega

/-- the iterator state `gridHeader` returns and the calls of `rowNext` that follow -/
theorem lazy_top (md : OTags) (n : List Char) (cm : OTags) (c : Cols) (rows : Rows) (ver : List Char)
    (hok : GridOk md (.cons n cm c) rows ver) (hgr : GoodR rows) (D F : Nat)
    (hd : D + nestV (.grid md (.cons n cm c) rows ver) ≤ 64)
    (hF : 4 * (encode (.grid md (.cons n cm c) rows ver)).length + 44 ≤ F) :
    ∃ p0 r0, lexRead F (Scan.make (encode (.grid md (.cons n cm c) rows ver))) = .ok p0 ∧
      gridHeader F D p0 = .ok ((lexImgO md, (lexImgC (.cons n cm c)).toList, ver), r0) ∧
      Hands F D (Cols.names (.cons n cm c)) r0
        (rowTrace (Cols.names (.cons n cm c)) (Cols.length (.cons n cm c) == 1) rows) ∧
      ∃ r', rowsLoop F D r0 (Cols.names (.cons n cm c)) [] = .ok ((lexImgR rows).toList, r') := by
  have hsplit := encode_grid_split md n cm c rows ver
  have hlenH := headerBytes_length md n cm c
  have hlen : (encode (.grid md (.cons n cm c) rows ver)).length =
      11 + (metaPart md).length + colsLen (.cons n cm c)
        + (encRows rows (Cols.names (.cons n cm c)) (Cols.length (.cons n cm c) == 1)).length := by
    rw [hsplit]; simp only [List.length_append, hlenH, List.length_cons, List.length_nil]; omega
  rw [hlen] at hF
  simp only [nestV] at hd
  have hat : At (Scan.make (encode (.grid md (.cons n cm c) rows ver))) (encode (.grid md (.cons n cm c) rows ver)) :=
    At_make_all' _
  have hs : (Scan.make (encode (.grid md (.cons n cm c) rows ver))).stash = [] := by
    rw [hsplit]; simp [headerBytes, verBytes, Scan.make]
  generalize Scan.make (encode (.grid md (.cons n cm c) rows ver)) = s at hat hs ⊢
  rw [hsplit] at hat
  simp only [headerBytes, verBytes, List.cons_append, List.nil_append, List.append_assoc] at hat
  obtain ⟨g, rfl⟩ : ∃ g, F = g + 1 := ⟨F - 1, by omega⟩
  obtain ⟨e0, h0⟩ := lexRead_id ['v', 'e', 'r'] isIdent_ver s _ (g + 1)
    (by rw [encChars_ver]; exact hat) (Stop_cons (by decide)) (by simp; omega)
  simp only [List.length_cons, List.length_nil] at e0 h0
  obtain ⟨sQ, p3, p4, p5, mkvs, e1, e2, e3, e4, ht4, hmd, e5, ht5, h5, hs5⟩ := header_chain md hok.okMeta n cm c hok.okCols
    D g (advN 3 s) _ h0 (advN_stash_nil _ _ hs) (by omega) (by omega)
  have hne : Cols.names (.cons n cm c) ≠ [] := by simp [Cols.names]
  have i4 : PS.isChar p4 10 = true := by unfold PS.isChar; rw [ht4]; rfl
  have i5 : PS.isChar p5 10 = true := by unfold PS.isChar; rw [ht5]; rfl
  have c0 : PS.isChar { sc := advN 3 s, tok := .id ['v', 'e', 'r'] } 60 = false := rfl
  have c4 : ∀ sc : Scan, PS.isChar { sc := sc, tok := .ch 58 } 58 = true := fun _ => rfl
  -- the first token after the column line, and the iterator from there
  have hrows : ∃ p6, lexRead g p5.sc = .ok p6 ∧
      Hands (g + 1) D (Cols.names (.cons n cm c)) { p := p6, nestedStart := false, nestedEnd := false }
        (rowTrace (Cols.names (.cons n cm c)) (Cols.length (.cons n cm c) == 1) rows) := by
    cases rows with
    | cons r rs =>
      exact hands_rows (Cols.names (.cons n cm c)) (Cols.length (.cons n cm c) == 1) hne (cols_single n cm c)
        hok.okNodup D (g + 1) r rs hok.okRows hgr (by omega) (by omega) g p5.sc h5 hs5 (by omega)
    | nil =>
      simp only [encRows, List.nil_append] at h5
      obtain ⟨g', rfl⟩ : ∃ g', g = g' + 1 := ⟨g - 1, by omega⟩
      refine ⟨{ sc := p5.sc.advance, tok := .ch 10 }, lexRead_special h5 (by decide) (by decide) _, ?_⟩
      refine ⟨{ p := { sc := p5.sc.advance, tok := .ch 10 }, nestedStart := false, nestedEnd := false }, ?_⟩
      rw [rowNext]
      simp [PS.isEof, h5.advance.eof_nil]
  obtain ⟨p6, e6, hh⟩ := hrows
  obtain ⟨p6', r', e6', e7, _, _⟩ := rows_all (Cols.names (.cons n cm c)) (Cols.length (.cons n cm c) == 1) false []
    hne (cols_single n cm c) hok.okNodup D rows hok.okRows (by omega) g p5.sc h5 hs5 (by omega)
  have hp6 : p6' = p6 := by rw [e6] at e6'; cases e6'; rfl
  subst hp6
  refine ⟨_, { p := p6', nestedStart := false, nestedEnd := false }, e0, ?_, hh, r', e7⟩
  rw [gridHeader]
  simp only [c0, Bool.false_eq_true, if_false, PS.read]
  simp only [e1, e2, e3, e4, i4, e5, i5, e6, hmd, c4]
  simp [hok.okVer]

end Hs.Zinc
