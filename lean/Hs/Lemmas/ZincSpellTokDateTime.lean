/-
  C04 read direction: timestamps before any legal continuation (`DelimW`).
-/
import Hs.Lemmas.ZincSpellTokZone
import Hs.Lemmas.ZincSpellTokIds
namespace Hs.Zinc
open Hs Hs.Scan Hs.Spell

/-- timestamp without a fraction -/
theorem ndt_datetimeW (y0 y1 y2 y3 m0 m1 d0 d1 h0 h1 i0 i1 s0 s1 : UInt8)
    (hy0 : isDigitB y0 = true) (hy1 : isDigitB y1 = true) (hy2 : isDigitB y2 = true) (hy3 : isDigitB y3 = true)
    (hm0 : isDigitB m0 = true) (hm1 : isDigitB m1 = true) (hd0 : isDigitB d0 = true) (hd1 : isDigitB d1 = true)
    (hh0 : isDigitB h0 = true) (hh1 : isDigitB h1 = true) (hi0 : isDigitB i0 = true) (hi1 : isDigitB i1 = true)
    (hs0 : isDigitB s0 = true) (hs1 : isDigitB s1 = true)
    (hmk : (mkDate [y0, y1, y2, y3, 45, m0, m1, 45, d0, d1]).isSome = true)
    (hmt : (mkTime [h0, h1, 58, i0, i1, 58, s0, s1] Option.none).isSome = true)
    (z : List UInt8) (hz : zoneOk z = true) (rest : List UInt8) (hd : DelimW rest)
    (lp : UInt8) (pos fuel : Nat) (hf : z.length < fuel) :
    ∃ s', parseNumberDateTime fuel (Scan.at y0 (y1 :: y2 :: y3 :: 45 :: m0 :: m1 :: 45 :: d0 :: d1 :: 84 :: h0 :: h1
        :: 58 :: i0 :: i1 :: 58 :: s0 :: s1 :: (z ++ rest)) lp pos)
      = .ok (dtVal (asciiChars (y0 :: y1 :: y2 :: y3 :: 45 :: m0 :: m1 :: 45 :: d0 :: d1 :: 84 :: h0 :: h1 :: 58 :: i0
            :: i1 :: 58 :: s0 :: s1 :: z)), s') ∧ Post s' rest := by
  obtain ⟨d, hd'⟩ := Option.isSome_iff_exists.mp hmk
  obtain ⟨t, ht'⟩ := Option.isSome_iff_exists.mp hmt
  obtain ⟨z0, zr, rfl⟩ : ∃ z0 zr, z = z0 :: zr := by
    cases z with
    | nil => simp [zoneOk] at hz
    | cons a b => exact ⟨a, b, rfl⟩
  have hat : At (Scan.at z0 (zr ++ rest) 84
      (pos + 1 + 1 + 1 + 1 + 1 + 1 + 1 + 1 + 1 + 1 + 1 + 1 + 1 + 1 + 1 + 1 + 1 + 1 + 1)) ((z0 :: zr) ++ rest) := At_at ..
  obtain ⟨s', e, hp, hzc, z0', zr', hzz, hz0, hz046⟩ := parseTimeZone_anyW (z0 :: zr) hz _ rest fuel hat rfl hd hf
  cases hzz
  refine ⟨s', ?_, hp⟩
  simp only [Scan.at] at e
  unfold parseNumberDateTime
  simp only [Scan.at, digit_ne_minus hy0, Bool.false_eq_true, if_false, List.cons_append]
  rcases hzc with hnone | ⟨name, hsome, hres⟩
  · simp [ndtPeeks, Scan.peek, Scan.readByte, hy0, hy1, hy2, hy3, isPartialDate, hm0, hm1, hd0, hd1, hz046,
      parseDateTime, parseDateRaw, parseTimeRaw, takeDigits, Scan.advance, Scan.read, hd', ht', hh0, hh1, hi0, hi1,
      hs0, hs1, e, hnone, dtVal]
  · simp [ndtPeeks, Scan.peek, Scan.readByte, hy0, hy1, hy2, hy3, isPartialDate, hm0, hm1, hd0, hd1, hz046,
      parseDateTime, parseDateRaw, parseTimeRaw, takeDigits, Scan.advance, Scan.read, hd', ht', hh0, hh1, hi0, hi1,
      hs0, hs1, e, hsome, hres, dtVal]


/-- timestamp with a fraction -/
theorem ndt_datetime_fracW (y0 y1 y2 y3 m0 m1 d0 d1 h0 h1 i0 i1 s0 s1 : UInt8)
    (hy0 : isDigitB y0 = true) (hy1 : isDigitB y1 = true) (hy2 : isDigitB y2 = true) (hy3 : isDigitB y3 = true)
    (hm0 : isDigitB m0 = true) (hm1 : isDigitB m1 = true) (hd0 : isDigitB d0 = true) (hd1 : isDigitB d1 = true)
    (hh0 : isDigitB h0 = true) (hh1 : isDigitB h1 = true) (hi0 : isDigitB i0 = true) (hi1 : isDigitB i1 = true)
    (hs0 : isDigitB s0 = true) (hs1 : isDigitB s1 = true)
    (f0 : UInt8) (fr : List UInt8) (hfr : ∀ b ∈ f0 :: fr, isDigitB b = true)
    (hmk : (mkDate [y0, y1, y2, y3, 45, m0, m1, 45, d0, d1]).isSome = true)
    (hmt : (mkTime [h0, h1, 58, i0, i1, 58, s0, s1] (some (f0 :: fr))).isSome = true)
    (z : List UInt8) (hz : zoneOk z = true) (rest : List UInt8) (hd : DelimW rest)
    (lp : UInt8) (pos fuel : Nat) (hf : fr.length + 1 + z.length < fuel) :
    ∃ s', parseNumberDateTime fuel (Scan.at y0 (y1 :: y2 :: y3 :: 45 :: m0 :: m1 :: 45 :: d0 :: d1 :: 84 :: h0 :: h1
        :: 58 :: i0 :: i1 :: 58 :: s0 :: s1 :: 46 :: f0 :: (fr ++ (z ++ rest))) lp pos)
      = .ok (dtVal (asciiChars (y0 :: y1 :: y2 :: y3 :: 45 :: m0 :: m1 :: 45 :: d0 :: d1 :: 84 :: h0 :: h1 :: 58 :: i0
            :: i1 :: 58 :: s0 :: s1 :: 46 :: f0 :: (fr ++ z))), s') ∧ Post s' rest := by
  obtain ⟨d, hd'⟩ := Option.isSome_iff_exists.mp hmk
  obtain ⟨t, ht'⟩ := Option.isSome_iff_exists.mp hmt
  have hat : At (Scan.at f0 (fr ++ (z ++ rest)) 84
      (pos + 1 + 1 + 1 + 1 + 1 + 1 + 1 + 1 + 1 + 1 + 1 + 1 + 1 + 1 + 1 + 1 + 1 + 1 + 1 + 1))
      ((f0 :: fr) ++ (z ++ rest)) := At_at ..
  have hstz : ∃ z0 zr, z = z0 :: zr ∧ isDigitB z0 = false := by
    obtain ⟨_, _, _, _, z0, zr, e, h0', _⟩ := parseTimeZone_anyW z hz (Scan.make (z ++ rest)) rest (z.length + 1)
      (At_make_all'' _) (by cases hx : z ++ rest <;> simp [Scan.make]) hd (by omega)
    exact ⟨z0, zr, e, h0'⟩
  have hstop : Stop isDigitB (z ++ rest) := by
    obtain ⟨z0, zr, rfl, h0'⟩ := hstz
    exact Stop_cons h0'
  have efr := fracLoop_rt (f0 :: fr) hfr _ (z ++ rest) fuel [] hat hstop (by simp; omega)
  have hat2 : At (advN (f0 :: fr).length (Scan.at f0 (fr ++ (z ++ rest)) 84
      (pos + 1 + 1 + 1 + 1 + 1 + 1 + 1 + 1 + 1 + 1 + 1 + 1 + 1 + 1 + 1 + 1 + 1 + 1 + 1 + 1))) (z ++ rest) := hat.advN
  obtain ⟨s', e, hp, hzc, _⟩ := parseTimeZone_anyW z hz _ rest fuel hat2 (advN_stash_nil _ _ rfl) hd (by omega)
  refine ⟨s', ?_, hp⟩
  simp only [Scan.at, List.nil_append, List.length_cons] at efr e
  unfold parseNumberDateTime
  simp only [Scan.at, digit_ne_minus hy0, Bool.false_eq_true, if_false, List.cons_append]
  rcases hzc with hnone | ⟨name, hsome, hres⟩
  · simp [ndtPeeks, Scan.peek, Scan.readByte, hy0, hy1, hy2, hy3, isPartialDate, hm0, hm1, hd0, hd1,
      parseDateTime, parseDateRaw, parseTimeRaw, takeDigits, Scan.advance, Scan.read, Scan.readQ, hd', ht', hh0, hh1,
      hi0, hi1, hs0, hs1, efr, e, hnone, dtVal]
  · simp [ndtPeeks, Scan.peek, Scan.readByte, hy0, hy1, hy2, hy3, isPartialDate, hm0, hm1, hd0, hd1,
      parseDateTime, parseDateRaw, parseTimeRaw, takeDigits, Scan.advance, Scan.read, Scan.readQ, hd', ht', hh0, hh1,
      hi0, hi1, hs0, hs1, efr, e, hsome, hres, dtVal]


theorem lexRead_datetimeW (w : List UInt8) (hok : dtBytesOk w = true) (s : Scan) (rest : List UInt8) (fuel : Nat)
    (h : At s (w ++ rest)) (hs : s.stash = []) (hd : DelimW rest) (hf : w.length + 2 ≤ fuel) :
    ∃ s', lexRead fuel s = .ok { sc := s', tok := .val (dtVal (asciiChars w)) } ∧ Post s' rest := by
  obtain ⟨f, rfl⟩ : ∃ f, fuel = f + 1 := ⟨fuel - 1, by omega⟩
  unfold dtBytesOk at hok
  split at hok
  · rename_i y0 y1 y2 y3 m0 m1 d0 d1 h0 h1 i0 i1 s0 s1 tl
    simp only [Bool.and_eq_true] at hok
    obtain ⟨⟨⟨⟨⟨⟨⟨⟨⟨⟨⟨⟨⟨⟨⟨hy0, hy1⟩, hy2⟩, hy3⟩, hm0⟩, hm1⟩, hd0⟩, hd1⟩, hh0⟩, hh1⟩, hi0⟩, hi1⟩, hs0⟩, hs1⟩, hmk⟩, htl⟩ := hok
    simp only [List.cons_append] at h
    have hseq := eq_at_of_At h hs
    rw [pk_zero] at hseq
    rw [lexRead_ndt h (by simp [hy0])]
    simp only [List.length_cons] at hf
    split at htl
    · rename_i f0 more
      simp only [Bool.and_eq_true] at htl
      obtain ⟨⟨hf0, hmt⟩, hz⟩ := htl
      have hsplit : more = more.takeWhile isDigitB ++ more.dropWhile isDigitB := (List.takeWhile_append_dropWhile).symm
      have hfr : ∀ b ∈ f0 :: more.takeWhile isDigitB, isDigitB b = true := by
        intro b hb
        simp only [List.mem_cons] at hb
        rcases hb with rfl | hb
        · exact hf0
        · have := List.all_takeWhile (p := isDigitB) (l := more)
          rw [List.all_eq_true] at this
          exact this b hb
      have hlen : (more.takeWhile isDigitB).length + (more.dropWhile isDigitB).length = more.length := by
        have := congrArg List.length hsplit
        simp only [List.length_append] at this
        omega
      simp only [List.length_cons] at hf
      obtain ⟨s', e, hp⟩ := ndt_datetime_fracW y0 y1 y2 y3 m0 m1 d0 d1 h0 h1 i0 i1 s0 s1 hy0 hy1 hy2 hy3 hm0 hm1 hd0 hd1
        hh0 hh1 hi0 hi1 hs0 hs1 f0 (more.takeWhile isDigitB) hfr hmk hmt (more.dropWhile isDigitB) hz rest hd
        s.lastPeek s.pos f (by omega)
      refine ⟨s', ?_, hp⟩
      rw [hseq]
      have e1 : (46 :: f0 :: more ++ rest) = 46 :: f0 :: (more.takeWhile isDigitB ++ (more.dropWhile isDigitB ++ rest)) := by
        rw [← List.append_assoc, ← hsplit]; rfl
      have e2 : 46 :: f0 :: (more.takeWhile isDigitB ++ more.dropWhile isDigitB) = 46 :: f0 :: more := by
        rw [← hsplit]
      rw [e1, e, e2]
    · simp only [Bool.and_eq_true] at htl
      obtain ⟨s', e, hp⟩ := ndt_datetimeW y0 y1 y2 y3 m0 m1 d0 d1 h0 h1 i0 i1 s0 s1 hy0 hy1 hy2 hy3 hm0 hm1 hd0 hd1
        hh0 hh1 hi0 hi1 hs0 hs1 hmk htl.1 tl htl.2 rest hd s.lastPeek s.pos f (by omega)
      refine ⟨s', ?_, hp⟩
      rw [hseq, e]
  · simp at hok



theorem tokW_datetime (t : DateTime) (h : dtOk t = true) : TokW (encDateTime t) (lexImg (.dateTime t)) := by
  simp only [dtOk, Bool.and_eq_true] at h
  intro s rest fuel hat hs hd hf
  have henc : encDateTime t = (dtText t).map byteOf := by
    rw [encDateTime_eq, encChars_all_ascii h.1]
  rw [henc] at hat hf
  obtain ⟨s', e, hp⟩ := lexRead_datetimeW _ h.2 s rest fuel hat hs hd (by omega)
  refine ⟨s', ?_, hp⟩
  rw [e, asciiChars_map_byteOf (all_ascii_mem h.1)]
  simp [lexImg, dtVal, dtText]

theorem firstW_datetime (t : DateTime) (h : dtOk t = true) : FirstW (encDateTime t) := by
  simp only [dtOk, Bool.and_eq_true] at h
  obtain ⟨hasc, hm⟩ := h
  rw [encDateTime_eq, encChars_all_ascii hasc]
  unfold dtBytesOk at hm
  split at hm
  · rename_i y0 _ _ _ _ _ _ _ _ _ _ _ _ _ _ heq
    rw [heq]
    simp only [Bool.and_eq_true] at hm
    exact firstW_of_digit _ _ hm.1.1.1.1.1.1.1.1.1.1.1.1.1.1.1
  · simp at hm

end Hs.Zinc
