/-
  C04 read direction: the token statement (`TokW`) for every legal spelling of a Time before any legal
  continuation (`DelimW`).
-/
import Hs.Lemmas.ZincSpellTimeInv
import Hs.Lemmas.ZincSpellTokIds
namespace Hs.Zinc
open Hs Hs.Scan Hs.Spell

theorem lexRead_timeW (t : Time) (bs : List UInt8) (hinv : TimeInv t bs) (s : Scan) (rest : List UInt8) (fuel : Nat)
    (h : At s (bs ++ rest)) (hs : s.stash = []) (hd : DelimW rest) (hf : bs.length + 2 ≤ fuel) :
    ∃ s', lexRead fuel s = .ok { sc := s', tok := .val (.time t) } ∧ At s' rest ∧ s'.stash = [] := by
  obtain ⟨f, rfl⟩ : ∃ f, fuel = f + 1 := ⟨fuel - 1, by omega⟩
  obtain ⟨h0, h1, m0, m1, s0, s1, tl, rfl, hh0, hh1, hm0, hm1, hs0, hs1, htl⟩ := hinv
  simp only [List.cons_append] at h
  have hseq := eq_at_of_At h hs
  rw [pk_zero] at hseq
  rw [lexRead_ndt h (by simp [hh0])]
  rcases htl with ⟨rfl, hmk⟩ | ⟨f0, fr, rfl, hdig, hmk⟩
  · -- no fraction
    simp only [List.nil_append] at hseq
    cases rest with
    | nil =>
      obtain ⟨s', e, h', hs'⟩ := ndt_time_eof h0 h1 m0 m1 s0 s1 hh0 hh1 hm0 hm1 hs0 hs1 t hmk s.lastPeek s.pos f
      exact ⟨s', by rw [hseq, e], h', hs'⟩
    | cons x r =>
      obtain ⟨s', e, h', hs'⟩ := ndt_time h0 h1 m0 m1 s0 s1 hh0 hh1 hm0 hm1 hs0 hs1 t hmk x r
        (fun e => hd.head_ne 46 (by decide) r (by rw [e])) s.lastPeek s.pos f
      exact ⟨s', by rw [hseq, e], h', hs'⟩
  · simp only [List.cons_append] at hseq
    simp only [List.length_cons] at hf
    obtain ⟨s', e, h', hs'⟩ := ndt_time_frac h0 h1 m0 m1 s0 s1 hh0 hh1 hm0 hm1 hs0 hs1 f0 fr hdig t hmk rest
      hd.stop_digit s.lastPeek s.pos f (by omega)
    exact ⟨s', by rw [hseq, e], h', hs'⟩

theorem tokW_time (t : Time) (h : timeOk t = true) (bs : List UInt8) (hsp : TimeSp t bs) : TokW bs (.time t) := by
  intro s rest fuel hat hs hd hf
  obtain ⟨s', e, h', hs'⟩ := lexRead_timeW t bs (timeInv_of_sp t h bs hsp) s rest fuel hat hs hd (by omega)
  exact ⟨s', e, Post.of_clean h' hs'⟩

theorem tokW_time_canon (t : Time) (h : timeOk t = true) : TokW (encChars t.txt) (.time t) :=
  tokW_time t h _ (.canon t)

theorem firstW_time (t : Time) (h : timeOk t = true) (bs : List UInt8) (hsp : TimeSp t bs) : FirstW bs := by
  obtain ⟨h0, h1, m0, m1, s0, s1, tl, rfl, hh0, _⟩ := timeInv_of_sp t h bs hsp
  exact firstW_of_digit _ _ hh0

end Hs.Zinc
