/-
  C04 read direction: `parseStr` / the lexer on EVERY legal spelling of a Str (`Hs.Spell.Quoted`): raw UTF-8,
  the short escapes, `\uXXXX` with upper- or lower-case hex digits.
-/
import Hs.Lemmas.ZincSpellBase
import Hs.Lemmas.ZincRtLex
import Hs.Lemmas.ZincRtTok
namespace Hs.Zinc
open Hs Hs.Scan Hs.Spell

/-! ### hex digits -/

theorem hexVal_hexLower (n : Nat) (h : n < 16) : isHexB (hexLower n) = true ∧ hexVal (hexLower n) = n := by
  have : ∀ n : Fin 16, isHexB (hexLower n.1) = true ∧ hexVal (hexLower n.1) = n.1 := by decide
  exact this ⟨n, h⟩

theorem hexVal_hexUpper (n : Nat) (h : n < 16) : isHexB (hexUpper n) = true ∧ hexVal (hexUpper n) = n := by
  have : ∀ n : Fin 16, isHexB (hexUpper n.1) = true ∧ hexVal (hexUpper n.1) = n.1 := by decide
  exact this ⟨n, h⟩

theorem hexOf_val {n : Nat} {b : UInt8} (h : HexOf n b) : isHexB b = true ∧ hexVal b = n := by
  obtain ⟨hn, rfl | rfl⟩ := h
  · exact hexVal_hexLower n hn
  · exact hexVal_hexUpper n hn

/-! ### `\uXXXX` -/

/-- `parse_str_unicode_escape` with the cursor on the `u` of any spelling of a BMP character -/
theorem parseUnicodeEscape_sp {c : Char} {d3 d2 d1 d0 : UInt8} {r : List UInt8} {s : Scan}
    (hc : c.toNat < 0x10000) (h3 : HexOf (c.toNat / 4096) d3) (h2 : HexOf (c.toNat / 256 % 16) d2)
    (h1 : HexOf (c.toNat / 16 % 16) d1) (h0 : HexOf (c.toNat % 16) d0)
    (h : At s (117 :: d3 :: d2 :: d1 :: d0 :: r)) :
    parseUnicodeEscape s = .ok (encChar c, s.advance.advance.advance.advance) := by
  have a1 := h.advance
  have a2 := a1.advance
  have a3 := a2.advance
  have a4 := a3.advance
  obtain ⟨x3, v3⟩ := hexOf_val h3
  obtain ⟨x2, v2⟩ := hexOf_val h2
  obtain ⟨x1, v1⟩ := hexOf_val h1
  obtain ⟨x0, v0⟩ := hexOf_val h0
  have hu : c.toNat / 4096 * 4096 + c.toNat / 256 % 16 * 256 + c.toNat / 16 % 16 * 16 + c.toNat % 16 = c.toNat := by
    omega
  unfold parseUnicodeEscape
  simp only [h.cur, h.readQ, a1.readQ, a2.readQ, a3.readQ, Scan.isHexDigit, a1.cur, a2.cur, a3.cur, a4.cur,
    x3, x2, x1, x0, v3, v2, v1, v0, hu]
  rcases char_bounds c with hb | hb
  · have : ¬ (0xD800 ≤ c.toNat) := by omega
    simp [this]
  · have : ¬ (c.toNat ≤ 0xDFFF) := by omega
    simp [this]

/-! ### one character of a Str -/

/-- a two-byte escape whose second byte is not `u` -/
theorem strLoop_esc2 {s : Scan} {c d : UInt8} {r : List UInt8} {x : UInt8} (h : At s (92 :: c :: d :: r))
    (hx : (c = 98 ∧ x = 8) ∨ (c = 102 ∧ x = 12) ∨ (c = 110 ∧ x = 10) ∨ (c = 114 ∧ x = 13) ∨ (c = 116 ∧ x = 9)
        ∨ (c = 34 ∧ x = 34) ∨ (c = 36 ∧ x = 36) ∨ (c = 92 ∧ x = 92))
    (fuel : Nat) (acc : List UInt8) :
    strLoop (fuel + 1) s acc = strLoop fuel s.advance.advance (acc ++ [x]) := by
  have h1 := h.advance
  rw [strLoop]
  simp only [h.cur, h.eof, parseStrEscape, h.readQ, h1.cur]
  rcases hx with ⟨rfl, rfl⟩ | ⟨rfl, rfl⟩ | ⟨rfl, rfl⟩ | ⟨rfl, rfl⟩ | ⟨rfl, rfl⟩ | ⟨rfl, rfl⟩ | ⟨rfl, rfl⟩
    | ⟨rfl, rfl⟩ <;> simp

/-- `\uXXXX` in a Str -/
theorem strLoop_uesc {c : Char} {bs : List UInt8} (hu : UEsc c bs) {s : Scan} {d : UInt8} {r : List UInt8}
    (h : At s (bs ++ d :: r)) (fuel : Nat) (acc : List UInt8) :
    strLoop (fuel + 1) s acc
      = strLoop fuel s.advance.advance.advance.advance.advance.advance (acc ++ encChar c) := by
  cases hu with
  | mk d3 d2 d1 d0 hc h3 h2 h1 h0 =>
    simp only [List.cons_append, List.nil_append] at h
    have a1 := h.advance
    have e := parseUnicodeEscape_sp hc h3 h2 h1 h0 a1
    rw [strLoop]
    simp only [h.cur, h.eof, parseStrEscape, h.readQ, a1.cur, e]
    simp

theorem uesc_length {c : Char} {bs : List UInt8} (h : UEsc c bs) : bs.length = 6 := by
  cases h; rfl

/-- the loop consumes any spelling of one character and appends the character's UTF-8 bytes;
`k` is the number of loop iterations this takes -/
theorem strLoop_ch (c : Char) (bs : List UInt8) (hc : StrCh c bs) (s : Scan) (d : UInt8) (r : List UInt8)
    (acc : List UInt8) (h : At s (bs ++ d :: r)) :
    ∃ k s', 1 ≤ k ∧ k ≤ bs.length ∧ At s' (d :: r) ∧ s.pos ≤ s'.pos ∧
      (s.stash = [] → s'.stash = []) ∧
      ∀ fuel, strLoop (fuel + k) s acc = strLoop fuel s' (acc ++ encChar c) := by
  have two : ∀ (x y : UInt8), bs = [92, x] → encChar c = [y] →
      ((x = 98 ∧ y = 8) ∨ (x = 102 ∧ y = 12) ∨ (x = 110 ∧ y = 10) ∨ (x = 114 ∧ y = 13) ∨ (x = 116 ∧ y = 9)
        ∨ (x = 34 ∧ y = 34) ∨ (x = 36 ∧ y = 36) ∨ (x = 92 ∧ y = 92)) →
      ∃ k s', 1 ≤ k ∧ k ≤ bs.length ∧ At s' (d :: r) ∧ s.pos ≤ s'.pos ∧
        (s.stash = [] → s'.stash = []) ∧
        ∀ fuel, strLoop (fuel + k) s acc = strLoop fuel s' (acc ++ encChar c) := by
    intro x y e ey hx
    rw [e] at h ⊢
    simp only [List.cons_append, List.nil_append] at h
    refine ⟨1, s.advance.advance, by simp, by simp, h.advance.advance,
      Nat.le_trans (At.advance_pos_le _) (At.advance_pos_le _), advN_stash_nil 2 s, ?_⟩
    intro fuel
    rw [strLoop_esc2 h hx, ey]
  cases hc with
  | raw _ h32 c1 c2 c3 =>
    have hb : ∀ b ∈ encChar c, b ≠ 34 ∧ b ≠ 92 := by
      intro b hb
      exact ⟨encChar_bytes_ne c 34 (by decide) (fun e => c1 (Char.toNat_inj.mp e)) b hb,
             encChar_bytes_ne c 92 (by decide) (fun e => c2 (Char.toNat_inj.mp e)) b hb⟩
    refine ⟨(encChar c).length, advN (encChar c).length s, encChar_length_pos c, Nat.le_refl _, h.advN,
      advN_pos_le _ _, advN_stash_nil _ s, ?_⟩
    intro fuel
    exact strLoop_plain_bytes (encChar c) hb s (d :: r) fuel acc h
  | b => exact two 98 8 rfl (by decide) (by simp)
  | f => exact two 102 12 rfl (by decide) (by simp)
  | n => exact two 110 10 rfl (by decide) (by simp)
  | r => exact two 114 13 rfl (by decide) (by simp)
  | t => exact two 116 9 rfl (by decide) (by simp)
  | quote => exact two 34 34 rfl (by decide) (by simp)
  | bslash => exact two 92 92 rfl (by decide) (by simp)
  | dollar => exact two 36 36 rfl (by decide) (by simp)
  | u _ _ hu =>
    have hl := uesc_length hu
    refine ⟨1, s.advance.advance.advance.advance.advance.advance, by simp, by omega, ?_, ?_,
      advN_stash_nil 6 s, ?_⟩
    · cases hu with
      | mk d3 d2 d1 d0 hc h3 h2 h1 h0 =>
        simp only [List.cons_append, List.nil_append] at h
        exact h.advance.advance.advance.advance.advance.advance
    · iterate 5 refine Nat.le_trans ?_ (At.advance_pos_le _)
      exact At.advance_pos_le _
    · intro fuel
      exact strLoop_uesc hu h fuel acc

/-! ### the whole body and `parseStr` -/

theorem strLoop_bodyS (cs : List Char) (body : List UInt8) (hb : StrBody cs body) :
    ∀ (s : Scan) (r : List UInt8) (fuel : Nat) (acc : List UInt8),
    At s (body ++ 34 :: r) → body.length < fuel →
    ∃ s', strLoop fuel s acc = .ok (acc ++ encChars cs, s') ∧ At s' (34 :: r) ∧ s.pos ≤ s'.pos
      ∧ (s.stash = [] → s'.stash = []) := by
  induction hb with
  | nil =>
    intro s r fuel acc h hf
    simp only [List.nil_append] at h
    obtain ⟨f, rfl⟩ : ∃ f, fuel = f + 1 := ⟨fuel - 1, by omega⟩
    exact ⟨s, by rw [strLoop_quote h]; simp, h, Nat.le_refl _, id⟩
  | cons c cs bs bs' hc _ ih =>
    intro s r fuel acc h hf
    simp only [List.append_assoc, List.length_append] at h hf
    obtain ⟨d, r', hd⟩ : ∃ d r', bs' ++ 34 :: r = d :: r' := by
      cases hx : bs' ++ 34 :: r with
      | nil => simp at hx
      | cons d r' => exact ⟨d, r', rfl⟩
    rw [hd] at h
    obtain ⟨k, s1, hk1, hk2, h1, hp1, hs1, e⟩ := strLoop_ch c bs hc s d r' acc h
    obtain ⟨f, rfl⟩ : ∃ f, fuel = f + k := ⟨fuel - k, by omega⟩
    rw [← hd] at h1
    obtain ⟨s2, e2, h2, hp2, hs2⟩ := ih s1 r f (acc ++ encChar c) h1 (by omega)
    refine ⟨s2, ?_, h2, Nat.le_trans hp1 hp2, fun hh => hs2 (hs1 hh)⟩
    rw [e, e2, encChars_cons]; simp

/-- `parseStr` reads every spelling of a string back, whatever follows the closing quote -/
theorem parseStr_sp (cs : List Char) (q : List UInt8) (hq : Quoted cs q) (s : Scan) (rest : List UInt8) (fuel : Nat)
    (h : At s (q ++ rest)) (hf : q.length ≤ fuel) :
    ∃ s', parseStr fuel s = .ok (cs, s') ∧ At s' rest ∧ (s.stash = [] → s'.stash = []) := by
  cases hq with
  | mk body hb =>
    simp only [List.cons_append, List.nil_append, List.append_assoc, List.length_cons,
      List.length_append, List.length_nil] at h hf
    have h0 := h.advance
    have hp0 : s.advance.pos = s.pos + 1 := by
      cases hx : body ++ 34 :: rest with
      | nil => simp at hx
      | cons d r' => rw [hx] at h; exact h.advance_pos
    obtain ⟨s1, e1, h1, hp1, hs1⟩ := strLoop_bodyS cs body hb s.advance rest fuel [] h0 (by omega)
    refine ⟨s1.advance, ?_, h1.advance, fun hh => ?_⟩
    · unfold parseStr
      simp only [h.cur, e1]
      have : (s.pos == s1.pos) = false := by simp; omega
      simp [this, lossy_encChars]
    · have := hs1 (by rw [At.advance_stash, hh]; rfl)
      rw [At.advance_stash, this]; rfl

/-- the first byte of a quoted text is `"` -/
theorem quoted_shape {cs : List Char} {q : List UInt8} (hq : Quoted cs q) : ∃ t, q = 34 :: t := by
  cases hq with
  | mk body hb => exact ⟨_, rfl⟩

theorem tokW_str (cs : List Char) (q : List UInt8) (hq : Quoted cs q) : TokW q (.str cs) := by
  intro s rest fuel hat hs hd hf
  obtain ⟨f, rfl⟩ : ∃ f, fuel = f + 1 := ⟨fuel - 1, by omega⟩
  obtain ⟨s', e, h', hs'⟩ := parseStr_sp cs q hq s rest f hat (by omega)
  refine ⟨s', ?_, Post.of_clean h' (hs' hs)⟩
  obtain ⟨t, rfl⟩ := quoted_shape hq
  simp only [List.cons_append] at hat
  rw [lexRead]
  simp [hat.eof, hat.cur, e]

end Hs.Zinc
