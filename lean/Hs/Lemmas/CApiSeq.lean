/-
  Lemmas for C17: the pool (`pget`/`pset`/`perase`), `Vals` against core `List` operations.
-/
import Hs.Model.CApi
namespace Hs.CApi
open Hs

/-! ### pool -/

theorem pget_pset_same {α} (p : List (Nat × α)) (h : Nat) (x : α) (hx : (pget p h).isSome) :
    pget (pset p h x) h = some x := by
  induction p with
  | nil => simp [pget] at hx
  | cons kv t ih =>
    obtain ⟨k, v⟩ := kv
    by_cases hk : k = h
    · simp [pset, pget, hk]
    · simp [pset, pget, hk] at hx ⊢
      exact ih hx

theorem pget_pset_other {α} (p : List (Nat × α)) (h h' : Nat) (x : α) (hne : h' ≠ h) :
    pget (pset p h x) h' = pget p h' := by
  induction p with
  | nil => simp [pset, pget]
  | cons kv t ih =>
    obtain ⟨k, v⟩ := kv
    by_cases hk : k = h
    · have : k ≠ h' := by intro e; exact hne (e ▸ hk.symm ▸ rfl)
      simp [pset, pget, hk, ih]
      subst hk
      simp [this]
    · simp [pset, pget, hk, ih]

theorem pget_perase_other {α} (p : List (Nat × α)) (h h' : Nat) (hne : h' ≠ h) :
    pget (perase p h) h' = pget p h' := by
  induction p with
  | nil => simp [perase, pget]
  | cons kv t ih =>
    obtain ⟨k, v⟩ := kv
    by_cases hk : k = h
    · subst hk
      have : k ≠ h' := fun e => hne e.symm
      simp [perase, pget, ih, this]
    · simp [perase, pget, hk, ih]

theorem pget_perase_same {α} (p : List (Nat × α)) (h : Nat) : pget (perase p h) h = none := by
  induction p with
  | nil => simp [perase, pget]
  | cons kv t ih =>
    obtain ⟨k, v⟩ := kv
    by_cases hk : k = h
    · simp [perase, hk, ih]
    · simp [perase, pget, hk, ih]

theorem pget_cons_same {α} (p : List (Nat × α)) (k : Nat) (v : α) : pget ((k, v) :: p) k = some v := by
  simp [pget]

/-! ### sequences -/

theorem ofList_toList : (xs : Vals) → Vals.ofList xs.toList = xs
  | .nil => rfl
  | .cons v vs => by simp [Vals.toList, Vals.ofList, ofList_toList vs]

theorem toList_ofList (l : List Val) : (Vals.ofList l).toList = l := by
  induction l with
  | nil => rfl
  | cons v vs ih => simp [Vals.toList, Vals.ofList, ih]

theorem length_toList : (xs : Vals) → xs.toList.length = xs.length
  | .nil => rfl
  | .cons v vs => by simp [Vals.toList, Vals.length, length_toList vs]

theorem toList_vPush : (xs : Vals) → (x : Val) → (vPush xs x).toList = xs.toList ++ [x]
  | .nil, _ => rfl
  | .cons v vs, x => by simp [vPush, Vals.toList, toList_vPush vs x]

theorem vGet?_eq : (xs : Vals) → (i : Nat) → vGet? xs i = xs.toList[i]?
  | .nil, _ => by simp [vGet?, Vals.toList]
  | .cons v vs, 0 => by simp [vGet?, Vals.toList]
  | .cons v vs, i + 1 => by simp [vGet?, Vals.toList, vGet?_eq vs i]

theorem toList_vSet : (xs : Vals) → (i : Nat) → (x : Val) → (vSet xs i x).toList = xs.toList.set i x
  | .nil, _, _ => by simp [vSet, Vals.toList]
  | .cons v vs, 0, x => by simp [vSet, Vals.toList]
  | .cons v vs, i + 1, x => by simp [vSet, Vals.toList, toList_vSet vs i x]

theorem toList_vRemoveAt : (xs : Vals) → (i : Nat) → (vRemoveAt xs i).toList = xs.toList.eraseIdx i
  | .nil, _ => by simp [vRemoveAt, Vals.toList]
  | .cons v vs, 0 => by simp [vRemoveAt, Vals.toList]
  | .cons v vs, i + 1 => by simp [vRemoveAt, Vals.toList, toList_vRemoveAt vs i]

end Hs.CApi
