/-
  Hs.Lemmas.Tz — general lemmas for C06, lifting the kernel-checked table facts
  (`Hs.Lemmas.TzTables`) to statements about all names, offsets and instants.
-/
import Hs.Lemmas.TzTables
namespace Hs.Tz
open Hs Hs.Gen.Zones

/-! ### zone look-up -/

theorem find_mem : ∀ (t : ZTree) (q : Nat) (id : List Char), ZTree.find t q = some id → id ∈ ZTree.ids t := by
  intro t
  induction t with
  | leaf => intro q id h; simp [ZTree.find] at h
  | node l k i r ihl ihr =>
    intro q id h
    simp only [ZTree.find] at h
    simp only [ZTree.ids, List.mem_append, List.mem_cons]
    split at h
    · simp only [Option.some.injEq] at h; exact .inr (.inl h.symm)
    · split at h
      · exact .inl (ihl q id h)
      · exact .inr (.inr (ihr q id h))

/-- `str::parse::<Tz>` succeeds exactly on the zone ids, and gives that zone -/
theorem parseTz_some {n z : List Char} (h : parseTz n = some z) : z = n ∧ n ∈ zones := by
  unfold parseTz at h
  split at h
  · rename_i id hf
    split at h
    · rename_i he
      simp only [Option.some.injEq] at h
      subst h; subst he
      exact ⟨rfl, by rw [← tbl_tree_ids]; exact find_mem _ _ _ hf⟩
    · cases h
  · cases h

theorem parseTz_of_mem {z : List Char} (h : z ∈ zones) : parseTz z = some z := by
  have := List.all_eq_true.1 tbl_parse_self z h
  simpa using this

theorem parseTz_iff (n : List Char) : parseTz n = some n ↔ n ∈ zones :=
  ⟨fun h => (parseTz_some h).2, parseTz_of_mem⟩

theorem findPrefixed_mem {n z : List Char} : ∀ {ps : List (List Char)}, findPrefixed n ps = some z → z ∈ zones := by
  intro ps
  induction ps with
  | nil => intro h; simp [findPrefixed] at h
  | cons p ps ih =>
    intro h
    simp only [findPrefixed] at h
    split at h
    · rename_i w hw
      simp only [Option.some.injEq] at h
      obtain ⟨e, hm⟩ := parseTz_some hw
      rw [← h, e]; exact hm
    · exact ih h

theorem findTimezone_mem {n z : List Char} (h : findTimezone n = some z) : z ∈ zones := by
  unfold findTimezone at h
  split at h
  · rename_i w hw
    simp only [Option.some.injEq] at h
    obtain ⟨e, hm⟩ := parseTz_some hw
    rw [← h, e]; exact hm
  · exact findPrefixed_mem h

/-- a zone id resolves to itself -/
theorem findTimezone_of_mem {z : List Char} (h : z ∈ zones) : findTimezone z = some z := by
  simp [findTimezone, parseTz_of_mem h]

/-- the city name of any zone resolves to a zone with the same city name -/
theorem short_resolves_some {z : List Char} (h : z ∈ zones) :
    ∃ w, findTimezone (shortName z) = some w ∧ w ∈ zones ∧ shortName w = shortName z := by
  have := List.all_eq_true.1 tbl_short_resolves z h
  split at this
  · rename_i w hw
    exact ⟨w, hw, findTimezone_mem hw, by simpa using this⟩
  · cases this

theorem short_resolves {z : List Char} (h : z ∈ zones) (hu : Unambiguous z) :
    findTimezone (shortName z) = some z := by
  obtain ⟨w, hw, hm, hs⟩ := short_resolves_some h
  rw [hw, hu w hm hs]

theorem short_lexable {z : List Char} (h : z ∈ zones) : lexable (shortName z) = true :=
  List.all_eq_true.1 tbl_short_lexable z h

/-- an unambiguous zone other than `UTC` is not called `UTC` -/
theorem short_ne_utc {z : List Char} (hu : Unambiguous z) (hne : z ≠ utcName) : shortName z ≠ utcName := by
  intro h
  exact hne (hu utcName tbl_utc.1 (by rw [tbl_utc.2, h])).symm

/-! ### offset texts -/

theorem digitVal_digit : ∀ n, n < 10 → digitVal (digit n) = some n := by decide

theorem d2_parse (n : Nat) (h : n < 100) :
    ∃ a b, d2 n = [digit a, digit b] ∧ digitVal (digit a) = some a ∧ digitVal (digit b) = some b ∧ a * 10 + b = n := by
  refine ⟨n / 10 % 10, n % 10, rfl, digitVal_digit _ (Nat.mod_lt _ (by decide)), digitVal_digit _ (Nat.mod_lt _ (by decide)), ?_⟩
  omega

/-! ### rounding to the minute -/

theorem roundMin_nonneg {o : Int} (h : 0 ≤ o) : roundMin o = (o + 30) / 60 * 60 := by
  unfold roundMin
  rcases Int.lt_or_eq_of_le h with hp | rfl
  · rw [Int.sign_eq_one_of_pos hp, Int.natAbs_of_nonneg h, Int.one_mul]
  · simp

theorem roundMin_neg {o : Int} (h : o < 0) : roundMin o = -((-o + 30) / 60 * 60) := by
  unfold roundMin
  have : ((o.natAbs : Nat) : Int) = -o := by omega
  rw [Int.sign_eq_neg_one_of_neg h, this]
  omega

/-- an offset of whole minutes is its own text offset -/
theorem roundMin_of_whole {o : Int} (h : o % 60 = 0) : roundMin o = o := by
  by_cases hn : o < 0
  · rw [roundMin_neg hn]; omega
  · rw [roundMin_nonneg (by omega)]; omega

/-- the text offset is the offset to within half a minute, on the same side of zero, in whole minutes -/
theorem roundMin_bounds (o : Int) : roundMin o % 60 = 0 ∧ -30 ≤ o - roundMin o ∧ o - roundMin o ≤ 30 ∧
    (0 ≤ o → 0 ≤ roundMin o) ∧ (o ≤ 0 → roundMin o ≤ 0) := by
  by_cases hn : o < 0
  · rw [roundMin_neg hn]; omega
  · rw [roundMin_nonneg (by omega)]; omega

theorem roundMin_natAbs (o : Int) : (roundMin o).natAbs = (o.natAbs + 30) / 60 * 60 := by
  by_cases hn : o < 0
  · rw [roundMin_neg hn]; omega
  · rw [roundMin_nonneg (by omega)]; omega

/-- the reader's offset parser inverts chrono's RFC 3339 offset text: for ANY offset but zero whose
rounded minutes stay below 24 h it reads the sign and the offset rounded to the minute -/
theorem parseOffTxt_rfcOffsetText (off : Int) (hlt : (off.natAbs + 30) / 60 < 1440) (hne : off ≠ 0) :
    parseOffTxt (rfcOffsetText off) = some (.fixed (decide (0 < off)) ((off.natAbs + 30) / 60 * 60)) := by
  obtain ⟨a, b, e1, ha', hb', hab⟩ := d2_parse ((off.natAbs + 30) / 60 / 60) (by omega)
  obtain ⟨x, y, e2, hx', hy', hxy⟩ := d2_parse ((off.natAbs + 30) / 60 % 60) (by omega)
  have hdur : (a * 10 + b) * 3600 + (x * 10 + y) * 60 = (off.natAbs + 30) / 60 * 60 := by rw [hab, hxy]; omega
  simp only [rfcOffsetText, hne, if_false, minuteOffsetText, e1, e2, List.cons_append, List.nil_append]
  by_cases hneg : off < 0
  · have : ¬ (0 < off) := by omega
    simp [parseOffTxt, hneg, ha', hb', hx', hy', hdur, this]
  · have : 0 < off := by omega
    simp [parseOffTxt, hneg, ha', hb', hx', hy', hdur, this]

/-! ### `make_date_time_from_text` -/

/-- where the zone's offset is a whole number of minutes nothing is corrected -/
theorem fromText_of_whole (db : TzDb) (secs : Int) (ns : Nat) (written : Int) (name z : List Char)
    (hres : findTimezone name = some z) (h60 : db.offsetAt z secs % 60 = 0) :
    makeDateTimeFromText db secs ns written name = .ok ⟨secs, ns, z⟩ := by
  have hr := roundMin_of_whole h60
  simp [makeDateTimeFromText, makeDateTimeWithTz, hres, DT.offset, hr]

/-- the text of the instant `secs` in a zone whose offset `o` there has seconds carries the instant
`secs + (o − rounded o)`; when the zone's offset is `o` there as well, the reader returns `secs` -/
theorem fromText_exact (db : TzDb) (secs : Int) (ns : Nat) (name z : List Char)
    (hres : findTimezone name = some z)
    (hst : db.offsetAt z (secs + (db.offsetAt z secs - roundMin (db.offsetAt z secs))) = db.offsetAt z secs) :
    makeDateTimeFromText db (secs + (db.offsetAt z secs - roundMin (db.offsetAt z secs))) ns
      (roundMin (db.offsetAt z secs)) name = .ok ⟨secs, ns, z⟩ := by
  generalize ho : db.offsetAt z secs = o at hst
  have hback : secs + (o - roundMin o) - (o - roundMin o) = secs := by omega
  by_cases he : o - roundMin o = 0
  · simp [makeDateTimeFromText, makeDateTimeWithTz, hres, DT.offset, he, ho]
  · simp [makeDateTimeFromText, makeDateTimeWithTz, hres, DT.offset, hst, he, hback, ho]

/-! ### the zone derived from an offset -/

def OffsetOk (off : Int) : Prop := off % 60 = 0 ∧ -43200 ≤ off ∧ off ≤ 50400

theorem rfcZone_hours {n : Int} (h : n ∈ etcHours) : rfcZone (n * 3600) = .ok (etcName n) := by
  have := List.all_eq_true.1 tbl_rfc_hours n h
  simpa using this

theorem mem_etcHours {n : Int} (h1 : -12 ≤ n) (h2 : n ≤ 14) : n ∈ etcHours := by
  have : n = -12 ∨ n = -11 ∨ n = -10 ∨ n = -9 ∨ n = -8 ∨ n = -7 ∨ n = -6 ∨ n = -5 ∨ n = -4 ∨ n = -3 ∨ n = -2 ∨
      n = -1 ∨ n = 0 ∨ n = 1 ∨ n = 2 ∨ n = 3 ∨ n = 4 ∨ n = 5 ∨ n = 6 ∨ n = 7 ∨ n = 8 ∨ n = 9 ∨ n = 10 ∨ n = 11 ∨
      n = 12 ∨ n = 13 ∨ n = 14 := by omega
  simp only [etcHours, List.mem_cons, List.not_mem_nil, or_false]
  omega

theorem rfcZone_minutes (off : Int) (h60 : off % 60 = 0) (hlt : off.natAbs < 86400) (hmin : off % 3600 ≠ 0) :
    rfcZone off = .ok utcName := by
  have hh : off.natAbs / 3600 < 24 := by omega
  have hm : off.natAbs % 3600 / 60 < 60 := by omega
  have hm0 : off.natAbs % 3600 / 60 ≠ 0 := by omega
  have t := List.all_eq_true.1 (List.all_eq_true.1 tbl_rfc_minutes (off.natAbs / 3600) (List.mem_range.2 hh))
    (off.natAbs % 3600 / 60) (List.mem_range.2 hm)
  simp only [Bool.or_eq_true, beq_iff_eq, hm0, false_or, Bool.and_eq_true, decide_eq_true_eq] at t
  have hsum : off.natAbs / 3600 * 3600 + off.natAbs % 3600 / 60 * 60 = off.natAbs := by omega
  rw [hsum] at t
  by_cases hneg : off < 0
  · have : off = -(Int.ofNat off.natAbs) := by simp only [Int.ofNat_eq_natCast]; omega
    rw [this]; exact t.2
  · have : off = Int.ofNat off.natAbs := by simp only [Int.ofNat_eq_natCast]; omega
    rw [this]; exact t.1

/-- an offset `make_date_time` accepts: whole minutes below 24 h and, when whole hours, −12 h … +14 h -/
def RfcOk (off : Int) : Prop := off % 60 = 0 ∧ off.natAbs < 86400 ∧ (off % 3600 = 0 → -43200 ≤ off ∧ off ≤ 50400)

theorem RfcOk_of_OffsetOk {off : Int} (h : OffsetOk off) : RfcOk off := ⟨h.1, by have := h.2; omega, fun _ => h.2⟩

theorem rfcZone_ok' (off : Int) (h : RfcOk off) :
    rfcZone off = .ok (if off % 3600 = 0 then etcName (off / 3600) else utcName) := by
  obtain ⟨h60, hlt, hw'⟩ := h
  by_cases hw : off % 3600 = 0
  · rw [if_pos hw]
    obtain ⟨hlo, hhi⟩ := hw' hw
    have hn : off / 3600 ∈ etcHours := mem_etcHours (by omega) (by omega)
    have := rfcZone_hours hn
    rwa [show off / 3600 * 3600 = off by omega] at this
  · rw [if_neg hw]
    exact rfcZone_minutes off h60 hlt hw

/-- none of the offsets −12:00 … +14:00 (whole minutes) is rejected; the zone is the fixed
`Etc/GMT∓N` zone for whole hours and UTC otherwise -/
theorem rfcZone_ok (off : Int) (h : OffsetOk off) :
    rfcZone off = .ok (if off % 3600 = 0 then etcName (off / 3600) else utcName) := by
  obtain ⟨h60, hlo, hhi⟩ := h
  by_cases hw : off % 3600 = 0
  · rw [if_pos hw]
    have hn : off / 3600 ∈ etcHours := mem_etcHours (by omega) (by omega)
    have := rfcZone_hours hn
    rwa [show off / 3600 * 3600 = off by omega] at this
  · rw [if_neg hw]
    exact rfcZone_minutes off h60 (by omega) hw

end Hs.Tz
