/-
  Lemmas for C17 / C18: the model's ops against the translated inventory `Hs.Gen.CApi`
  (function identity, failure sentinel, number of pointer parameters, coverage of the inventory).
  Functions are identified by the generated enumeration `FnId` (no string comparison in the kernel).
-/
import Hs.Model.CApi
import Hs.Gen.CApi
import Hs.Lemmas.CApiStep
namespace Hs.CApi
open Hs

def K0.fnId : K0 → Gen.CApi.FnId
  | .init => .haystack_value_init | .marker => .haystack_value_make_marker | .na => .haystack_value_make_na
  | .remove => .haystack_value_make_remove | .list => .haystack_value_make_list
  | .dict => .haystack_value_make_dict | .grid => .haystack_value_make_grid

def K1.fnId : K1 → Gen.CApi.FnId
  | .str => .haystack_value_make_str | .ref => .haystack_value_make_ref
  | .uri => .haystack_value_make_uri | .symbol => .haystack_value_make_symbol

def Kind.fnId : Kind → Gen.CApi.FnId
  | .null => .haystack_value_is_null | .marker => .haystack_value_is_marker | .na => .haystack_value_is_na
  | .remove => .haystack_value_is_remove | .bool => .haystack_value_is_bool | .number => .haystack_value_is_number
  | .coord => .haystack_value_is_coord | .str => .haystack_value_is_str | .ref => .haystack_value_is_ref
  | .uri => .haystack_value_is_uri | .symbol => .haystack_value_is_symbol | .xstr => .haystack_value_is_xstr
  | .time => .haystack_value_is_time | .date => .haystack_value_is_date | .datetime => .haystack_value_is_datetime
  | .list => .haystack_value_is_list | .dict => .haystack_value_is_dict | .grid => .haystack_value_is_grid

def Getter.fnId : Getter → Gen.CApi.FnId
  | .numberValue => .haystack_value_get_number_value | .numberHasUnit => .haystack_value_number_has_unit
  | .numberUnit => .haystack_value_get_number_unit | .strLen => .haystack_value_get_str_len
  | .strValue => .haystack_value_get_str_value | .refValueLen => .haystack_value_get_ref_value_len
  | .refValue => .haystack_value_get_ref_value | .refDis => .haystack_value_get_ref_dis
  | .symbolValueLen => .haystack_value_get_symbol_value_len | .symbolValue => .haystack_value_get_symbol_value
  | .uriValueLen => .haystack_value_get_uri_value_len | .uriValue => .haystack_value_get_uri_value
  | .xstrType => .haystack_value_get_xstr_type | .xstrValue => .haystack_value_get_xstr_value
  | .coordLat => .haystack_value_get_coord_lat | .coordLong => .haystack_value_get_coord_long
  | .dateYear => .haystack_value_get_date_year | .dateMonth => .haystack_value_get_date_month
  | .dateDay => .haystack_value_get_date_day | .timeHour => .haystack_value_get_time_hour
  | .timeMinutes => .haystack_value_get_time_minutes | .timeSeconds => .haystack_value_get_time_seconds
  | .timeMillis => .haystack_value_get_time_millis | .datetimeTimezone => .haystack_value_get_datetime_timezone
  | .listLen => .haystack_value_get_list_len | .dictLen => .haystack_value_get_dict_len
  | .gridLen => .haystack_value_get_grid_len

def COp.fnId : COp → Gen.CApi.FnId
  | .mk0 k => k.fnId
  | .mkBool _ => .haystack_value_make_bool
  | .mkNum _ => .haystack_value_make_number
  | .mkNumUnit _ _ _ => .haystack_value_make_number_with_unit
  | .mkCoord _ _ => .haystack_value_make_coord
  | .mk1 k _ => k.fnId
  | .mkRefDis _ _ => .haystack_value_make_ref_with_dis
  | .mkXStr _ _ => .haystack_value_make_xstr
  | .mkTime _ _ _ => .haystack_value_make_time
  | .mkTimeMs _ _ _ _ => .haystack_value_make_time_millis
  | .mkDate _ _ _ => .haystack_value_make_date
  | .mkUtc _ _ _ => .haystack_value_make_utc_datetime
  | .mkTz _ _ _ _ => .haystack_value_make_tz_datetime
  | .isKind k _ => k.fnId
  | .get g _ => g.fnId
  | .lpush _ _ => .haystack_value_push_list_entry
  | .lget _ _ _ => .haystack_value_get_list_entry_at
  | .lset _ _ _ => .haystack_value_set_list_entry_at
  | .lrem _ _ => .haystack_value_remove_list_entry_at
  | .dins _ _ _ => .haystack_value_insert_dict_entry
  | .dget _ _ _ => .haystack_value_get_dict_entry
  | .drem _ _ => .haystack_value_remove_dict_entry
  | .dkeys _ _ => .haystack_value_get_dict_keys
  | .gfrom _ => .haystack_value_make_grid_from_rows
  | .gfromMeta _ _ => .haystack_value_make_grid_from_rows_with_meta
  | .grow _ _ _ => .haystack_value_get_grid_row_at
  | .dtDate _ _ _ _ => .haystack_value_get_datetime_date
  | .dtTime _ _ _ _ => .haystack_value_get_datetime_time
  | .toZinc _ _ => .haystack_value_to_zinc_string
  | .fromZinc _ _ => .haystack_value_from_zinc_string
  | .toJson _ _ => .haystack_value_to_json_string
  | .fromJson _ _ => .haystack_value_from_json_string
  | .fparse _ _ => .haystack_filter_parse
  | .fmatch _ _ _ => .haystack_filter_match_dict
  | .ffirst _ _ _ _ => .haystack_filter_first_match_in_grid
  | .fall _ _ _ _ => .haystack_filter_match_all_grid
  | .fdestroy _ => .haystack_filter_destroy
  | .takeErr => .last_error_message
  | .destroy _ => .haystack_value_destroy
  | .sdestroy _ => .haystack_string_destroy

/-- the model's sentinel in the vocabulary of the translated inventory -/
def toGen : Sentinel → Gen.CApi.Sentinel
  | .none => .none | .null => .null | .false => .false | .usizeMax => .usizeMax
  | .u32Max => .u32Max | .nan => .nan | .err => .err

/-- the inventory row of the function behind an op -/
def COp.row (op : COp) : Gen.CApi.Fn := Gen.CApi.fnTable op.fnId

/-- the op's function is the inventory's function of that name -/
theorem name_table (op : COp) : op.row.name = op.fnName := by
  cases op with
  | mk0 k => cases k <;> rfl
  | mk1 k _ => cases k <;> rfl
  | isKind k _ => cases k <;> rfl
  | get g _ => cases g <;> rfl
  | _ => rfl

/-- every failing path of an op returns the sentinel the inventory lists for the function -/
theorem sentinel_table (op : COp) : op.row.sentinel = toGen op.sentinel := by
  cases op with
  | mk0 k => cases k <;> rfl
  | mk1 k _ => cases k <;> rfl
  | isKind k _ => cases k <;> rfl
  | get g _ => cases g <;> rfl
  | _ => rfl

/-- an op has exactly the pointer parameters of the function (in the inventory's order) -/
theorem ptr_table (op : COp) : op.row.ptrParams.length = op.nullFlags.length := by
  cases op with
  | mk0 k => cases k <;> rfl
  | mk1 k _ => cases k <;> rfl
  | isKind k _ => cases k <;> rfl
  | get g _ => cases g <;> rfl
  | _ => rfl

/-- a function the inventory marks as never reporting an error has no failing path in the model -/
theorem never_fails_table (s : CState) (op : COp) (h : op.row.setsError = false) :
    ∃ s' r, cexec s op = .ok (s', r) := by
  cases op with
  | mk0 k => exact ⟨_, _, rfl⟩
  | mkBool _ => exact ⟨_, _, rfl⟩
  | mkNum _ => exact ⟨_, _, rfl⟩
  | mkCoord _ _ => exact ⟨_, _, rfl⟩
  | takeErr => cases hl : s.lastErr <;> simp [cexec, hl]
  | destroy p => cases p <;> exact ⟨_, _, rfl⟩
  | sdestroy _ => exact ⟨_, _, rfl⟩
  | mk1 k _ => cases k <;> cases h
  | isKind k _ => cases k <;> cases h
  | get g _ => cases g <;> cases h
  | _ => cases h

/-- one op per function of the model -/
def sampleOps : List COp :=
  [K0.init, .marker, .na, .remove, .list, .dict, .grid].map .mk0
  ++ [K1.str, .ref, .uri, .symbol].map (fun k => .mk1 k .null)
  ++ Kind.all.map (fun k => .isKind k none)
  ++ Getter.all.map (fun g => .get g none)
  ++ [.mkBool true, .mkNum default, .mkNumUnit default .null none, .mkCoord default default, .mkRefDis .null .null,
      .mkXStr .null .null, .mkTime 0 0 0, .mkTimeMs 0 0 0 0, .mkDate 0 0 0, .mkUtc none none .null,
      .mkTz none none .null none, .lpush none none, .lget none 0 false, .lset none 0 none, .lrem none 0,
      .dins none .null none, .dget none .null false, .drem none .null, .dkeys none none, .gfrom none,
      .gfromMeta none none, .grow none 0 none, .dtDate none false none .null, .dtTime none false none .null,
      .toZinc none none, .fromZinc .null none, .toJson none none, .fromJson .null none, .fparse .null false,
      .fmatch none none false, .ffirst none none none none, .fall none none none .null, .fdestroy none,
      .takeErr, .destroy none, .sdestroy none]

/-- an op for every function of the translated inventory (a function the model lacks makes this match incomplete) -/
def opOf : Gen.CApi.FnId → COp
  | .haystack_filter_destroy => .fdestroy none
  | .haystack_filter_first_match_in_grid => .ffirst none none none none
  | .haystack_filter_match_all_grid => .fall none none none .null
  | .haystack_filter_match_dict => .fmatch none none false
  | .haystack_filter_parse => .fparse .null false
  | .haystack_string_destroy => .sdestroy none
  | .haystack_value_destroy => .destroy none
  | .haystack_value_from_json_string => .fromJson .null none
  | .haystack_value_from_zinc_string => .fromZinc .null none
  | .haystack_value_get_coord_lat => .get .coordLat none
  | .haystack_value_get_coord_long => .get .coordLong none
  | .haystack_value_get_date_day => .get .dateDay none
  | .haystack_value_get_date_month => .get .dateMonth none
  | .haystack_value_get_date_year => .get .dateYear none
  | .haystack_value_get_datetime_date => .dtDate none false none .null
  | .haystack_value_get_datetime_time => .dtTime none false none .null
  | .haystack_value_get_datetime_timezone => .get .datetimeTimezone none
  | .haystack_value_get_dict_entry => .dget none .null false
  | .haystack_value_get_dict_keys => .dkeys none none
  | .haystack_value_get_dict_len => .get .dictLen none
  | .haystack_value_get_grid_len => .get .gridLen none
  | .haystack_value_get_grid_row_at => .grow none 0 none
  | .haystack_value_get_list_entry_at => .lget none 0 false
  | .haystack_value_get_list_len => .get .listLen none
  | .haystack_value_get_number_unit => .get .numberUnit none
  | .haystack_value_get_number_value => .get .numberValue none
  | .haystack_value_get_ref_dis => .get .refDis none
  | .haystack_value_get_ref_value => .get .refValue none
  | .haystack_value_get_ref_value_len => .get .refValueLen none
  | .haystack_value_get_str_len => .get .strLen none
  | .haystack_value_get_str_value => .get .strValue none
  | .haystack_value_get_symbol_value => .get .symbolValue none
  | .haystack_value_get_symbol_value_len => .get .symbolValueLen none
  | .haystack_value_get_time_hour => .get .timeHour none
  | .haystack_value_get_time_millis => .get .timeMillis none
  | .haystack_value_get_time_minutes => .get .timeMinutes none
  | .haystack_value_get_time_seconds => .get .timeSeconds none
  | .haystack_value_get_uri_value => .get .uriValue none
  | .haystack_value_get_uri_value_len => .get .uriValueLen none
  | .haystack_value_get_xstr_type => .get .xstrType none
  | .haystack_value_get_xstr_value => .get .xstrValue none
  | .haystack_value_init => .mk0 .init
  | .haystack_value_insert_dict_entry => .dins none .null none
  | .haystack_value_is_bool => .isKind .bool none
  | .haystack_value_is_coord => .isKind .coord none
  | .haystack_value_is_date => .isKind .date none
  | .haystack_value_is_datetime => .isKind .datetime none
  | .haystack_value_is_dict => .isKind .dict none
  | .haystack_value_is_grid => .isKind .grid none
  | .haystack_value_is_list => .isKind .list none
  | .haystack_value_is_marker => .isKind .marker none
  | .haystack_value_is_na => .isKind .na none
  | .haystack_value_is_null => .isKind .null none
  | .haystack_value_is_number => .isKind .number none
  | .haystack_value_is_ref => .isKind .ref none
  | .haystack_value_is_remove => .isKind .remove none
  | .haystack_value_is_str => .isKind .str none
  | .haystack_value_is_symbol => .isKind .symbol none
  | .haystack_value_is_time => .isKind .time none
  | .haystack_value_is_uri => .isKind .uri none
  | .haystack_value_is_xstr => .isKind .xstr none
  | .haystack_value_make_bool => .mkBool true
  | .haystack_value_make_coord => .mkCoord default default
  | .haystack_value_make_date => .mkDate 0 0 0
  | .haystack_value_make_dict => .mk0 .dict
  | .haystack_value_make_grid => .mk0 .grid
  | .haystack_value_make_grid_from_rows => .gfrom none
  | .haystack_value_make_grid_from_rows_with_meta => .gfromMeta none none
  | .haystack_value_make_list => .mk0 .list
  | .haystack_value_make_marker => .mk0 .marker
  | .haystack_value_make_na => .mk0 .na
  | .haystack_value_make_number => .mkNum default
  | .haystack_value_make_number_with_unit => .mkNumUnit default .null none
  | .haystack_value_make_ref => .mk1 .ref .null
  | .haystack_value_make_ref_with_dis => .mkRefDis .null .null
  | .haystack_value_make_remove => .mk0 .remove
  | .haystack_value_make_str => .mk1 .str .null
  | .haystack_value_make_symbol => .mk1 .symbol .null
  | .haystack_value_make_time => .mkTime 0 0 0
  | .haystack_value_make_time_millis => .mkTimeMs 0 0 0 0
  | .haystack_value_make_tz_datetime => .mkTz none none .null none
  | .haystack_value_make_uri => .mk1 .uri .null
  | .haystack_value_make_utc_datetime => .mkUtc none none .null
  | .haystack_value_make_xstr => .mkXStr .null .null
  | .haystack_value_number_has_unit => .get .numberHasUnit none
  | .haystack_value_push_list_entry => .lpush none none
  | .haystack_value_remove_dict_entry => .drem none .null
  | .haystack_value_remove_list_entry_at => .lrem none 0
  | .haystack_value_set_list_entry_at => .lset none 0 none
  | .haystack_value_to_json_string => .toJson none none
  | .haystack_value_to_zinc_string => .toZinc none none
  | .last_error_message => .takeErr

/-- every function of the translated inventory is modelled by an op -/
theorem inventory_covered (id : Gen.CApi.FnId) : (opOf id).fnId = id := by cases id <;> rfl

end Hs.CApi
