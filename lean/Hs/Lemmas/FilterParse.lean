/-
  print → parse for the proved fragment of the filter grammar (C08): trees whose terms are
  `tag`, `not tag`, `^symbol`, `path *== @ref`, `rel? [^symbol] [@ref]`, `path op literal` with a
  Bool, Symbol or Ref literal, and parenthesised groups; any `and` / `or` nesting.  One mutual
  induction over the tree; the lexer is used only through the token lemmas of `Hs.Lemmas.FilterLex`.
-/
import Hs.Lemmas.FilterLex
namespace Hs.FText
open Hs Hs.Scan Hs.Zinc

/-! ### positions and continuations -/

/-- a token may start here after a name and a space: not white space, not `?`, not `-`, not `"` -/
def okHead (T : List UInt8) : Prop :=
  ∃ c r, T = c :: r ∧ isWsB c = false ∧ (c == 63) = false ∧ (c == 45) = false ∧ (c == 34) = false

def nonWs (T : List UInt8) : Prop := ∃ c r, T = c :: r ∧ isWsB c = false

theorem okHead.nonWs {T : List UInt8} (h : okHead T) : nonWs T := by
  obtain ⟨c, r, h1, h2, _⟩ := h; exact ⟨c, r, h1, h2⟩

/-- the scanner stands at `T`, or one space before it — with or without `T`'s first byte already in
the peek buffer -/
def Pos (s : Scan) (T : List UInt8) : Prop :=
  Views s T ∨ (nonWs T ∧ (Views s (32 :: T) ∨ Stashed s T))

/-- the lexer state after a token: current token `tok`, scanner at `T` -/
def At (l : FLex) (tok : FTok) (T : List UInt8) : Prop := l.cur = tok ∧ Pos l.sc T

/-- what follows a term in printed text: nothing, or one space and then the next token -/
def Cont (rest T : List UInt8) : Prop := (rest = [] ∧ T = []) ∨ (rest = 32 :: T ∧ okHead T)

/-- … the same without the restrictions a preceding name imposes -/
def Sp (rest T : List UInt8) : Prop := (rest = [] ∧ T = []) ∨ (rest = 32 :: T ∧ nonWs T)

/-- reading a token at `T` gives `tok` and leaves the scanner at `T'` -/
def Follow (T : List UInt8) (tok : FTok) (T' : List UInt8) : Prop :=
  T'.length ≤ T.length ∧
  ∀ (fuel : Nat) (s : Scan), Views s T → T.length + 5 ≤ fuel → ∃ s', lexRead fuel s = .ok s' tok ∧ Pos s' T'

theorem Cont.sp {rest T : List UInt8} (h : Cont rest T) : Sp rest T := by
  rcases h with h | ⟨h, h'⟩
  · exact Or.inl h
  · exact Or.inr ⟨h, h'.nonWs⟩

theorem Cont.pdelim {rest T : List UInt8} (h : Cont rest T) : PDelim rest := by
  rcases h with ⟨h, _⟩ | ⟨h, c, r, hT, h1, h2, h3, _⟩
  · exact Or.inl h
  · exact Or.inr ⟨c, r, by rw [h, hT], h1, h2, h3⟩

theorem Cont.afterSp {rest T : List UInt8} (h : Cont rest T) : afterSp rest = T := by
  rcases h with ⟨h, h'⟩ | ⟨h, _⟩ <;> subst h <;> simp [FText.afterSp, *]

theorem Sp.len {rest T : List UInt8} (h : Sp rest T) : T.length ≤ rest.length := by
  rcases h with ⟨h, h'⟩ | ⟨h, _⟩ <;> subst h <;> simp [*]

theorem Cont.len {rest T : List UInt8} (h : Cont rest T) : T.length ≤ rest.length := h.sp.len

/-- the scanner stopped in front of `rest` -/
theorem Sp.pos {rest T : List UInt8} (h : Sp rest T) {s : Scan} (hs : Views s rest) : Pos s T := by
  rcases h with ⟨h, h'⟩ | ⟨h, h'⟩
  · subst h; subst h'; exact Or.inl hs
  · subst h; exact Or.inr ⟨h', Or.inl hs⟩

/-- a space with the next byte already peeked is skipped like any other -/
theorem lexRead_stashed (F : Nat) (s : Scan) (T : List UInt8) (hT : nonWs T) (h : Stashed s T) :
    ∃ s', lexRead (F + 2) s = lexRead (F + 1) s' ∧ Views s' T := by
  obtain ⟨c, r, hTe, he, hc, hst, hi⟩ := h
  obtain ⟨c', r', hTe', hws⟩ := hT
  rw [hTe] at hTe'
  simp only [List.cons.injEq] at hTe'
  obtain ⟨rfl, rfl⟩ := hTe'
  have hrd := read_stashed he hst hi
  refine ⟨s.read.2, ?_, by rw [hTe]; exact hrd.2⟩
  conv => lhs; unfold lexRead
  simp only [he, Bool.false_eq_true, if_false, hc]
  have e32 : ((32 : UInt8) == 10 || (32 : UInt8) == 13 || (32 : UInt8) == 9 || (32 : UInt8) == 32) = true := by decide
  simp only [e32, if_true]
  have hw : s.isWhiteSpace = true := by rw [isWhiteSpace_eq, hc]; decide
  have hcws : consumeWhiteSpaces (F + 2) s = .ok s.read.2 := by
    unfold consumeWhiteSpaces
    simp only [hw, Bool.not_true, Bool.false_eq_true, if_false]
    cases hr : s.read with
    | mk o s1 =>
      rw [hr] at hrd
      simp only at hrd
      rw [hrd.1]
      simp only
      exact cws_noop F s1 (by rw [Views.cons_cur hrd.2]; exact hws)
  rw [hcws]

/-- reading at a position -/
theorem read_pos {T T' : List UInt8} {tok : FTok} (hF : Follow T tok T') (fuel : Nat) (s : Scan)
    (hp : Pos s T) (hf : T.length + 7 ≤ fuel) : ∃ s', lexRead fuel s = .ok s' tok ∧ Pos s' T' := by
  rcases hp with hp | ⟨hT, hp | hp⟩
  · exact hF.2 fuel s hp (by omega)
  · obtain ⟨F, rfl⟩ : ∃ F, fuel = F + 2 := ⟨fuel - 2, by omega⟩
    obtain ⟨c, r, hTe, hc⟩ := hT
    rw [hTe] at hp
    obtain ⟨s0, h1, h2⟩ := lexRead_space F s c r hc hp
    rw [h1]
    rw [← hTe] at h2
    exact hF.2 (F + 1) s0 h2 (by omega)
  · obtain ⟨F, rfl⟩ : ∃ F, fuel = F + 2 := ⟨fuel - 2, by omega⟩
    obtain ⟨s0, h1, h2⟩ := lexRead_stashed F s T hT hp
    rw [h1]
    exact hF.2 (F + 1) s0 h2 (by omega)

theorem Pos.eof_false {s : Scan} {X : List UInt8} (h : Pos s X) (hX : nonWs X) : s.eof = false := by
  obtain ⟨c, r, hc, _⟩ := hX
  rcases h with h | ⟨_, h | h⟩
  · rw [hc] at h; exact Views.cons_eof h
  · exact Views.cons_eof h
  · obtain ⟨_, _, _, he, _⟩ := h; exact he

theorem follow_nil : Follow [] .none [] := by
  refine ⟨Nat.le_refl _, ?_⟩
  intro fuel s hs hf
  obtain ⟨F, rfl⟩ : ∃ F, fuel = F + 1 := ⟨fuel - 1, by omega⟩
  exact ⟨s, lexRead_eof F s hs, Or.inl hs⟩

theorem follow_rparen {rest T : List UInt8} (h : Cont rest T) : Follow (41 :: rest) .rparen T := by
  refine ⟨by have := h.len; simp; omega, ?_⟩
  intro fuel s hs hf
  obtain ⟨F, rfl⟩ : ∃ F, fuel = F + 1 := ⟨fuel - 1, by omega⟩
  obtain ⟨h1, h2⟩ := lexRead_rparen F s rest hs
  exact ⟨s.advance, h1, h.sp.pos h2⟩

theorem follow_lparen (X : List UInt8) (hX : nonWs X) : Follow (40 :: 32 :: X) .lparen X := by
  refine ⟨by simp; omega, ?_⟩
  intro fuel s hs hf
  obtain ⟨F, rfl⟩ : ∃ F, fuel = F + 1 := ⟨fuel - 1, by omega⟩
  obtain ⟨h1, h2⟩ := lexRead_lparen F s _ hs
  exact ⟨s.advance, h1, Or.inr ⟨hX, Or.inl h2⟩⟩

def WFPath (p : Path) : Prop := p ≠ [] ∧ ∀ seg ∈ p, IdSeg seg

theorem follow_path {p : Path} (hp : WFPath p) {rest T : List UInt8} (hC : Cont rest T) :
    Follow (pathBytes p ++ rest) (.path p) T := by
  refine ⟨by have := hC.len; simp; omega, ?_⟩
  intro fuel s hs hf
  obtain ⟨s', h1, h2⟩ := lexRead_path p hp.1 hp.2 rest hC.pdelim fuel s hs (by simp at hf; omega)
  rw [hC.afterSp] at h2
  exact ⟨s', h1, Or.inl h2⟩

/-- a keyword (`and`, `or`, `not`) followed by a space -/
theorem follow_kw (kw : List Char) (hkw : IdSeg kw) (X : List UInt8) (hX : okHead X) :
    Follow (segBytes kw ++ 32 :: X) (.path [kw]) X := by
  have hC : Cont (32 :: X) X := Or.inr ⟨rfl, hX⟩
  have := follow_path (p := [kw]) ⟨by simp, by simpa using hkw⟩ hC
  simpa [pathBytes] using this

theorem follow_sym {sym : List Char} (hs : SymSeg sym) {rest T : List UInt8} (h : Sp rest T) :
    Follow (94 :: (segBytes sym ++ rest)) (.val (.sym sym)) T := by
  refine ⟨by have := h.len; simp; omega, ?_⟩
  intro fuel s hv hf
  have hno : NoRefHead rest := by
    rcases h with ⟨h, _⟩ | ⟨h, _⟩ <;> subst h <;> simp [NoRefHead]; decide
  obtain ⟨s', h1, h2⟩ := lexRead_sym sym hs rest hno fuel s hv (by simp at hf; omega)
  exact ⟨s', h1, h.pos h2⟩

theorem follow_ref {id : List Char} (hid : RefSeg id) {rest T : List UInt8} (h : Cont rest T) :
    Follow (64 :: (segBytes id ++ rest)) (.val (.ref id none)) T := by
  refine ⟨by have := h.len; simp; omega, ?_⟩
  intro fuel s hv hf
  have hrest : rest = [] ∨ ∃ c r, rest = 32 :: c :: r ∧ (c == 34) = false := by
    rcases h with ⟨h, _⟩ | ⟨h, c, r, hT, _, _, _, h4⟩
    · exact Or.inl h
    · exact Or.inr ⟨c, r, by rw [h, hT], h4⟩
  obtain ⟨s', h1, h2⟩ := lexRead_ref id hid rest hrest fuel s hv (by simp at hf; omega)
  refine ⟨s', h1, ?_⟩
  rcases h2 with ⟨hr, hv'⟩ | ⟨T0, hr, hst⟩
  · rcases h with ⟨_, hT⟩ | ⟨h, _⟩
    · subst hT; exact Or.inl hv'
    · rw [hr] at h; simp at h
  · rcases h with ⟨h, _⟩ | ⟨h, hT⟩
    · rw [h] at hr; simp at hr
    · rw [h] at hr
      simp only [List.cons.injEq, true_and] at hr
      subst hr
      exact Or.inr ⟨hT.nonWs, Or.inr hst⟩

theorem escB_len (w : List UInt8) : w.length ≤ (w.flatMap escB).length := by
  induction w with
  | nil => simp
  | cons a w ih =>
    have : 1 ≤ (escB a).length := by
      unfold escB uEscape; repeat' split
      all_goals simp
    simp only [List.flatMap_cons, List.length_append, List.length_cons]; omega

theorem encQuoted_len (cs : List Char) (h : AsciiStr cs) : (segBytes cs).length + 2 ≤ (encQuoted cs).length := by
  have e : cs.flatMap encStrChar = (segBytes cs).flatMap escB := by
    conv => lhs; rw [h.1]
    exact flatMap_encStrChar _ h.lt
  have := escB_len (segBytes cs)
  unfold encQuoted
  rw [e]
  simp only [List.length_append, List.length_cons, List.length_nil]
  omega

theorem follow_str {cs : List Char} (hcs : AsciiStr cs) {rest T : List UInt8} (h : Sp rest T) :
    Follow (encQuoted cs ++ rest) (.val (.str cs)) T := by
  refine ⟨by have := h.len; simp; omega, ?_⟩
  intro fuel s hv hf
  have hl := encQuoted_len cs hcs
  obtain ⟨s', h1, h2⟩ := lexRead_str cs hcs rest fuel s hv (by simp at hf; omega)
  exact ⟨s', h1, h.pos h2⟩

theorem escU_len (w : List UInt8) : w.length ≤ (w.flatMap escU).length := by
  induction w with
  | nil => simp
  | cons a w ih =>
    have : 1 ≤ (escU a).length := by
      unfold escU uEscape; repeat' split
      all_goals simp
    simp only [List.flatMap_cons, List.length_append, List.length_cons]; omega

theorem encUri_len (cs : List Char) (h : AsciiStr cs) : (segBytes cs).length + 2 ≤ (encUri cs).length := by
  have e : cs.flatMap encUriChar = (segBytes cs).flatMap escU := by
    conv => lhs; rw [h.1]
    exact flatMap_encUriChar _ h.lt
  have := escU_len (segBytes cs)
  unfold encUri
  rw [e]
  simp only [List.length_append, List.length_cons, List.length_nil]
  omega

theorem follow_uri {cs : List Char} (hcs : AsciiStr cs) {rest T : List UInt8} (h : Sp rest T) :
    Follow (encUri cs ++ rest) (.val (.uri cs)) T := by
  refine ⟨by have := h.len; simp; omega, ?_⟩
  intro fuel s hv hf
  have hl := encUri_len cs hcs
  obtain ⟨s', h1, h2⟩ := lexRead_uri cs hcs rest fuel s hv (by simp at hf; omega)
  exact ⟨s', h1, h.pos h2⟩

theorem follow_refdis {id dis : List Char} (hid : RefSeg id) (hdis : AsciiStr dis) {rest T : List UInt8} (h : Sp rest T) :
    Follow (64 :: (segBytes id ++ 32 :: (encQuoted dis ++ rest))) (.val (.ref id (some dis))) T := by
  refine ⟨by have := h.len; simp; omega, ?_⟩
  intro fuel s hv hf
  have hl := encQuoted_len dis hdis
  obtain ⟨s', h1, h2⟩ := lexRead_refdis id dis hid hdis rest fuel s hv (by simp at hf; omega)
  exact ⟨s', h1, h.pos h2⟩

theorem follow_op (op : CmpOp) (X : List UInt8) (hX : nonWs X) : Follow (printOp op ++ 32 :: X) (opTok op) X := by
  refine ⟨by simp; omega, ?_⟩
  intro fuel s hv hf
  obtain ⟨F, rfl⟩ : ∃ F, fuel = F + 1 := ⟨fuel - 1, by omega⟩
  obtain ⟨s', h1, h2⟩ := lexRead_op op X F s hv
  exact ⟨s', h1, Or.inr ⟨hX, Or.inl h2⟩⟩

theorem follow_weq (X : List UInt8) (hX : nonWs X) : Follow (42 :: 61 :: 61 :: 32 :: X) .weq X := by
  refine ⟨by simp; omega, ?_⟩
  intro fuel s hv hf
  obtain ⟨F, rfl⟩ : ∃ F, fuel = F + 1 := ⟨fuel - 1, by omega⟩
  obtain ⟨s', h1, h2⟩ := lexRead_weq X F s hv
  exact ⟨s', h1, Or.inr ⟨hX, Or.inl h2⟩⟩

theorem follow_rel {name : List Char} (hn : IdSeg name) {rest T : List UInt8} (h : Sp rest T) :
    Follow (segBytes name ++ 63 :: rest) (.rel name) T := by
  refine ⟨by have := h.len; simp; omega, ?_⟩
  intro fuel s hv hf
  obtain ⟨s', h1, h2⟩ := lexRead_rel name hn rest fuel s hv (by simp at hf; omega)
  exact ⟨s', h1, h.pos h2⟩

/-! ### the fragment -/

/-- literals the proofs reach: Bool, Symbol, Ref (with or without an ASCII display name), ASCII Str
and Uri (every escape the writer produces included) -/
def OkLit : Val → Prop
  | .bool _ => True
  | .sym s => SymSeg s
  | .ref id Option.none => RefSeg id
  | .ref id (some d) => RefSeg id ∧ AsciiStr d
  | .str s => AsciiStr s
  | .uri s => AsciiStr s
  | _ => False

mutual
/-- the terms of the proved fragment (a lone `not` is the operator, not a name) -/
def OkT : Term → Prop
  | .parens o => o ≠ .nil ∧ AllO o
  | .has p => WFPath p ∧ p ≠ kwNot
  | .missing p => WFPath p
  | .isA s => SymSeg s
  | .weq p r => (WFPath p ∧ p ≠ kwNot) ∧ RefSeg r.id
  | .rel r t ref => IdSeg r ∧ (∀ x, t = some x → SymSeg x) ∧ (∀ rv, ref = some rv → RefSeg rv.id)
  | .cmp p _ v => (WFPath p ∧ p ≠ kwNot) ∧ OkLit v
def AllA : Ands → Prop
  | .nil => True
  | .cons t ts => OkT t ∧ AllA ts
def AllO : Ors → Prop
  | .nil => True
  | .cons a as => (a ≠ .nil ∧ AllA a) ∧ AllO as
end

mutual
/-- what the parser returns for the printed tree: the tree itself, the Ref operand of `*==` and of a
relation without its display name (`Display for Ref` does not print it) -/
def imgT : Term → Term
  | .parens o => .parens (imgO o)
  | .weq p r => .weq p { id := r.id, dis := Option.none }
  | .rel r t (some rv) => .rel r t (some { id := rv.id, dis := Option.none })
  | t => t
def imgA : Ands → Ands
  | .nil => .nil
  | .cons t ts => .cons (imgT t) (imgA ts)
def imgO : Ors → Ors
  | .nil => .nil
  | .cons a as => .cons (imgA a) (imgO as)
end

mutual
/-- nesting depth of groups -/
def nestT : Term → Nat
  | .parens o => nestO o + 1
  | _ => 0
def nestA : Ands → Nat
  | .nil => 0
  | .cons t ts => max (nestT t) (nestA ts)
def nestO : Ors → Nat
  | .nil => 0
  | .cons a as => max (nestA a) (nestO as)
end

mutual
/-- parser calls on the way through a tree (what the fuel has to pay besides the lexer's share) -/
def costT : Term → Nat
  | .parens o => costO o + 2
  | _ => 1
def costA : Ands → Nat
  | .nil => 1
  | .cons t ts => costT t + costA ts + 1
def costO : Ors → Nat
  | .nil => 1
  | .cons a as => costA a + costO as + 1
end

def isCont : FTok → Bool
  | .none => true
  | .path _ => true
  | .rparen => true
  | _ => false

theorem lower_ok : ∀ c : UInt8, (!isLowerB c || (!isWsB c && !(c == 63) && !(c == 45) && !(c == 34))) = true := by
  apply forall_u8
  decide +kernel

theorem okHead_lower {b : UInt8} {r : List UInt8} (h : isLowerB b = true) : okHead (b :: r) := by
  have := lower_ok b
  simp only [h, Bool.not_true, Bool.false_or, Bool.and_eq_true, Bool.not_eq_true'] at this
  exact ⟨b, r, rfl, this.1.1.1, this.1.1.2, this.1.2, this.2⟩

theorem okHead_append {X Y : List UInt8} (h : okHead X) : okHead (X ++ Y) := by
  obtain ⟨c, r, hX, h1⟩ := h
  exact ⟨c, r ++ Y, by simp [hX], h1⟩

theorem nonWs_append {X Y : List UInt8} (h : nonWs X) : nonWs (X ++ Y) := by
  obtain ⟨c, r, hX, h1⟩ := h
  exact ⟨c, r ++ Y, by simp [hX], h1⟩

theorem kwNot_seg : IdSeg ['n', 'o', 't'] := by decide
theorem kwAnd_seg : IdSeg ['a', 'n', 'd'] := by decide
theorem kwOr_seg : IdSeg ['o', 'r'] := by decide
theorem kwTrue_seg : IdSeg ['t', 'r', 'u', 'e'] := by decide
theorem kwFalse_seg : IdSeg ['f', 'a', 'l', 's', 'e'] := by decide

theorem path_head {p : Path} (h : WFPath p) : okHead (pathBytes p) := by
  obtain ⟨b, r, hb, hl⟩ := pathBytes_head p h.1 h.2
  rw [hb]; exact okHead_lower hl

theorem seg_head {seg : List Char} (h : IdSeg seg) : okHead (segBytes seg) := by
  obtain ⟨b, r, hb, hl⟩ := segBytes_head h
  rw [hb]; exact okHead_lower hl

theorem okHead_byte (c : UInt8) (r : List UInt8) (h : (!isWsB c && !(c == 63) && !(c == 45) && !(c == 34)) = true) :
    okHead (c :: r) := by
  simp only [Bool.and_eq_true, Bool.not_eq_true'] at h
  exact ⟨c, r, rfl, h.1.1.1, h.1.1.2, h.1.2, h.2⟩

theorem term_head : (t : Term) → OkT t → okHead (printTerm t)
  | .parens o, _ => by simp only [printTerm, List.cons_append]; exact okHead_byte 40 _ (by decide)
  | .has p, h => by
    have hw : WFPath p := h.1
    simp only [printTerm, printPath_eq p hw.2]; exact path_head hw
  | .missing p, _ => by
    simp only [printTerm]
    exact ⟨110, [111, 116, 32] ++ printPath p, by simp [bytesOfAscii], by decide, by decide, by decide, by decide⟩
  | .isA _, _ => by simp only [printTerm, List.cons_append]; exact okHead_byte 94 _ (by decide)
  | .weq p _, h => by
    have hw : WFPath p := h.1.1
    simp only [printTerm, printPath_eq p hw.2, List.append_assoc]; exact okHead_append (path_head hw)
  | .rel r _ _, h => by
    simp only [printTerm, h.1.enc, List.append_assoc]; exact okHead_append (seg_head h.1)
  | .cmp p _ _, h => by
    have hw : WFPath p := h.1.1
    simp only [printTerm, printPath_eq p hw.2, List.append_assoc]; exact okHead_append (path_head hw)

theorem ands_head (t : Term) (ts : Ands) (h : OkT t) : okHead (printAnds (.cons t ts)) := by
  cases ts with
  | nil => simpa [printAnds] using term_head t h
  | cons u us => simp only [printAnds]; rw [List.append_assoc]; exact okHead_append (term_head t h)

theorem ors_head (t : Term) (ts : Ands) (as : Ors) (h : OkT t) : okHead (printOrs (.cons (.cons t ts) as)) := by
  cases as with
  | nil => simpa [printOrs] using ands_head t ts h
  | cons u us => simp only [printOrs]; rw [List.append_assoc]; exact okHead_append (ands_head t ts h)

theorem cont_has (tok : FTok) (h : isCont tok = true) (F : Nat) (l : FLex) (p : Path) :
    (if tok.isNone then Res.ok (Term.has p, l) else parseCmpOrWeq F l tok p) = .ok (.has p, l) := by
  cases tok <;> simp [isCont, FTok.isNone, parseCmpOrWeq, FTok.cmpOp] at *

theorem readTry_ok {F : Nat} {l : FLex} {s' : Scan} {tok : FTok} (h : lexRead F l.sc = .ok s' tok) :
    l.readTry F = .ok (true, { sc := s', cur := tok }) := by simp [FLex.readTry, h]
theorem readOk_ok {F : Nat} {l : FLex} {s' : Scan} {tok : FTok} (h : lexRead F l.sc = .ok s' tok) :
    l.readOk F = .ok { sc := s', cur := tok } := by simp [FLex.readOk, FLex.readTry, h]
theorem read_ok {F : Nat} {l : FLex} {s' : Scan} {tok : FTok} (h : lexRead F l.sc = .ok s' tok) :
    l.read F = .ok { sc := s', cur := tok } := by simp [FLex.read, h]

theorem sepAnd_eq : sepAnd = 32 :: (segBytes ['a', 'n', 'd'] ++ [32]) := by decide
theorem sepOr_eq : sepOr = 32 :: (segBytes ['o', 'r'] ++ [32]) := by decide
theorem notSp_eq : bytesOfAscii "not " = segBytes ['n', 'o', 't'] ++ [32] := by decide
theorem weqSp_eq : bytesOfAscii " *== " = [32, 42, 61, 61, 32] := by decide
theorem true_eq : bytesOfAscii "true" = segBytes ['t', 'r', 'u', 'e'] := by decide
theorem false_eq : bytesOfAscii "false" = segBytes ['f', 'a', 'l', 's', 'e'] := by decide

/-- the text between two terms: one space, `and`, one space -/
theorem sep_and (X : List UInt8) (hX : okHead X) :
    Cont (sepAnd ++ X) (segBytes ['a', 'n', 'd'] ++ 32 :: X) ∧
    Follow (segBytes ['a', 'n', 'd'] ++ 32 :: X) (.path kwAnd) X := by
  refine ⟨Or.inr ⟨by simp [sepAnd_eq], ?_⟩, follow_kw _ kwAnd_seg X hX⟩
  exact okHead_append (seg_head kwAnd_seg)

theorem sep_or (X : List UInt8) (hX : okHead X) :
    Cont (sepOr ++ X) (segBytes ['o', 'r'] ++ 32 :: X) ∧
    Follow (segBytes ['o', 'r'] ++ 32 :: X) (.path kwOr) X := by
  refine ⟨Or.inr ⟨by simp [sepOr_eq], ?_⟩, follow_kw _ kwOr_seg X hX⟩
  exact okHead_append (seg_head kwOr_seg)

theorem At.eof_false {l : FLex} {tok : FTok} {X : List UInt8} (h : At l tok X) (hX : okHead X) : l.sc.eof = false :=
  h.2.eof_false hX.nonWs

/-- `tok` is not the keyword `kw` -/
def notKw (tok : FTok) (kw : Path) : Prop := tok.isPath kw = false

/-- the token a printed literal is read as (`true` / `false` are read as one-segment paths) -/
def litTok : Val → FTok
  | .bool true => .path kwTrue
  | .bool false => .path kwFalse
  | v => .val v

theorem follow_lit : (v : Val) → OkLit v → ∀ {rest T : List UInt8}, Cont rest T →
    Follow (printVal v ++ rest) (litTok v) T
  | .bool true, _, rest, T, hC => by
    have := follow_path (p := kwTrue) ⟨by simp [kwTrue], by simpa [kwTrue] using kwTrue_seg⟩ hC
    simpa [printVal, true_eq, pathBytes, kwTrue, litTok] using this
  | .bool false, _, rest, T, hC => by
    have := follow_path (p := kwFalse) ⟨by simp [kwFalse], by simpa [kwFalse] using kwFalse_seg⟩ hC
    simpa [printVal, false_eq, pathBytes, kwFalse, litTok] using this
  | .sym s, h, rest, T, hC => by
    have hs : SymSeg s := h
    have := follow_sym hs hC.sp
    simpa [printVal, encode, enc, hs.1.enc, litTok] using this
  | .ref id Option.none, h, rest, T, hC => by
    have hid : RefSeg id := h
    have := follow_ref hid hC
    simpa [printVal, encode, enc, hid.enc, litTok] using this
  | .ref id (some d), h, rest, T, hC => by
    have hid : RefSeg id := h.1
    have := follow_refdis hid h.2 hC.sp
    simpa [printVal, encode, enc, hid.enc, litTok] using this
  | .null, h, _, _, _ => absurd h (by simp [OkLit])
  | .remove, h, _, _, _ => absurd h (by simp [OkLit])
  | .marker, h, _, _, _ => absurd h (by simp [OkLit])
  | .na, h, _, _, _ => absurd h (by simp [OkLit])
  | .num _, h, _, _, _ => absurd h (by simp [OkLit])
  | .str cs, h, rest, T, hC => by
    have := follow_str (cs := cs) h hC.sp
    simpa [printVal, encode, enc, litTok] using this
  | .uri cs, h, rest, T, hC => by
    have := follow_uri (cs := cs) h hC.sp
    simpa [printVal, encode, enc, litTok] using this
  | .date _, h, _, _, _ => absurd h (by simp [OkLit])
  | .time _, h, _, _, _ => absurd h (by simp [OkLit])
  | .dateTime _, h, _, _, _ => absurd h (by simp [OkLit])
  | .coord _ _, h, _, _, _ => absurd h (by simp [OkLit])
  | .xstr _ _, h, _, _, _ => absurd h (by simp [OkLit])
  | .list _, h, _, _, _ => absurd h (by simp [OkLit])
  | .dict _, h, _, _, _ => absurd h (by simp [OkLit])
  | .grid _ _ _ _, h, _, _, _ => absurd h (by simp [OkLit])

theorem lit_head (v : Val) (h : OkLit v) : nonWs (printVal v) := by
  cases v <;> simp [OkLit] at h
  case bool b =>
    cases b
    · exact ⟨102, [97, 108, 115, 101], by simp [printVal, bytesOfAscii], by decide⟩
    · exact ⟨116, [114, 117, 101], by simp [printVal, bytesOfAscii], by decide⟩
  case sym s => exact ⟨94, encChars s, by simp [printVal, encode, enc], by decide⟩
  case str cs => exact ⟨34, cs.flatMap encStrChar ++ [34], by simp [printVal, encode, enc, encQuoted], by decide⟩
  case uri cs => exact ⟨96, cs.flatMap encUriChar ++ [96], by simp [printVal, encode, enc, encUri], by decide⟩
  case ref id dis =>
    cases dis with
    | none => exact ⟨64, encChars id, by simp [printVal, encode, enc], by decide⟩
    | some d => exact ⟨64, encChars id ++ [32] ++ encQuoted d, by simp [printVal, encode, enc], by decide⟩

theorem parseCmp_lit (v : Val) (h : OkLit v) (F : Nat) (l : FLex) (s' : Scan) (p : Path) (op : CmpOp)
    (hr : lexRead F l.sc = .ok s' (litTok v)) :
    parseCmp F l p op = .ok (.cmp p op v, { sc := s', cur := litTok v }) := by
  unfold parseCmp
  rw [read_ok hr]
  cases v <;> simp [OkLit] at h <;> try (simp [litTok]; done)
  case bool b => cases b <;> simp [litTok, kwTrue, kwFalse]


theorem okHead_op (op : CmpOp) (X : List UInt8) : okHead (printOp op ++ X) := by
  cases op <;> simp only [printOp, List.cons_append, List.nil_append] <;> exact okHead_byte _ _ (by decide)

theorem cmpOp_opTok (op : CmpOp) : (opTok op).cmpOp = some op := by cases op <;> rfl
theorem opTok_notNone (op : CmpOp) : (opTok op).isNone = false := by cases op <;> rfl

set_option maxHeartbeats 2000000 in
mutual
theorem termR_ok : (t : Term) → OkT t → ∀ (rest T T' : List UInt8) (tok' : FTok) (d fuelL fuelP N : Nat)
    (s : Scan), Cont rest T → Follow T tok' T' → isCont tok' = true →
    Pos s (printTerm t ++ rest) → d + nestT t ≤ 64 →
    (printTerm t ++ rest).length + 8 ≤ N → N ≤ fuelL → costT t + N ≤ fuelP →
    ∃ s1 tok1 l', lexRead fuelL s = .ok s1 tok1 ∧ parseTerm fuelP d { sc := s1, cur := tok1 } = .ok (imgT t, l')
      ∧ At l' tok' T'
  | .has p, hsk, rest, T, T', tok', d, fuelL, fuelP, N, s, hC, hF, hc, hp, hd, hN, hL, hP => by
    have hw : WFPath p := hsk.1
    have hnn : (p == kwNot) = false := by simpa using hsk.2
    simp only [printTerm, printPath_eq p hw.2] at hp hN
    have hTl := hC.len
    obtain ⟨s1, h1, h2⟩ := read_pos (follow_path hw hC) fuelL s hp (by simp at hN ⊢; omega)
    obtain ⟨F, rfl⟩ : ∃ F, fuelP = F + 1 := ⟨fuelP - 1, by simp [costT] at hP; omega⟩
    obtain ⟨s2, h4, h5⟩ := read_pos hF F s1 h2 (by simp [costT] at hP hN; omega)
    refine ⟨s1, .path p, { sc := s2, cur := tok' }, h1, ?_, rfl, h5⟩
    unfold parseTerm
    simp only [hnn, Bool.false_eq_true, if_false, imgT]
    rw [readTry_ok (l := { sc := s1, cur := .path p }) h4]
    exact cont_has tok' hc F _ p
  | .missing p, hsk, rest, T, T', tok', d, fuelL, fuelP, N, s, hC, hF, hc, hp, hd, hN, hL, hP => by
    have hw : WFPath p := hsk
    have htxt : printTerm (.missing p) ++ rest = segBytes ['n', 'o', 't'] ++ 32 :: (pathBytes p ++ rest) := by
      simp [printTerm, printPath_eq p hw.2, notSp_eq]
    rw [htxt] at hp hN
    have hTl := hC.len
    have hX : okHead (pathBytes p ++ rest) := okHead_append (path_head hw)
    obtain ⟨s1, h1, h2⟩ := read_pos (follow_kw _ kwNot_seg _ hX) fuelL s hp (by omega)
    obtain ⟨F, rfl⟩ : ∃ F, fuelP = F + 1 := ⟨fuelP - 1, by simp [costT] at hP; omega⟩
    simp only [List.length_append, List.length_cons] at hN
    obtain ⟨s2, h4, h5⟩ := read_pos (follow_path hw hC) F s1 h2 (by simp [costT] at hP ⊢; omega)
    obtain ⟨s3, h7, h8⟩ := read_pos hF F s2 h5 (by simp [costT] at hP; omega)
    refine ⟨s1, .path kwNot, { sc := s3, cur := tok' }, h1, ?_, rfl, h8⟩
    unfold parseTerm
    have : (kwNot == kwNot) = true := by decide
    simp only [this, if_true, imgT]
    unfold parseNot
    rw [read_ok (l := { sc := s1, cur := .path kwNot }) h4]
    simp only
    rw [readOk_ok (l := { sc := s2, cur := .path p }) h7]
  | .parens o, hsk, rest, T, T', tok', d, fuelL, fuelP, N, s, hC, hF, hc, hp, hd, hN, hL, hP => by
    obtain ⟨hne, hall⟩ := hsk
    have htxt : printTerm (.parens o) ++ rest = 40 :: 32 :: (printOrs o ++ (32 :: 41 :: rest)) := by
      simp [printTerm]
    rw [htxt] at hp hN
    have hTl := hC.len
    -- the group is not empty: its text starts with a term
    have hX : okHead (printOrs o ++ (32 :: 41 :: rest)) := by
      cases o with
      | nil => exact absurd rfl hne
      | cons a as =>
        obtain ⟨⟨hane, haa⟩, _⟩ := hall
        cases a with
        | nil => exact absurd rfl hane
        | cons t ts => exact okHead_append (ors_head t ts as haa.1)
    obtain ⟨s1, h1, h2⟩ := read_pos (follow_lparen _ hX.nonWs) fuelL s hp (by omega)
    obtain ⟨F, rfl⟩ : ∃ F, fuelP = F + 2 := ⟨fuelP - 2, by simp [costT] at hP; omega⟩
    simp only [List.length_cons, List.length_append] at hN
    have hC' : Cont (32 :: 41 :: rest) (41 :: rest) := Or.inr ⟨rfl, okHead_byte 41 rest (by decide)⟩
    have ih := orsR_ok o hne hall (32 :: 41 :: rest) (41 :: rest) T .rparen (d + 1) F F N s1 hC' (follow_rparen hC)
      rfl (by simp [notKw, FTok.isPath]) (by simp [notKw, FTok.isPath]) h2 (by simp [nestT] at hd; omega)
      (by simp [List.length_append]; omega) (by simp [costT] at hP; omega) (by simp [costT] at hP; omega)
    obtain ⟨s2, tok2, l2, h4, h5, h6c, h6p⟩ := ih
    obtain ⟨s3, h7, h8⟩ := read_pos hF F l2.sc h6p (by simp [costT] at hP; omega)
    refine ⟨s1, .lparen, { sc := s3, cur := tok' }, h1, ?_, rfl, h8⟩
    have hdd : ¬ (maxNestingDepth ≤ d) := by simp [nestT, maxNestingDepth] at hd ⊢; omega
    unfold parseTerm
    simp only
    unfold parseParens
    simp only [ge_iff_le, hdd, if_false]
    rw [read_ok (l := { sc := s1, cur := .lparen }) h4]
    simp only [h5, h6c, FTok.isRParen, Bool.not_true, Bool.false_eq_true, if_false, imgT]
    rw [readOk_ok h7]
  | .isA sym, hsk, rest, T, T', tok', d, fuelL, fuelP, N, s, hC, hF, hc, hp, hd, hN, hL, hP => by
    have hs : SymSeg sym := hsk
    have htxt : printTerm (.isA sym) ++ rest = 94 :: (segBytes sym ++ rest) := by simp [printTerm, hs.1.enc]
    rw [htxt] at hp hN
    have hTl := hC.len
    obtain ⟨s1, h1, h2⟩ := read_pos (follow_sym hs hC.sp) fuelL s hp (by omega)
    obtain ⟨F, rfl⟩ : ∃ F, fuelP = F + 1 := ⟨fuelP - 1, by simp [costT] at hP; omega⟩
    simp only [List.length_cons, List.length_append] at hN
    obtain ⟨s2, h4, h5⟩ := read_pos hF F s1 h2 (by simp [costT] at hP; omega)
    refine ⟨s1, _, { sc := s2, cur := tok' }, h1, ?_, rfl, h5⟩
    unfold parseTerm
    simp only [imgT]
    rw [readOk_ok (l := { sc := s1, cur := .val (.sym sym) }) h4]
  | .weq p r, hsk, rest, T, T', tok', d, fuelL, fuelP, N, s, hC, hF, hc, hp, hd, hN, hL, hP => by
    obtain ⟨⟨hw, hnk⟩, hid⟩ := hsk
    have hnn : (p == kwNot) = false := by simpa using hnk
    have htxt : printTerm (.weq p r) ++ rest =
        pathBytes p ++ 32 :: (42 :: 61 :: 61 :: 32 :: (64 :: (segBytes r.id ++ rest))) := by
      simp [printTerm, printPath_eq p hw.2, weqSp_eq, printRef, hid.enc]
    rw [htxt] at hp hN
    have hTl := hC.len
    have hC1 : Cont (32 :: (42 :: 61 :: 61 :: 32 :: (64 :: (segBytes r.id ++ rest))))
        (42 :: 61 :: 61 :: 32 :: (64 :: (segBytes r.id ++ rest))) := Or.inr ⟨rfl, okHead_byte 42 _ (by decide)⟩
    obtain ⟨s1, h1, h2⟩ := read_pos (follow_path hw hC1) fuelL s hp (by simp at hN ⊢; omega)
    obtain ⟨F, rfl⟩ : ∃ F, fuelP = F + 1 := ⟨fuelP - 1, by simp [costT] at hP; omega⟩
    simp only [List.length_cons, List.length_append] at hN
    obtain ⟨s2, h3, h4⟩ := read_pos (follow_weq (64 :: (segBytes r.id ++ rest)) ⟨64, _, rfl, by decide⟩) F s1 h2
      (by simp [costT] at hP ⊢; omega)
    obtain ⟨s3, h5, h6⟩ := read_pos (follow_ref hid hC) F s2 h4 (by simp [costT] at hP ⊢; omega)
    obtain ⟨s4, h7, h8⟩ := read_pos hF F s3 h6 (by simp [costT] at hP; omega)
    refine ⟨s1, .path p, { sc := s4, cur := tok' }, h1, ?_, rfl, h8⟩
    unfold parseTerm
    simp only [hnn, Bool.false_eq_true, if_false, imgT]
    rw [readTry_ok (l := { sc := s1, cur := .path p }) h3]
    simp only [FTok.isNone, Bool.false_eq_true, if_false]
    unfold parseCmpOrWeq
    simp only [FTok.cmpOp]
    unfold parseWeq
    rw [read_ok (l := { sc := s2, cur := .weq }) h5]
    simp only
    rw [readOk_ok (l := { sc := s3, cur := .val (.ref r.id none) }) h7]
  | .cmp p op v, hsk, rest, T, T', tok', d, fuelL, fuelP, N, s, hC, hF, hc, hp, hd, hN, hL, hP => by
    obtain ⟨⟨hw, hnk⟩, hlit⟩ := hsk
    have hnn : (p == kwNot) = false := by simpa using hnk
    have htxt : printTerm (.cmp p op v) ++ rest =
        pathBytes p ++ 32 :: (printOp op ++ 32 :: (printVal v ++ rest)) := by
      simp [printTerm, printPath_eq p hw.2]
    rw [htxt] at hp hN
    have hTl := hC.len
    have hC1 : Cont (32 :: (printOp op ++ 32 :: (printVal v ++ rest))) (printOp op ++ 32 :: (printVal v ++ rest)) :=
      Or.inr ⟨rfl, okHead_op op _⟩
    obtain ⟨s1, h1, h2⟩ := read_pos (follow_path hw hC1) fuelL s hp (by simp at hN ⊢; omega)
    obtain ⟨F, rfl⟩ : ∃ F, fuelP = F + 1 := ⟨fuelP - 1, by simp [costT] at hP; omega⟩
    simp only [List.length_cons, List.length_append] at hN
    obtain ⟨s2, h3, h4⟩ := read_pos (follow_op op (printVal v ++ rest) (nonWs_append (lit_head v hlit))) F s1 h2
      (by simp [costT, List.length_append] at hP ⊢; omega)
    obtain ⟨s3, h5, h6⟩ := read_pos (follow_lit v hlit hC) F s2 h4 (by simp [costT, List.length_append] at hP ⊢; omega)
    obtain ⟨s4, h7, h8⟩ := read_pos hF F s3 h6 (by simp [costT] at hP; omega)
    refine ⟨s1, .path p, { sc := s4, cur := tok' }, h1, ?_, rfl, h8⟩
    unfold parseTerm
    simp only [hnn, Bool.false_eq_true, if_false, imgT]
    rw [readTry_ok (l := { sc := s1, cur := .path p }) h3]
    simp only [opTok_notNone, Bool.false_eq_true, if_false]
    unfold parseCmpOrWeq
    simp only [cmpOp_opTok]
    rw [parseCmp_lit v hlit F { sc := s2, cur := opTok op } s3 p op h5]
    simp only
    rw [readOk_ok (l := { sc := s3, cur := litTok v }) h7]
  | .rel r t ref, hsk, rest, T, T', tok', d, fuelL, fuelP, N, s, hC, hF, hc, hp, hd, hN, hL, hP => by
    obtain ⟨hr, ht, hrf⟩ := hsk
    have hTl := hC.len
    obtain ⟨F, rfl⟩ : ∃ F, fuelP = F + 1 := ⟨fuelP - 1, by simp [costT] at hP; omega⟩
    cases t with
    | none =>
      cases ref with
      | none =>
        have htxt : printTerm (.rel r none none) ++ rest = segBytes r ++ 63 :: rest := by simp [printTerm, hr.enc]
        rw [htxt] at hp hN
        simp only [List.length_cons, List.length_append] at hN
        obtain ⟨s1, h1, h2⟩ := read_pos (follow_rel hr hC.sp) fuelL s hp (by simp at hN ⊢; omega)
        obtain ⟨s2, h3, h4⟩ := read_pos hF F s1 h2 (by simp [costT] at hP; omega)
        refine ⟨s1, .rel r, { sc := s2, cur := tok' }, h1, ?_, rfl, h4⟩
        unfold parseTerm
        simp only [imgT]
        unfold parseRel
        rw [read_ok (l := { sc := s1, cur := .rel r }) h3]
        cases tok' <;> simp [isCont] at hc <;> simp
      | some rv =>
        have hid : RefSeg rv.id := hrf rv rfl
        have htxt : printTerm (.rel r none (some rv)) ++ rest = segBytes r ++ 63 :: (32 :: (64 :: (segBytes rv.id ++ rest))) := by
          simp [printTerm, hr.enc, printRef, hid.enc]
        rw [htxt] at hp hN
        simp only [List.length_cons, List.length_append] at hN
        have hS : Sp (32 :: (64 :: (segBytes rv.id ++ rest))) (64 :: (segBytes rv.id ++ rest)) :=
          Or.inr ⟨rfl, 64, _, rfl, by decide⟩
        obtain ⟨s1, h1, h2⟩ := read_pos (follow_rel hr hS) fuelL s hp (by simp at hN ⊢; omega)
        obtain ⟨s2, h3, h4⟩ := read_pos (follow_ref hid hC) F s1 h2 (by simp [costT] at hP ⊢; omega)
        obtain ⟨s3, h5, h6⟩ := read_pos hF F s2 h4 (by simp [costT] at hP; omega)
        refine ⟨s1, .rel r, { sc := s3, cur := tok' }, h1, ?_, rfl, h6⟩
        unfold parseTerm
        simp only [imgT]
        unfold parseRel
        rw [read_ok (l := { sc := s1, cur := .rel r }) h3]
        simp only
        rw [readOk_ok (l := { sc := s2, cur := .val (.ref rv.id none) }) h5]
    | some x =>
      have hx : SymSeg x := ht x rfl
      cases ref with
      | none =>
        have htxt : printTerm (.rel r (some x) none) ++ rest = segBytes r ++ 63 :: (32 :: (94 :: (segBytes x ++ rest))) := by
          simp [printTerm, hr.enc, hx.1.enc]
        rw [htxt] at hp hN
        simp only [List.length_cons, List.length_append] at hN
        have hS : Sp (32 :: (94 :: (segBytes x ++ rest))) (94 :: (segBytes x ++ rest)) :=
          Or.inr ⟨rfl, 94, _, rfl, by decide⟩
        obtain ⟨s1, h1, h2⟩ := read_pos (follow_rel hr hS) fuelL s hp (by simp at hN ⊢; omega)
        obtain ⟨s2, h3, h4⟩ := read_pos (follow_sym hx hC.sp) F s1 h2 (by simp [costT] at hP ⊢; omega)
        obtain ⟨s3, h5, h6⟩ := read_pos hF F s2 h4 (by simp [costT] at hP; omega)
        refine ⟨s1, .rel r, { sc := s3, cur := tok' }, h1, ?_, rfl, h6⟩
        unfold parseTerm
        simp only [imgT]
        unfold parseRel
        rw [read_ok (l := { sc := s1, cur := .rel r }) h3]
        simp only
        rw [read_ok (l := { sc := s2, cur := .val (.sym x) }) h5]
        cases tok' <;> simp [isCont] at hc <;> simp
      | some rv =>
        have hid : RefSeg rv.id := hrf rv rfl
        have htxt : printTerm (.rel r (some x) (some rv)) ++ rest =
            segBytes r ++ 63 :: (32 :: (94 :: (segBytes x ++ (32 :: (64 :: (segBytes rv.id ++ rest)))))) := by
          simp [printTerm, hr.enc, hx.1.enc, printRef, hid.enc]
        rw [htxt] at hp hN
        simp only [List.length_cons, List.length_append] at hN
        have hS : Sp (32 :: (94 :: (segBytes x ++ (32 :: (64 :: (segBytes rv.id ++ rest))))))
            (94 :: (segBytes x ++ (32 :: (64 :: (segBytes rv.id ++ rest))))) := Or.inr ⟨rfl, 94, _, rfl, by decide⟩
        have hS2 : Sp (32 :: (64 :: (segBytes rv.id ++ rest))) (64 :: (segBytes rv.id ++ rest)) :=
          Or.inr ⟨rfl, 64, _, rfl, by decide⟩
        obtain ⟨s1, h1, h2⟩ := read_pos (follow_rel hr hS) fuelL s hp (by simp at hN ⊢; omega)
        obtain ⟨s2, h3, h4⟩ := read_pos (follow_sym hx hS2) F s1 h2 (by simp [costT] at hP ⊢; omega)
        obtain ⟨s3, h5, h6⟩ := read_pos (follow_ref hid hC) F s2 h4 (by simp [costT] at hP ⊢; omega)
        obtain ⟨s4, h7, h8⟩ := read_pos hF F s3 h6 (by simp [costT] at hP; omega)
        refine ⟨s1, .rel r, { sc := s4, cur := tok' }, h1, ?_, rfl, h8⟩
        unfold parseTerm
        simp only [imgT]
        unfold parseRel
        rw [read_ok (l := { sc := s1, cur := .rel r }) h3]
        simp only
        rw [read_ok (l := { sc := s2, cur := .val (.sym x) }) h5]
        simp only
        rw [readOk_ok (l := { sc := s3, cur := .val (.ref rv.id none) }) h7]

theorem andTail_ok : (ts : Ands) → AllA ts → ∀ (rest T T' : List UInt8) (tok' : FTok) (d fuelP N : Nat) (l : FLex),
    Cont rest T → Follow T tok' T' → isCont tok' = true → notKw tok' kwAnd →
    (match ts with
     | .nil => At l tok' T'
     | .cons _ _ => At l (.path kwAnd) (printAnds ts ++ rest)) →
    d + nestA ts ≤ 64 → (printAnds ts ++ rest).length + 8 ≤ N → costA ts + N ≤ fuelP →
    ∃ l', andLoop fuelP d l = .ok (imgA ts, l') ∧ At l' tok' T'
  | .nil, _, rest, T, T', tok', d, fuelP, N, l, hC, hF, hc, hk, hAt, hd, hN, hP => by
    obtain ⟨F, rfl⟩ : ∃ F, fuelP = F + 1 := ⟨fuelP - 1, by simp [costA] at hP; omega⟩
    refine ⟨l, ?_, hAt⟩
    unfold andLoop
    have : l.cur.isPath kwAnd = false := by rw [hAt.1]; exact hk
    simp [this, imgA]
  | .cons u us, hall, rest, T, T', tok', d, fuelP, N, l, hC, hF, hc, hk, hAt, hd, hN, hP => by
    obtain ⟨hu, hus⟩ := hall
    obtain ⟨F, rfl⟩ : ∃ F, fuelP = F + 1 := ⟨fuelP - 1, by simp [costA] at hP; omega⟩
    simp only at hAt
    have heof := hAt.eof_false (okHead_append (ands_head u us hu))
    obtain ⟨hcur, hpos⟩ := hAt
    cases us with
    | nil =>
      simp only [printAnds] at hpos hN
      obtain ⟨s1, tok1, l1, h1, h2, h3⟩ := termR_ok u hu rest T T' tok' d F F N l.sc hC hF hc hpos
        (by simp [nestA] at hd; omega) hN (by simp [costA] at hP; omega) (by simp [costA] at hP; omega)
      obtain ⟨l', h4, h5⟩ := andTail_ok .nil trivial rest T T' tok' d F N l1 hC hF hc hk h3 (by simp [nestA] at hd ⊢; omega)
        (by simp [printAnds] at hN ⊢; omega) (by simp [costA] at hP ⊢; omega)
      refine ⟨l', ?_, h5⟩
      unfold andLoop
      simp only [hcur, FTok.isPath, beq_self_eq_true, if_true, heof, Bool.false_eq_true, if_false]
      rw [read_ok h1]
      simp only [h2, h4, imgA]
    | cons w ws =>
      have hX : okHead (printAnds (.cons w ws) ++ rest) := okHead_append (ands_head w ws hus.1)
      obtain ⟨hC1, hF1⟩ := sep_and _ hX
      have htxt : printAnds (.cons u (.cons w ws)) ++ rest = printTerm u ++ (sepAnd ++ (printAnds (.cons w ws) ++ rest)) := by
        simp [printAnds]
      rw [htxt] at hpos hN
      obtain ⟨s1, tok1, l1, h1, h2, h3⟩ := termR_ok u hu _ _ _ (.path kwAnd) d F F N l.sc hC1 hF1 rfl hpos
        (by simp [nestA] at hd; omega) hN (by simp [costA] at hP; omega) (by simp [costA] at hP; omega)
      obtain ⟨l', h4, h5⟩ := andTail_ok (.cons w ws) hus rest T T' tok' d F N l1 hC hF hc hk h3
        (by simp [nestA] at hd ⊢; omega) (by simp [List.length_append] at hN ⊢; omega) (by simp [costA] at hP ⊢; omega)
      refine ⟨l', ?_, h5⟩
      unfold andLoop
      simp only [hcur, FTok.isPath, beq_self_eq_true, if_true, heof, Bool.false_eq_true, if_false]
      rw [read_ok h1]
      simp only [h2, h4, imgA]

theorem orsR_ok : (o : Ors) → o ≠ .nil → AllO o → ∀ (rest T T' : List UInt8) (tok' : FTok) (d fuelL fuelP N : Nat)
    (s : Scan), Cont rest T → Follow T tok' T' → isCont tok' = true →
    notKw tok' kwAnd → notKw tok' kwOr →
    Pos s (printOrs o ++ rest) → d + nestO o ≤ 64 →
    (printOrs o ++ rest).length + 8 ≤ N → N ≤ fuelL → costO o + N ≤ fuelP →
    ∃ s1 tok1 l', lexRead fuelL s = .ok s1 tok1 ∧ parseOr fuelP d { sc := s1, cur := tok1 } = .ok (imgO o, l')
      ∧ At l' tok' T'
  | .nil, h, _, _, _, _, _, _, _, _, _, _, _, _, _, _, _, _, _, _, _, _ => absurd rfl h
  | .cons .nil as, _, h, _, _, _, _, _, _, _, _, _, _, _, _, _, _, _, _, _, _, _ => absurd rfl h.1.1
  | .cons (.cons t ts) as, _, hall, rest, T, T', tok', d, fuelL, fuelP, N, s, hC, hF, hc, hkA, hkO, hp, hd, hN, hL, hP => by
    obtain ⟨⟨_, hat, hats⟩, has⟩ := hall
    obtain ⟨F, rfl⟩ : ∃ F, fuelP = F + 2 := ⟨fuelP - 2, by simp [costO, costA] at hP; omega⟩
    -- what follows the first `And`: the end of this expression, or ` or ` and the next `And`
    have key : ∃ (rest1 T1 T1' : List UInt8) (tok1' : FTok),
        printOrs (.cons (.cons t ts) as) ++ rest = printAnds (.cons t ts) ++ rest1 ∧ Cont rest1 T1 ∧ Follow T1 tok1' T1'
        ∧ isCont tok1' = true ∧ notKw tok1' kwAnd ∧
        (match as with
         | .nil => tok1' = tok' ∧ T1' = T'
         | .cons _ _ => tok1' = .path kwOr ∧ T1' = printOrs as ++ rest) := by
      cases as with
      | nil => exact ⟨rest, T, T', tok', by simp [printOrs], hC, hF, hc, hkA, rfl, rfl⟩
      | cons b bs =>
        obtain ⟨⟨hbne, hba⟩, _⟩ := has
        cases b with
        | nil => exact absurd rfl hbne
        | cons w ws =>
          have hX : okHead (printOrs (.cons (.cons w ws) bs) ++ rest) := okHead_append (ors_head w ws bs hba.1)
          obtain ⟨hC1, hF1⟩ := sep_or _ hX
          exact ⟨_, _, _, .path kwOr, by simp [printOrs], hC1, hF1, rfl, by simp [notKw, FTok.isPath, kwOr, kwAnd], rfl, rfl⟩
    obtain ⟨rest1, T1, T1', tok1', htxt, hC1, hF1, hc1, hk1, hrel⟩ := key
    rw [htxt] at hp hN
    -- the first term
    have tkey : ∃ (rest2 T2 T2' : List UInt8) (tok2' : FTok),
        printAnds (.cons t ts) ++ rest1 = printTerm t ++ rest2 ∧ Cont rest2 T2 ∧ Follow T2 tok2' T2'
        ∧ isCont tok2' = true ∧
        (match ts with
         | .nil => tok2' = tok1' ∧ T2' = T1'
         | .cons _ _ => tok2' = .path kwAnd ∧ T2' = printAnds ts ++ rest1) := by
      cases ts with
      | nil => exact ⟨rest1, T1, T1', tok1', by simp [printAnds], hC1, hF1, hc1, rfl, rfl⟩
      | cons w ws =>
        have hX : okHead (printAnds (.cons w ws) ++ rest1) := okHead_append (ands_head w ws hats.1)
        obtain ⟨hC2, hF2⟩ := sep_and _ hX
        exact ⟨_, _, _, .path kwAnd, by simp [printAnds], hC2, hF2, rfl, rfl, rfl⟩
    obtain ⟨rest2, T2, T2', tok2', htxt2, hC2, hF2, hc2, hrel2⟩ := tkey
    rw [htxt2] at hp hN
    obtain ⟨s1, tokA, l1, h1, h2, h3⟩ := termR_ok t hat rest2 T2 T2' tok2' d fuelL F N s hC2 hF2 hc2 hp
      (by simp [nestO, nestA] at hd; omega) hN hL (by simp [costO, costA] at hP; omega)
    have hlen2 : (printAnds ts ++ rest1).length ≤ (printTerm t ++ rest2).length := by
      rw [← htxt2]; cases ts <;> simp [printAnds, List.length_append] <;> omega
    obtain ⟨l2, h4, h5⟩ := andTail_ok ts hats rest1 T1 T1' tok1' d F N l1 hC1 hF1 hc1 hk1
      (by cases ts with
          | nil => simp only at hrel2 ⊢; rw [← hrel2.1, ← hrel2.2]; exact h3
          | cons w ws => simp only at hrel2 ⊢; rw [← hrel2.1, ← hrel2.2]; exact h3)
      (by simp [nestO, nestA] at hd; omega) (by omega) (by simp [costO, costA] at hP; omega)
    have hlen1 : (printOrs as ++ rest).length ≤ (printAnds (.cons t ts) ++ rest1).length := by
      rw [← htxt]; cases as <;> simp [printOrs, List.length_append] <;> omega
    obtain ⟨l3, h6, h7⟩ := orTail_ok as has rest T T' tok' d (F + 1) N l2 hC hF hc hkA hkO
      (by cases as with
          | nil => simp only at hrel ⊢; rw [← hrel.1, ← hrel.2]; exact h5
          | cons b bs => simp only at hrel ⊢; rw [← hrel.1, ← hrel.2]; exact h5)
      (by simp [nestO] at hd; omega) (by rw [htxt2] at hlen1; omega) (by simp [costO, costA] at hP; omega)
    refine ⟨s1, tokA, l3, h1, ?_, h7⟩
    unfold parseOr
    unfold parseAnd
    simp only [h2, h4, h6, imgO, imgA]

theorem orTail_ok : (as : Ors) → AllO as → ∀ (rest T T' : List UInt8) (tok' : FTok) (d fuelP N : Nat) (l : FLex),
    Cont rest T → Follow T tok' T' → isCont tok' = true → notKw tok' kwAnd → notKw tok' kwOr →
    (match as with
     | .nil => At l tok' T'
     | .cons _ _ => At l (.path kwOr) (printOrs as ++ rest)) →
    d + nestO as ≤ 64 → (printOrs as ++ rest).length + 8 ≤ N → costO as + N ≤ fuelP →
    ∃ l', orLoop fuelP d l = .ok (imgO as, l') ∧ At l' tok' T'
  | .nil, _, rest, T, T', tok', d, fuelP, N, l, hC, hF, hc, hkA, hkO, hAt, hd, hN, hP => by
    obtain ⟨F, rfl⟩ : ∃ F, fuelP = F + 1 := ⟨fuelP - 1, by simp [costO] at hP; omega⟩
    refine ⟨l, ?_, hAt⟩
    unfold orLoop
    have : l.cur.isPath kwOr = false := by rw [hAt.1]; exact hkO
    simp [this, imgO]
  | .cons .nil bs, h, _, _, _, _, _, _, _, _, _, _, _, _, _, _, _, _, _ => absurd rfl h.1.1
  | .cons (.cons t ts) bs, hall, rest, T, T', tok', d, fuelP, N, l, hC, hF, hc, hkA, hkO, hAt, hd, hN, hP => by
    obtain ⟨F, rfl⟩ : ∃ F, fuelP = F + 1 := ⟨fuelP - 1, by simp [costO] at hP; omega⟩
    simp only at hAt
    have heof := hAt.eof_false (okHead_append (ors_head t ts bs hall.1.2.1))
    obtain ⟨hcur, hpos⟩ := hAt
    -- read the first token of the next `And`, parse it and the rest of the `Or`: this is `parse_or` again
    have hcost : costO (.cons (.cons t ts) bs) ≥ 2 := by simp [costO, costA]; omega
    obtain ⟨s1, tokA, l3, h1, h2, h3⟩ := orsR_ok (.cons (.cons t ts) bs) (by simp) hall rest T T' tok' d F (F + 1) N l.sc
      hC hF hc hkA hkO hpos hd hN (by omega) (by omega)
    refine ⟨l3, ?_, h3⟩
    -- `or_loop` after the keyword does what `parse_or` does
    unfold parseOr at h2
    unfold orLoop
    simp only [hcur, FTok.isPath, beq_self_eq_true, if_true, heof, Bool.false_eq_true, if_false]
    rw [read_ok h1]
    exact h2
end


theorem okHead_len {X : List UInt8} (h : okHead X) : 1 ≤ X.length := by
  obtain ⟨c, r, hX, _⟩ := h; simp [hX]

mutual
theorem costT_le : (t : Term) → OkT t → costT t + 4 ≤ 5 * (printTerm t).length
  | .parens o, h => by
    have := costO_le o h.2
    simp [costT, printTerm, List.length_append] at this ⊢; omega
  | .has p, h => by have := okHead_len (term_head (.has p) h); simp [costT] at this ⊢; omega
  | .missing p, h => by have := okHead_len (term_head (.missing p) h); simp [costT] at this ⊢; omega
  | .isA s, h => by have := okHead_len (term_head (.isA s) h); simp [costT] at this ⊢; omega
  | .weq p r, h => by have := okHead_len (term_head (.weq p r) h); simp [costT] at this ⊢; omega
  | .rel r t f, h => by have := okHead_len (term_head (.rel r t f) h); simp [costT] at this ⊢; omega
  | .cmp p o v, h => by have := okHead_len (term_head (.cmp p o v) h); simp [costT] at this ⊢; omega
theorem costA_le : (a : Ands) → AllA a → costA a ≤ 5 * (printAnds a).length + 1
  | .nil, _ => by simp [costA]
  | .cons t .nil, h => by
    have := costT_le t h.1
    simp [costA, printAnds] at this ⊢; omega
  | .cons t (.cons u us), h => by
    have h1 := costT_le t h.1
    have h2 := costA_le (.cons u us) h.2
    simp only [costA, printAnds, List.length_append] at h1 h2 ⊢
    have : sepAnd.length = 5 := by decide
    omega
theorem costO_le : (o : Ors) → AllO o → costO o ≤ 5 * (printOrs o).length + 4
  | .nil, _ => by simp [costO]
  | .cons a .nil, h => by
    have := costA_le a h.1.2
    simp [costO, printOrs] at this ⊢; omega
  | .cons a (.cons b bs), h => by
    have h1 := costA_le a h.1.2
    have h2 := costO_le (.cons b bs) h.2
    simp only [costO, printOrs, List.length_append] at h1 h2 ⊢
    have : sepOr.length = 4 := by decide
    omega
end

/-- print → parse on the fragment, with the fuel the cost function asks for -/
theorem print_parse_fuel (f : Ors) (hne : f ≠ .nil) (hall : AllO f) (hd : nestO f ≤ 64) (fuel : Nat)
    (hf : costO f + (printFilter f).length + 8 ≤ fuel) : parseFilter fuel (printFilter f) = .ok (imgO f) := by
  have hv := views_make (printFilter f)
  obtain ⟨s1, tok1, l', h1, h2, h3c, h3p⟩ := orsR_ok f hne hall [] [] [] .none 0 fuel fuel
    ((printFilter f).length + 8) (Scan.make (printFilter f)) (Or.inl ⟨rfl, rfl⟩) follow_nil rfl
    (by simp [notKw, FTok.isPath]) (by simp [notKw, FTok.isPath]) (Or.inl (by simpa [printFilter] using hv))
    (by omega) (by simp [printFilter]) (by omega) (by omega)
  unfold parseFilter
  simp only
  rw [read_ok (l := { sc := Scan.make (printFilter f), cur := .none }) h1]
  simp only [h2, h3c, FTok.isNone, if_true]

/-- … and with the fuel `Filter::try_from` is modelled with -/
theorem print_parse (f : Ors) (hne : f ≠ .nil) (hall : AllO f) (hd : nestO f ≤ 64) :
    filterOfBytes (printFilter f) = .ok (imgO f) := by
  unfold filterOfBytes
  apply print_parse_fuel f hne hall hd
  have := costO_le f hall
  simp only [printFilter, fuelFor] at this ⊢
  omega

end Hs.FText
