/-
  C04 (write direction), rung 5a: the image function of the reference reader, the extra condition on decimal
  texts (`strictV`), the framing statement `Rd` of one value through `value`, and `Rd` for all scalar kinds.
-/
import Hs.Lemmas.SpecRtDateVal
namespace Hs.Spec
open Hs Hs.Zinc Hs.Scan

/-! ### the image: what the reference reader returns for the writer's text of a value -/

def specNumI (n : Num) : Num :=
  if Flt.isNaNBits n.v.bits then { v := { bits := nanBits, txt := "NaN".toList }, unit := none }
  else if Flt.isInfBits n.v.bits then
    (if Flt.signBit n.v.bits then { v := { bits := negInfBits, txt := "-inf".toList }, unit := none }
     else { v := { bits := posInfBits, txt := "inf".toList }, unit := none })
  else { v := { bits := specBits, txt := n.v.txt }, unit := n.unit }

mutual
def specImg : Val → Val
  | .num n => .num (specNumI n)
  | .coord a b => .coord { bits := specBits, txt := a.txt } { bits := specBits, txt := b.txt }
  | .dateTime t =>
    .dateTime { secs := 0, ns := 0, off := 0, zone := [], tzid := [],
                txt := if t.tzid == "UTC".toList then t.txt else t.txt ++ [' '] ++ t.zone }
  | .list xs => .list (specImgs xs)
  | .dict d => .dict (specImgT d)
  | .grid md cols rows ver => .grid (specImgO md) (specImgC cols) (specImgR rows) ver
  | v => v
def specImgs : Vals → Vals
  | .nil => .nil
  | .cons v vs => .cons (specImg v) (specImgs vs)
def specImgT : Tags → Tags
  | .nil => .nil
  | .cons k v t => .cons k (specImg v) (specImgT t)
def specImgO : OTags → OTags
  | .none => .none
  | .some t => .some (specImgT t)
def specImgC : Cols → Cols
  | .nil => .nil
  | .cons n m c => .cons n (specImgO m) (specImgC c)
def specImgR : Rows → Rows
  | .nil => .nil
  | .cons r rs => .cons (specImgT r) (specImgR rs)
end

/-! ### decimal texts as the grammar has them -/

/-- the decimal text of a finite number / coordinate component has a digit on both sides of the point -/
def strictText (txt : List Char) : Bool := strictDec (txt.map byteOf)

def strictNum (n : Num) : Bool :=
  Flt.isNaNBits n.v.bits || Flt.isInfBits n.v.bits || strictText n.v.txt

mutual
/-- every finite number and every coordinate inside the value prints as `-?d+(.d+)?` (what Rust's
`Display for f64` produces; `wfV` alone also allows `5.` and `.5`, which `f64::from_str` accepts and the
grammar does not) -/
def strictV : Val → Bool
  | .num n => strictNum n
  | .coord a b => strictText a.txt && strictText b.txt
  | .list xs => strictVs xs
  | .dict d => strictT d
  | .grid md cols rows _ => strictO md && strictC cols && strictR rows
  | _ => true
def strictVs : Vals → Bool
  | .nil => true
  | .cons v vs => strictV v && strictVs vs
def strictT : Tags → Bool
  | .nil => true
  | .cons _ v t => strictV v && strictT t
def strictO : OTags → Bool
  | .none => true
  | .some t => strictT t
def strictC : Cols → Bool
  | .nil => true
  | .cons _ md c => strictO md && strictC c
def strictR : Rows → Bool
  | .nil => true
  | .cons r rs => strictT r && strictR rs
end

/-! ### the framing statement -/

/-- the first byte of a value's text -/
def isStartB (b : UInt8) : Bool :=
  isDigitB b || isUpperB b || b == 45 || b == 34 || b == 96 || b == 64 || b == 94 || b == 91 || b == 123 || b == 60

def Start (bs : List UInt8) : Prop := ∃ b r, bs = b :: r ∧ isStartB b = true

/-- reading `enc v true ++ rest` with `value` yields the image of `v` and leaves `rest` -/
def Rd (v : Val) : Prop :=
  Start (enc v true) ∧
  ∀ (fuel : Nat) (rest : List UInt8), Delim rest → (enc v true).length + 2 ≤ fuel →
    value fuel (enc v true ++ rest) = some (specImg v, rest)

theorem start_classes : ∀ b : UInt8, (!isStartB b ||
    (b != 32 && b != 9 && b != 10 && b != 13 && b != 44 && b != 93 && b != 62 && b != 125 && !isLowerB b)) = true :=
  all_u8 (fun b => (!isStartB b ||
    (b != 32 && b != 9 && b != 10 && b != 13 && b != 44 && b != 93 && b != 62 && b != 125 && !isLowerB b)))
    (by decide +kernel)

theorem start_class {b : UInt8} (h : isStartB b = true) :
    b ≠ 32 ∧ b ≠ 9 ∧ b ≠ 10 ∧ b ≠ 13 ∧ b ≠ 44 ∧ b ≠ 93 ∧ b ≠ 62 ∧ b ≠ 125 ∧ isLowerB b = false := by
  have := start_classes b
  simp only [h, Bool.not_true, Bool.false_or, Bool.and_eq_true, bne_iff_ne, ne_eq, Bool.not_eq_eq_eq_not] at this
  obtain ⟨⟨⟨⟨⟨⟨⟨⟨h1, h2⟩, h3⟩, h4⟩, h5⟩, h6⟩, h7⟩, h8⟩, h9⟩ := this
  exact ⟨h1, h2, h3, h4, h5, h6, h7, h8, h9⟩

theorem Start.noWs {bs : List UInt8} (h : Start bs) (tl : List UInt8) : skipWs (bs ++ tl) = bs ++ tl := by
  obtain ⟨b, r, rfl, hb⟩ := h
  have := start_class hb
  exact skipWs_cons this.1 this.2.1

/-- a scalar through `value`: not `[`, `{`, `<` -/
theorem value_scalar (f : Nat) (b : UInt8) (r : List UInt8) (h1 : b ≠ 91) (h2 : b ≠ 123) (h3 : b ≠ 60) :
    value (f + 1) (b :: r) = scalar f (b :: r) := by
  rw [value.eq_def]
  simp [h1, h2, h3]

/-- scalar kinds: from the `scalar` lemma to `Rd` -/
theorem Rd_of_scalar (v : Val) (b : UInt8) (r : List UInt8) (he : enc v true = b :: r)
    (hb : isStartB b = true) (h1 : b ≠ 91) (h2 : b ≠ 123) (h3 : b ≠ 60)
    (h : ∀ (f : Nat) (rest : List UInt8), Delim rest → scalar (f + 1) (enc v true ++ rest) = some (specImg v, rest)) :
    Rd v := by
  refine ⟨⟨b, r, he, hb⟩, ?_⟩
  intro fuel rest hd hf
  obtain ⟨f, rfl⟩ : ∃ f, fuel = f + 2 := ⟨fuel - 2, by omega⟩
  have := h f rest hd
  rw [he] at this ⊢
  simp only [List.cons_append] at this ⊢
  rw [value_scalar (f + 1) b _ h1 h2 h3, this]

/-! ### the scalar kinds -/

theorem rd_null : Rd .null :=
  Rd_of_scalar .null 78 [] (by rw [enc]) (by decide) (by decide) (by decide) (by decide)
    (fun f rest hd => by rw [enc]; exact scalar_null f rest hd.kwEnd)
theorem rd_marker : Rd .marker :=
  Rd_of_scalar .marker 77 [] (by rw [enc]) (by decide) (by decide) (by decide) (by decide)
    (fun f rest hd => by rw [enc]; exact scalar_marker f rest hd.kwEnd)
theorem rd_remove : Rd .remove :=
  Rd_of_scalar .remove 82 [] (by rw [enc]) (by decide) (by decide) (by decide) (by decide)
    (fun f rest hd => by rw [enc]; exact scalar_remove f rest hd.kwEnd)
theorem rd_na : Rd .na :=
  Rd_of_scalar .na 78 [65] (by rw [enc]) (by decide) (by decide) (by decide) (by decide)
    (fun f rest hd => by rw [enc]; exact scalar_na f rest hd.kwEnd)
theorem rd_bool (x : Bool) : Rd (.bool x) := by
  cases x
  · exact Rd_of_scalar (.bool false) 70 [] (by rw [enc]; rfl) (by decide) (by decide) (by decide) (by decide)
      (fun f rest hd => by rw [enc]; exact scalar_false f rest hd.kwEnd)
  · exact Rd_of_scalar (.bool true) 84 [] (by rw [enc]; rfl) (by decide) (by decide) (by decide) (by decide)
      (fun f rest hd => by rw [enc]; exact scalar_true f rest hd.kwEnd)

theorem rd_str (s : List Char) : Rd (.str s) :=
  Rd_of_scalar (.str s) 34 (s.flatMap encStrChar ++ [34]) (by rw [enc]; simp [encQuoted]) (by decide) (by decide)
    (by decide) (by decide) (fun f rest _ => by rw [enc]; exact scalar_str f s rest)

theorem rd_uri (s : List Char) : Rd (.uri s) :=
  Rd_of_scalar (.uri s) 96 (s.flatMap encUriChar ++ [96]) (by rw [enc]; simp [encUri]) (by decide) (by decide)
    (by decide) (by decide) (fun f rest _ => by rw [enc]; exact scalar_uri f s rest)

theorem rd_ref (id : List Char) (dis : Option (List Char)) (hid : isRefId id = true) : Rd (.ref id dis) := by
  cases dis with
  | none =>
    refine Rd_of_scalar (.ref id none) 64 (encChars id) (by rw [enc]; simp) (by decide) (by decide)
      (by decide) (by decide) (fun f rest hd => ?_)
    have he : enc (.ref id none) true = 64 :: encChars id := by rw [enc]; simp
    rw [he]
    exact scalar_ref_nodis f id hid rest hd.refEnd
  | some d =>
    refine Rd_of_scalar (.ref id (some d)) 64 (encChars id ++ 32 :: encQuoted d) (by rw [enc]; simp)
      (by decide) (by decide) (by decide) (by decide) (fun f rest _ => ?_)
    have he : enc (.ref id (some d)) true = 64 :: encChars id ++ 32 :: encQuoted d := by rw [enc]; simp
    rw [he]
    exact scalar_ref_dis f id hid d rest

theorem rd_sym (s : List Char) (hs : isSymBody s = true) : Rd (.sym s) := by
  refine Rd_of_scalar (.sym s) 94 (encChars s) (by rw [enc]; simp) (by decide) (by decide)
    (by decide) (by decide) (fun f rest hd => ?_)
  have he : enc (.sym s) true = 94 :: encChars s := by rw [enc]; simp
  rw [he]
  exact scalar_sym f s hs rest hd.stop_ref

theorem upper_start : ∀ b : UInt8, (!isUpperB b || (isStartB b && b != 91 && b != 123 && b != 60)) = true :=
  all_u8 (fun b => (!isUpperB b || (isStartB b && b != 91 && b != 123 && b != 60))) (by decide +kernel)
theorem digit_start : ∀ b : UInt8, (!(isDigitB b || b == 45) || (isStartB b && b != 91 && b != 123 && b != 60)) = true :=
  all_u8 (fun b => (!(isDigitB b || b == 45) || (isStartB b && b != 91 && b != 123 && b != 60))) (by decide +kernel)

theorem start_of_upper {b : UInt8} (h : isUpperB b = true) : isStartB b = true ∧ b ≠ 91 ∧ b ≠ 123 ∧ b ≠ 60 := by
  have := upper_start b
  simp only [h, Bool.not_true, Bool.false_or, Bool.and_eq_true, bne_iff_ne, ne_eq] at this
  exact ⟨this.1.1.1, this.1.1.2, this.1.2, this.2⟩
theorem start_of_digit {b : UInt8} (h : (isDigitB b || b == 45) = true) :
    isStartB b = true ∧ b ≠ 91 ∧ b ≠ 123 ∧ b ≠ 60 := by
  have := digit_start b
  simp only [h, Bool.not_true, Bool.false_or, Bool.and_eq_true, bne_iff_ne, ne_eq] at this
  exact ⟨this.1.1.1, this.1.1.2, this.1.2, this.2⟩

theorem rd_xstr (ty v : List Char) (hty : isXStrType ty = true) : Rd (.xstr ty v) := by
  have hty' := hty
  simp only [isXStrType, Bool.and_eq_true] at hty'
  cases ty with
  | nil => simp [isUpperName] at hty'
  | cons c r =>
    have h1 := hty'.1
    simp only [isUpperName, Bool.and_eq_true, decide_eq_true_eq] at h1
    have he : enc (.xstr (c :: r) v) true = byteOf c :: (encChars r ++ 40 :: encQuoted v ++ [41]) := by
      rw [enc, upperFirst_of_upper hty'.1, encChars_cons, encChar_ascii c h1.1.1]; simp [byteOf]
    obtain ⟨hs, n1, n2, n3⟩ := start_of_upper h1.1.2
    exact Rd_of_scalar _ _ _ he hs n1 n2 n3 (fun f rest _ => scalar_xstr f (c :: r) hty v rest)

theorem rd_num (n : Num) (hn : numOk n = true) (hs : strictNum n = true) : Rd (.num n) := by
  unfold numOk at hn
  unfold strictNum at hs
  by_cases h1 : Flt.isNaNBits n.v.bits = true
  · have he : enc (.num n) true = [78, 97, 78] := by rw [enc]; simp [encNum, h1]; decide
    refine Rd_of_scalar _ 78 [97, 78] he (by decide) (by decide) (by decide) (by decide) (fun f rest hd => ?_)
    rw [he]
    simpa [specImg, specNumI, h1] using scalar_nan f rest hd.kwEnd
  · simp only [h1, Bool.false_eq_true, if_false, Bool.false_or] at hn hs
    by_cases h2 : Flt.isInfBits n.v.bits = true
    · by_cases h3 : Flt.signBit n.v.bits = true
      · have he : enc (.num n) true = [45, 73, 78, 70] := by rw [enc]; simp [encNum, h1, h2, h3]; decide
        refine Rd_of_scalar _ 45 [73, 78, 70] he (by decide) (by decide) (by decide) (by decide) (fun f rest hd => ?_)
        rw [he]
        simpa [specImg, specNumI, h1, h2, h3] using scalar_neginf f rest
      · have he : enc (.num n) true = [73, 78, 70] := by rw [enc]; simp [encNum, h1, h2, h3]; decide
        refine Rd_of_scalar _ 73 [78, 70] he (by decide) (by decide) (by decide) (by decide) (fun f rest hd => ?_)
        rw [he]
        simpa [specImg, specNumI, h1, h2, h3] using scalar_posinf f rest hd.kwEnd
    · simp only [h2, Bool.false_eq_true, if_false, Bool.false_or] at hn hs
      simp only [finiteNumOk, numTextOk, Bool.and_eq_true] at hn
      obtain ⟨⟨_, hasc, _⟩, hu⟩ := hn
      have he : enc (.num n) true = n.v.txt.map byteOf ++ unitBytes n.unit := by
        rw [enc]
        simp only [encNum, h1, h2, Bool.false_eq_true, if_false]
        cases n.unit <;> simp [unitBytes, encChars_all_ascii hasc]
      obtain ⟨b, t, e, hb⟩ := strict_first hs
      obtain ⟨hst, n1, n2, n3⟩ := start_of_digit hb
      refine Rd_of_scalar _ b (t ++ unitBytes n.unit) (by rw [he, e]; simp) hst n1 n2 n3 (fun f rest hd => ?_)
      rw [he, List.append_assoc, scalar_num_finite f _ hs n.unit hu rest hd, chars_map_byteOf (all_ascii_mem hasc)]
      simp [specImg, specNumI, h1, h2]

theorem rd_coord (a b : Flt) (ha : decTextOk a.txt = true) (hb : decTextOk b.txt = true)
    (hsa : strictText a.txt = true) (hsb : strictText b.txt = true) : Rd (.coord a b) := by
  simp only [decTextOk, Bool.and_eq_true] at ha hb
  have he : enc (.coord a b) true = 67 :: 40 :: (a.txt.map byteOf ++ 44 :: (b.txt.map byteOf ++ [41])) := by
    rw [enc]; simp [encChars_all_ascii ha.1, encChars_all_ascii hb.1]
  refine Rd_of_scalar _ 67 _ he (by decide) (by decide) (by decide) (by decide) (fun f rest _ => ?_)
  rw [he]
  have := scalar_coord f _ _ hsa hsb rest
  simp only [List.cons_append, List.append_assoc, List.nil_append] at this ⊢
  rw [this, chars_map_byteOf (all_ascii_mem ha.1), chars_map_byteOf (all_ascii_mem hb.1)]
  simp [specImg]

theorem rd_date (d : Date) (h : dateOk d = true) : Rd (.date d) := by
  have he : enc (.date d) true = encChars d.txt := by rw [enc]
  have h' := h
  simp only [dateOk, Bool.and_eq_true] at h'
  obtain ⟨hasc, hm⟩ := h'
  split at hm
  · rename_i y0 _ _ _ _ _ _ _ heq
    simp only [Bool.and_eq_true] at hm
    have hy0 : isDigitB y0 = true := hm.1.1.1.1.1.1.1.1
    obtain ⟨hst, n1, n2, n3⟩ := start_of_digit (b := y0) (by simp [hy0])
    refine Rd_of_scalar _ y0 _ (by rw [he, encChars_all_ascii hasc, heq]) hst n1 n2 n3 (fun f rest hd => ?_)
    rw [he]
    simpa [specImg] using scalar_date f d h rest hd
  · simp at hm

theorem rd_time (t : Time) (h : timeOk t = true) : Rd (.time t) := by
  have he : enc (.time t) true = encChars t.txt := by rw [enc]
  have h' := h
  simp only [timeOk, Bool.and_eq_true] at h'
  obtain ⟨hasc, hm⟩ := h'
  split at hm
  · rename_i h0 _ _ _ _ _ _ heq
    simp only [Bool.and_eq_true] at hm
    have hh0 : isDigitB h0 = true := hm.1.1.1.1.1.1
    obtain ⟨hst, n1, n2, n3⟩ := start_of_digit (b := h0) (by simp [hh0])
    refine Rd_of_scalar _ h0 _ (by rw [he, encChars_all_ascii hasc, heq]) hst n1 n2 n3 (fun f rest hd => ?_)
    rw [he]
    simpa [specImg] using scalar_time f t h rest hd
  · simp at hm

theorem rd_datetime (t : DateTime) (h : dtOk t = true) : Rd (.dateTime t) := by
  have he : enc (.dateTime t) true = encDateTime t := by rw [enc]
  have h' := h
  simp only [dtOk, Bool.and_eq_true] at h'
  obtain ⟨hasc, hm⟩ := h'
  unfold dtBytesOk at hm
  split at hm
  · rename_i y0 _ _ _ _ _ _ _ _ _ _ _ _ _ _ heq
    simp only [Bool.and_eq_true] at hm
    have hy0 : isDigitB y0 = true := hm.1.1.1.1.1.1.1.1.1.1.1.1.1.1.1
    obtain ⟨hst, n1, n2, n3⟩ := start_of_digit (b := y0) (by simp [hy0])
    refine Rd_of_scalar _ y0 _ (by rw [he, encDateTime_eq, encChars_all_ascii hasc, heq]) hst n1 n2 n3
      (fun f rest hd => ?_)
    rw [he, scalar_datetime f t h rest hd]
    simp [specImg, dtVal, dtText]
  · simp at hm

end Hs.Spec
