/-
  C01 ladder, rung 4a: the look-ahead at the start of `parse_number_date_time` (`ndtPeeks`), on the explicit
  scanner state `pk b r lp pos k` = "positioned on `b`, `k` bytes of `r` peeked".
-/
import Hs.Model.ZincLex
import Hs.Lemmas.ZincRtScan
namespace Hs.Zinc
open Hs Hs.Scan

/-- the scanner on `b :: r` after `k` successful peeks -/
def pk (b : UInt8) (r : List UInt8) (lp : UInt8) (pos k : Nat) : Scan :=
  { cur := b, stash := r.take k, lastPeek := if k = 0 then lp else (r[k - 1]?).getD 0, eof := false,
    inp := r.drop k, pos := pos }

theorem pk_zero (b : UInt8) (r : List UInt8) (lp : UInt8) (pos : Nat) : pk b r lp pos 0 = Scan.at b r lp pos := by
  simp [pk, Scan.at]

theorem At_pk (b : UInt8) (r : List UInt8) (lp : UInt8) (pos k : Nat) : At (pk b r lp pos k) (b :: r) := by
  simp [At, pk]

theorem pk_stash_length (b : UInt8) (r : List UInt8) (lp : UInt8) (pos k : Nat) (hk : k ≤ r.length) :
    (pk b r lp pos k).stash.length = k := by
  simp [pk]; omega

theorem peek_pk_some (b : UInt8) (r : List UInt8) (lp : UInt8) (pos k : Nat) (x : UInt8) (hx : r[k]? = some x) :
    (pk b r lp pos k).peek = (some x, pk b r lp pos (k + 1)) := by
  have hlt : k < r.length := by
    rw [List.getElem?_eq_some_iff] at hx; exact hx.1
  have hd : r.drop k = x :: r.drop (k + 1) := by
    rw [List.getElem?_eq_some_iff] at hx
    rw [← hx.2]; exact List.drop_eq_getElem_cons hlt
  unfold Scan.peek Scan.readByte
  simp only [pk, hd]
  simp [hx, List.take_add_one]

theorem peek_pk_none (b : UInt8) (r : List UInt8) (lp : UInt8) (pos k : Nat) (hk : r.length ≤ k) :
    (pk b r lp pos k).peek = (none, { pk b r lp pos k with eof := true }) := by
  unfold Scan.peek Scan.readByte
  simp [pk, List.drop_eq_nil_of_le hk]

/-- the bytes `T[0..k)` are digits -/
def DigitsTo (T : List UInt8) (k : Nat) : Prop := ∀ i, i < k → ∃ x, T[i]? = some x ∧ isDigitB x = true

/-- result of the look-ahead: `k'` bytes peeked, all bytes before position `k'` are digits; either no
end of input was hit and `count' - count = k' - k`, or the end of the input was hit (`is_eof` set) -/
theorem ndtPeeks_pk (b : UInt8) (r : List UInt8) (lp : UInt8) (pos : Nat) :
    ∀ (n k count : Nat) (cur : UInt8), k ≤ r.length → (b :: r)[k]? = some cur → DigitsTo (b :: r) k →
    ∃ k' c', k ≤ k' ∧ k' ≤ r.length ∧ k' ≤ k + n ∧ DigitsTo (b :: r) k' ∧
      ((ndtPeeks n cur count (pk b r lp pos k) = (c', pk b r lp pos k') ∧ c' + k = count + k') ∨
       (ndtPeeks n cur count (pk b r lp pos k) = (c', { pk b r lp pos k' with eof := true }) ∧ k' = r.length
          ∧ DigitsTo (b :: r) (k' + 1))) := by
  intro n
  induction n with
  | zero =>
    intro k count cur hk hcur hd
    exact ⟨k, count, Nat.le_refl _, hk, by omega, hd, Or.inl ⟨by simp [ndtPeeks], rfl⟩⟩
  | succ n ih =>
    intro k count cur hk hcur hd
    by_cases hdig : isDigitB cur = true
    · have hd1 : DigitsTo (b :: r) (k + 1) := by
        intro i hi
        by_cases hik : i < k
        · exact hd i hik
        · have : i = k := by omega
          subst this; exact ⟨cur, hcur, hdig⟩
      by_cases hlt : k < r.length
      · -- one more byte can be peeked
        have hx : r[k]? = some r[k] := List.getElem?_eq_getElem hlt
        have hcur' : (b :: r)[k + 1]? = some r[k] := by simp [hx]
        obtain ⟨k', c', h1, h2, h3, h4, h5⟩ := ih (k + 1) (count + 1) r[k] (by omega) hcur' hd1
        refine ⟨k', c', by omega, h2, by omega, h4, ?_⟩
        rw [ndtPeeks]
        simp only [hdig, Bool.not_true, pk, Bool.false_or]
        have hp := peek_pk_some b r lp pos k r[k] hx
        simp only [pk] at hp
        simp only [Bool.false_eq_true, if_false, hp]
        simp only [pk] at h5
        rcases h5 with ⟨e, he⟩ | ⟨e, he⟩
        · exact Or.inl ⟨e, by omega⟩
        · exact Or.inr ⟨e, he⟩
      · -- end of input: `cur` keeps its value, `is_eof` is set
        have hk' : k = r.length := by omega
        refine ⟨k, count + 1, Nat.le_refl _, hk, by omega, hd, Or.inr ⟨?_, hk', hd1⟩⟩
        rw [ndtPeeks]
        have hp := peek_pk_none b r lp pos k (by omega)
        simp only [pk] at hp
        simp only [hdig, Bool.not_true, pk, Bool.false_or, Bool.false_eq_true, if_false, hp]
        cases n with
        | zero => simp [ndtPeeks]
        | succ m => rw [ndtPeeks]; simp
    · refine ⟨k, count, Nat.le_refl _, hk, by omega, hd, Or.inl ⟨?_, rfl⟩⟩
      rw [ndtPeeks]
      simp [hdig]

end Hs.Zinc
