/-
  Hs.Lemmas.ZincTotalLex — C03: every scanner loop and every scalar reader of the Zinc lexer
  * never yields `panic` / `depth`,
  * does not increase the scanner measure `Scan.mu`,
  * does not run out of fuel when `mu s < fuel`.
  One `…_spec` lemma per model function (predicate `Res.Sat`, see `ZincTotalSat`).
-/
import Hs.Lemmas.ZincTotalSat
import Hs.Model.ZincLex
namespace Hs
open Scan

/-! ### scanner loops -/
namespace Scan

theorem consumeSpaces_spec (fuel : Nat) : ∀ s, SS (consumeSpaces fuel s) fuel s := by
  induction fuel with
  | zero => intro s; exact Nat.zero_le _
  | succ n ih =>
    intro s
    rw [consumeSpaces]
    res_auto
    all_goals exact (ih _).tail (by res_arith)

theorem consumeWhiteSpaces_spec (fuel : Nat) : ∀ s, SS (consumeWhiteSpaces fuel s) fuel s := by
  induction fuel with
  | zero => intro s; exact Nat.zero_le _
  | succ n ih =>
    intro s
    rw [consumeWhiteSpaces]
    res_auto
    all_goals exact (ih _).tail (by res_arith)

theorem expectAndConsumeSeq_spec (cs : List UInt8) : ∀ s, SS0 (expectAndConsumeSeq cs s) s := by
  induction cs with
  | nil => intro s; exact Nat.le_refl _
  | cons c rest ih =>
    intro s
    rw [expectAndConsumeSeq]
    res_auto
    all_goals res_from (ih _)

theorem advanceBy_spec (n : Nat) : ∀ s, SS0 (advanceBy n s) s := by
  induction n with
  | zero => intro s; exact Nat.le_refl _
  | succ n ih =>
    intro s
    rw [advanceBy]
    res_auto
    all_goals res_from (ih _)

end Scan

namespace Zinc

/-- proof skeleton shared by the `while !eof && class(cur)` loops -/
syntax "loop_spec " ident : tactic
macro_rules
  | `(tactic| loop_spec $f) => `(tactic|
    (intro fuel
     induction fuel with
     | zero => intro s acc; exact Nat.zero_le _
     | succ n ih =>
       intro s acc
       rw [$f:ident]
       res_auto
       all_goals exact (ih _ _).tail (by res_arith)))

/-! ### ids and literals -/

theorem literalLoop_spec : ∀ fuel s acc, LS (literalLoop fuel s acc) fuel s := by
  loop_spec literalLoop

theorem parseLiteral_spec (fuel : Nat) (s) : LS (parseLiteral fuel s) fuel s := by
  unfold parseLiteral; res_auto

theorem parseId_spec (fuel : Nat) (s) : LS (parseId fuel s) fuel s := by
  unfold parseId; res_auto

/-! ### Str -/

theorem parseUnicodeEscape_spec (s) : LS0 (parseUnicodeEscape s) s := by
  unfold parseUnicodeEscape; res_auto

/-- an escape consumes at least the backslash -/
theorem parseStrEscape_spec (s) : (parseStrEscape s).Sat 1 0 (fun o => o.2.mu < s.mu) := by
  unfold parseStrEscape; res_auto

theorem strLoop_spec : ∀ fuel s acc, LS (strLoop fuel s acc) fuel s := by
  loop_spec strLoop

theorem parseStr_spec (fuel : Nat) (s) : LS (parseStr fuel s) fuel s := by
  unfold parseStr; res_auto

/-! ### Uri -/

theorem uriLoop_spec : ∀ fuel s acc, LS (uriLoop fuel s acc) fuel s := by
  loop_spec uriLoop

theorem parseUri_spec (fuel : Nat) (s) : LS (parseUri fuel s) fuel s := by
  unfold parseUri; res_auto

/-! ### Ref, Symbol -/

theorem refLoop_spec : ∀ fuel s acc, LS (refLoop fuel s acc) fuel s := by
  loop_spec refLoop

theorem parseRef_spec (fuel : Nat) (s) : LS (parseRef fuel s) fuel s := by
  unfold parseRef; res_auto

theorem parseSymbol_spec (fuel : Nat) (s) : LS (parseSymbol fuel s) fuel s := by
  unfold parseSymbol; res_auto

/-! ### Numbers -/

theorem decimalLoop_spec : ∀ fuel s acc, LS (decimalLoop fuel s acc) fuel s := by
  loop_spec decimalLoop

theorem parseDecimal_spec (fuel : Nat) (s) : LS (parseDecimal fuel s) fuel s := by
  unfold parseDecimal; res_auto

theorem unitLoop_spec : ∀ fuel s acc, LS (unitLoop fuel s acc) fuel s := by
  loop_spec unitLoop

theorem parseExponent_spec (fuel : Nat) (s) : LS (parseExponent fuel s) fuel s := by
  unfold parseExponent; res_auto


/-- split a bind-like `match e with …` whose scrutinee `e` is an inline expression reading from scanner
state `s1`: its spec is proved on the spot by `res_auto` -/
syntax "lex_split " term:max term:max : tactic
macro_rules
  | `(tactic| lex_split $fuel $s1) => `(tactic|
    (split <;>
      (rename_i heq
       have hh := Res.Sat.of_eq (fuel := $fuel) (m := Scan.mu $s1) (Q := fun o => Scan.mu o.2 ≤ Scan.mu $s1)
         (by res_auto) heq
       simp only [Res.Sat_ok, Res.Sat_err, Res.Sat_panic, Res.Sat_depth, Res.Sat_diverge] at hh)))

theorem parseNumber_spec (fuel : Nat) (s) : LS (parseNumber fuel s) fuel s := by
  unfold parseNumber
  split <;> (try (rename_i heq; res_fact heq))
  · next _ _ s1 _ =>
    dsimp only
    lex_split fuel s1
    · next _ _ s3 _ _ =>
      lex_split fuel s3
      all_goals res_auto
    all_goals res_auto
  all_goals res_auto

theorem parseNegInf_spec (s) : LS0 (parseNegInf s) s := by
  unfold parseNegInf; res_auto

/-! ### Date, Time, DateTime -/

theorem takeDigits_spec (n : Nat) : ∀ s acc, LS0 (takeDigits n s acc) s := by
  induction n with
  | zero => intro s acc; exact Nat.le_refl _
  | succ n ih =>
    intro s acc
    rw [takeDigits]
    res_auto
    all_goals res_from (ih _ _)

theorem parseDateRaw_spec (s) : LS0 (parseDateRaw s) s := by
  unfold parseDateRaw; res_auto

theorem parseDate_spec (s) : LS0 (parseDate s) s := by
  unfold parseDate; res_auto

theorem fracLoop_spec : ∀ fuel s acc, LS (fracLoop fuel s acc) fuel s := by
  loop_spec fracLoop

theorem parseTimeRaw_spec (fuel : Nat) (s) : LS (parseTimeRaw fuel s) fuel s := by
  unfold parseTimeRaw; res_auto

theorem parseTime_spec (fuel : Nat) (s) : LS (parseTime fuel s) fuel s := by
  unfold parseTime; res_auto

theorem tzNameLoop_spec : ∀ fuel s acc, LS (tzNameLoop fuel s acc) fuel s := by
  loop_spec tzNameLoop

theorem parseTzName_spec (fuel : Nat) (s) : LS (parseTzName fuel s) fuel s := by
  unfold parseTzName; res_auto

theorem parseTimeZone_spec (fuel : Nat) (s) : LS (parseTimeZone fuel s) fuel s := by
  unfold parseTimeZone
  refine Res.Sat.ite_intro (fun hc => ?_) (fun hc => ?_)
  · split
    next p1 s1 hp1 =>
    have h1 := peek_mu hp1
    split
    next both s2 heq2 =>
    have h2 : s2.mu ≤ s1.mu := by
      split at heq2
      · split at heq2
        · next hp => cases heq2; exact peek_mu hp
        · next hp => cases heq2; exact peek_mu hp
      · cases heq2; exact Nat.le_refl _
    res_auto
  · res_auto

theorem parseDateTime_spec (fuel : Nat) (s) : LS (parseDateTime fuel s) fuel s := by
  unfold parseDateTime; res_auto

theorem isPartialDate_spec (s) : LS0 (isPartialDate s) s := by
  unfold isPartialDate; res_auto

theorem ndtPeeks_spec (n : Nat) : ∀ c k s k' s', ndtPeeks n c k s = (k', s') →
    s'.remaining = s.remaining ∧ s'.cur = s.cur ∧ s'.mu ≤ s.mu := by
  induction n with
  | zero => intro c k s k' s' h; simp only [ndtPeeks, Prod.mk.injEq] at h; obtain ⟨-, rfl⟩ := h; simp
  | succ n ih =>
    intro c k s k' s' h
    rw [ndtPeeks] at h
    split at h
    · simp only [Prod.mk.injEq] at h; obtain ⟨-, rfl⟩ := h; simp
    · split at h
      · next v s1 hp =>
        have := ih _ _ _ _ _ h
        have h1 := peek_some hp
        have h2 := peek_mu hp
        refine ⟨by omega, by rw [this.2.1, h1.2.2], by omega⟩
      · next s1 hp =>
        have := ih _ _ _ _ _ h
        have h1 := peek_none hp
        have h2 := peek_mu hp
        refine ⟨by omega, by rw [this.2.1, h1.2.2], by omega⟩

theorem mu_reset (s : Scan) : ({ s with eof := false } : Scan).mu = s.remaining + 1 := by
  simp [mu, remaining]

theorem parseNumberDateTime_spec (fuel : Nat) (s) (he : s.eof = false := by assumption) :
    LS (parseNumberDateTime fuel s) fuel s := by
  unfold parseNumberDateTime
  refine Res.Sat.ite_intro (fun hc => ?_) (fun hc => ?_)
  · res_auto
  · split
    next count s1 hp =>
    have h1 := ndtPeeks_spec _ _ _ _ _ _ hp
    have h0 := mu_not_eof he
    have h2 := mu_reset s1
    refine Res.Sat.ite_intro (fun hc => ?_) (fun hc => ?_)
    · res_from (parseNumber_spec fuel { s1 with eof := false })
    · res_auto

theorem parseXStrBody_spec (fuel : Nat) (name s) : LS (parseXStrBody fuel name s) fuel s := by
  unfold parseXStrBody; res_auto

theorem parseCoordBody_spec (fuel : Nat) (s) : LS (parseCoordBody fuel s) fuel s := by
  unfold parseCoordBody; res_auto


/-! ### Lexer -/

/-- `consume_spaces` on a space makes progress -/
theorem consumeSpaces_strict {n : Nat} {s s' : Scan} (hs : s.isSpace = true) (he : s.eof = false)
    (h : consumeSpaces (n + 1) s = .ok s') : s'.mu < s.mu := by
  rw [consumeSpaces] at h
  simp only [hs, Bool.not_true, Bool.false_eq_true, if_false] at h
  split at h
  · next b s1 hr =>
    have h1 := read_mu_some hr
    have h2 := (consumeSpaces_spec n s1).post h
    omega
  · next s1 hr =>
    cases h
    exact (read_mu_none hr).2.1 he

/-- lexer state after `read`: budget `mu + 1` because of the one re-entry after a run of spaces -/
abbrev XS (r : Res Lex) (fuel : Nat) (s : Scan) : Prop :=
  r.Sat fuel (s.mu + 1) (fun l => l.sc.mu ≤ s.mu)

theorem lexRead_spec : ∀ fuel s, XS (lexRead fuel s) fuel s := by
  intro fuel
  induction fuel with
  | zero => intro s; exact Nat.zero_le _
  | succ n ih =>
    intro s
    rw [lexRead]
    refine Res.Sat.ite_intro (fun he => ?_) (fun he => ?_)
    · exact Nat.le_refl _
    · have he' : s.eof = false := by simpa using he
      dsimp only
      refine Res.Sat.ite_intro (fun hc => ?_) (fun hc => ?_)
      · have hs : s.isSpace = true := by simpa [isSpace] using hc
        split
        · next s' heq =>
          have := consumeSpaces_strict hs he' heq
          res_from (ih s')
        · exact Res.Sat.err_intro
        · next heq => exact ((consumeSpaces_spec _ _).ne_panic heq).elim
        · next heq =>
          have := Res.Sat.of_eq (consumeSpaces_spec _ _) heq
          simp only [Res.Sat_diverge] at this
          refine Res.Sat.diverge_intro ?_; omega
        · next heq => exact ((consumeSpaces_spec _ _).ne_depth heq).elim
      · res_auto

end Zinc
end Hs
