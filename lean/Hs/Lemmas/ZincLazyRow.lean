/-
  C11 (lazy rows), part 2: the lazy row iterator (`RowIterator::next` = `rowNext`) driven one call at a time over
  the row lines the writer prints for a top-level grid.  For every call the lemmas record where the scanner
  stands when the row is handed out: exactly after the first token of the NEXT line (`afterTok`), with an empty
  peek stash — the iterator's `consume_end` has read that one token to decide whether the grid goes on.
-/
import Hs.Lemmas.ZincLazyTok
namespace Hs.Zinc
open Hs Hs.Scan

/-- length of the first token of the line the writer prints for row `r`: the first cell's first token, or the
`,` that follows a missing first cell -/
def rowFirstLen (r : Tags) : List (List Char) → Nat
  | [] => 0
  | n :: _ => match r.get? n with
    | some v => firstTokLen v
    | none => 1

/-- one `lexRead` at the start of a row line stops right after the line's first token -/
theorem rowFirst_at (r : Tags) (names : List (List Char)) (single : Bool) (tl : List UInt8)
    (hne : names ≠ []) (hsingle : names.length = 1 → single = true)
    (hgood : ∀ n v, r.get? n = some v → GoodV v)
    (hpres : single = true → ∀ n ∈ names, r.get? n ≠ none)
    (s : Scan) (f : Nat) (hat : At s (rowBytes r names single ++ 10 :: tl)) (hs : s.stash = [])
    (hf : (rowBytes r names single).length + 3 ≤ f) :
    ∃ p, lexRead f s = .ok p ∧ At p.sc ((rowBytes r names single ++ 10 :: tl).drop (rowFirstLen r names)) ∧
      p.sc.stash = [] ∧ 1 ≤ rowFirstLen r names ∧ rowFirstLen r names ≤ (rowBytes r names single).length := by
  cases names with
  | nil => exact absurd rfl hne
  | cons n ns =>
    cases ns with
    | nil =>
      have hsg : single = true := hsingle rfl
      cases hget : r.get? n with
      | none => exact absurd hget (hpres hsg n (by simp))
      | some v =>
        have hg := hgood n v hget
        obtain ⟨h1, h2⟩ := firstTokLen_le v hg
        simp only [rowBytes, cellBytes, hget, rowFirstLen] at hat hf ⊢
        obtain ⟨p, e, hp⟩ := firstTok_at v hg s (10 :: tl) f hat hs
          (Or.inr (Or.inl ⟨_, _, rfl, by simp⟩)) hf
        have hdrop : List.drop (firstTokLen v) (enc v true ++ 10 :: tl)
            = List.drop (firstTokLen v) (enc v true) ++ 10 :: tl := by
          rw [List.drop_append_of_le_length h2]
        rw [hdrop]
        exact ⟨p, e, hp.1, hp.2 (by simp), h1, h2⟩
    | cons n2 ns2 =>
      cases hget : r.get? n with
      | none =>
        have hsf : single = false := by
          cases single with
          | false => rfl
          | true => exact absurd hget (hpres rfl n (by simp))
        obtain ⟨g, rfl⟩ : ∃ g, f = g + 1 := ⟨f - 1, by omega⟩
        simp only [rowBytes, cellBytes, hget, hsf, Bool.false_eq_true, if_false, List.nil_append, rowFirstLen,
          List.cons_append, List.drop_succ_cons, List.drop_zero, List.length_cons] at hat ⊢
        refine ⟨_, lexRead_special hat (by decide) (by decide) g, hat.advance, ?_, by omega, by omega⟩
        show s.advance.stash = []
        rw [At.advance_stash, hs]; rfl
      | some v =>
        have hg := hgood n v hget
        obtain ⟨h1, h2⟩ := firstTokLen_le v hg
        simp only [rowBytes, cellBytes, hget, rowFirstLen, List.append_assoc, List.cons_append, List.length_append,
          List.length_cons] at hat hf ⊢
        obtain ⟨p, e, hp⟩ := firstTok_at v hg s (44 :: (rowBytes r (n2 :: ns2) single ++ 10 :: tl)) f hat hs
          (Or.inr (Or.inl ⟨_, _, rfl, by simp⟩)) (by omega)
        have hdrop : List.drop (firstTokLen v) (enc v true ++ 44 :: (rowBytes r (n2 :: ns2) single ++ 10 :: tl))
            = List.drop (firstTokLen v) (enc v true) ++ 44 :: (rowBytes r (n2 :: ns2) single ++ 10 :: tl) := by
          rw [List.drop_append_of_le_length h2]
        rw [hdrop]
        exact ⟨p, e, hp.1, hp.2 (by simp), h1, by omega⟩

/-! ### one call of `RowIterator::next` -/

/-- `rowNext` on one row line, up to the `consume_end` that follows the row's newline -/
theorem rowNext_row (names : List (List Char)) (single nested : Bool)
    (hne : names ≠ []) (hsingle : names.length = 1 → single = true) (hnd : names.Nodup) (depth : Nat)
    (r : Tags) (hrow : RowOk r names single) (hdep : depth + nestT r ≤ 64)
    (g f1 : Nat) (sc : Scan) (tl : List UInt8) (hat : At sc (rowBytes r names single ++ 10 :: tl)) (hs : sc.stash = [])
    (hf1 : 4 * (rowBytes r names single).length + 12 ≤ f1) (hg : 4 * (rowBytes r names single).length + 12 ≤ g + 2) :
    ∃ p p2, lexRead f1 sc = .ok p ∧ p.sc.eof = false ∧ PS.isChar p 10 = false ∧ PS.isChar p 62 = false ∧
      p2.tok = .ch 10 ∧ At p2.sc tl ∧ p2.sc.stash = [] ∧
      rowNext (g + 3) depth { p := p, nestedStart := nested, nestedEnd := false } names =
        (match consumeEnd (g + 2) { p := p2, nestedStart := nested, nestedEnd := false } with
          | .ok r3 => .ok (some (lexImgT r), r3)
          | .err => .err | .panic => .panic | .diverge => .diverge | .depth => .depth) := by
  obtain ⟨p, p2, e1, e2, ht2, h2, hs2, hfirst⟩ := rowLoop_rt r names single names 0 hne rfl depth f1 (g + 2) sc []
    tl hrow.cells hdep hat hs hf1 hg
  have hsz : 2 ≤ names.length ∨ single = true := by
    cases names with
    | nil => exact absurd rfl hne
    | cons n ns =>
      cases ns with
      | nil => exact Or.inr (hsingle rfl)
      | cons _ _ => left; simp
  obtain ⟨heof, h10, h62⟩ := hfirst hsz
  have hdict : dictOf (cellsOf r names) = lexImgT r := dictOf_cellsOf r names hnd hrow.sub hrow.sorted
  simp only [List.nil_append] at e2
  refine ⟨p, p2, e1, heof, h10, h62, ht2, h2, hs2, ?_⟩
  rw [rowNext]
  simp only [PS.isEof, heof, Bool.or_false, Bool.false_eq_true, if_false]
  rw [consumeEnd_noop (g + 1) p nested false h10 h62]
  simp only [heof, Bool.or_false, Bool.false_eq_true, if_false, e2, hdict]
  rfl

/-! ### the iterator driven call by call -/

/-- `Hands F depth names st l`: starting from iterator state `st`, successive calls of `rowNext` hand out exactly
the rows listed in `l`, in order, and then report the end; when a row is handed out the scanner is positioned
(`At`) at the text listed with it, and its peek stash is empty. -/
def Hands (F depth : Nat) (names : List (List Char)) : RowState → List (Tags × List UInt8) → Prop
  | st, [] => ∃ st', rowNext F depth st names = .ok (Option.none, st')
  | st, (row, text) :: more =>
    ∃ st', rowNext F depth st names = .ok (some row, st') ∧ At st'.p.sc text ∧ st'.p.sc.stash = [] ∧
      Hands F depth names st' more

/-- the text that remains after the first token of the lines of `rows` followed by the blank line that ends a
top-level grid: nothing when there is no further row (the blank line's newline is the token) -/
def afterTok (names : List (List Char)) (single : Bool) : Rows → List UInt8
  | .nil => []
  | .cons r rs => (rowBytes r names single ++ 10 :: (encRows rs names single ++ [10])).drop (rowFirstLen r names)

/-- what the iterator hands out for `rows`: the image of each row, with the text the scanner is positioned at -/
def rowTrace (names : List (List Char)) (single : Bool) : Rows → List (Tags × List UInt8)
  | .nil => []
  | .cons r rs => (lexImgT r, afterTok names single rs) :: rowTrace names single rs

theorem encRows_length_cons (r : Tags) (rs : Rows) (names : List (List Char)) (single : Bool) :
    (encRows (.cons r rs) names single).length
      = (rowBytes r names single).length + 1 + (encRows rs names single).length := by
  rw [encRows_cons]; simp; omega

/-- **the iterator over one or more row lines of a top-level grid** -/
theorem hands_rows (names : List (List Char)) (single : Bool)
    (hne : names ≠ []) (hsingle : names.length = 1 → single = true) (hnd : names.Nodup) (depth F : Nat) :
    ∀ (r : Tags) (rs : Rows), RowsOk names single (.cons r rs) → GoodR (.cons r rs) →
    depth + nestR (.cons r rs) ≤ 64 → 4 * (encRows (.cons r rs) names single).length + 20 ≤ F →
    ∀ (f1 : Nat) (sc : Scan), At sc (encRows (.cons r rs) names single ++ [10]) → sc.stash = [] →
    4 * (encRows (.cons r rs) names single).length + 18 ≤ f1 →
    ∃ p, lexRead f1 sc = .ok p ∧
      Hands F depth names { p := p, nestedStart := false, nestedEnd := false } (rowTrace names single (.cons r rs))
  | r, rs, hok, hgood, hdep, hF, f1, sc, hat, hs, hf1 => by
    obtain ⟨hrow, hrest⟩ := hok
    simp only [GoodR] at hgood
    simp only [nestR] at hdep
    have hlen := encRows_length_cons r rs names single
    rw [encRows_cons] at hat
    simp only [List.append_assoc, List.cons_append] at hat
    obtain ⟨g, rfl⟩ : ∃ g, F = g + 3 := ⟨F - 3, by omega⟩
    obtain ⟨p, p2, e1, heof, h10, h62, ht2, h2, hs2, hnext⟩ := rowNext_row names single false hne hsingle hnd depth r hrow
      (by omega) g f1 sc (encRows rs names single ++ [10]) hat hs (by omega) (by omega)
    refine ⟨p, e1, ?_⟩
    cases rs with
    | cons r2 rs2 =>
      have hrest' := hrest
      obtain ⟨hrow2, _⟩ := hrest'
      have hnest2 : nestT r2 ≤ nestR (.cons r2 rs2) := by simp only [nestR]; omega
      have hgood2 := hgood.2
      simp only [GoodR] at hgood2
      have hfo : FirstOk (encRows (.cons r2 rs2) names single ++ [10]) := by
        rw [encRows_cons]
        simp only [List.append_assoc, List.cons_append]
        exact firstOk_row r2 names single _ hne hsingle hrow2.first (fun h n hn => (hrow2.cells n hn).2 h)
      have hlen2 := encRows_length_cons r2 rs2 names single
      obtain ⟨q, eq, hq⟩ := hands_rows names single hne hsingle hnd depth (g + 3) r2 rs2 hrest hgood.2 (by omega) (by omega)
        (g + 1) p2.sc h2 hs2 (by omega)
      -- where the scanner stands once the first token of the next line has been read
      have h2' := h2
      rw [encRows_cons] at h2'
      simp only [List.append_assoc, List.cons_append] at h2'
      obtain ⟨q', eq', hatq, hsq, _, _⟩ := rowFirst_at r2 names single (encRows rs2 names single ++ [10]) hne hsingle
        (fun n v hv => (rdCell r2 hgood2.1 n v hv).2) (fun h n hn => (hrow2.cells n hn).2 h) p2.sc (g + 1) h2' hs2 (by omega)
      have hqq : q' = q := by rw [eq] at eq'; cases eq'; rfl
      subst hqq
      -- `>` cannot be the first token of a row line
      have hq62 : PS.isChar q' 62 = false := by
        obtain ⟨p', _, e1', _, _, h62', _⟩ := rowNext_row names single false hne hsingle hnd depth r2 hrow2
          (by omega) g (g + 1) p2.sc (encRows rs2 names single ++ [10]) h2' hs2 (by omega) (by omega)
        rw [eq] at e1'; cases e1'; exact h62'
      refine ⟨{ p := q', nestedStart := false, nestedEnd := false }, ?_, hatq, hsq, hq⟩
      rw [hnext, consumeEnd_next (g + 1) p2 q' false _ ht2 h2 hfo eq hq62]
    | nil =>
      simp only [encRows, List.nil_append] at h2
      refine ⟨{ p := { sc := p2.sc.advance, tok := p2.tok }, nestedStart := false, nestedEnd := false }, ?_, ?_, ?_, ?_⟩
      · rw [hnext, consumeEnd_top (g + 1) p2 ht2 h2]
      · simpa [afterTok] using h2.advance
      · show p2.sc.advance.stash = []
        exact advN_stash_nil 1 _ hs2
      · refine ⟨{ p := { sc := p2.sc.advance, tok := p2.tok }, nestedStart := false, nestedEnd := false }, ?_⟩
        rw [rowNext]
        simp [PS.isEof, h2.advance.eof_nil]

end Hs.Zinc
