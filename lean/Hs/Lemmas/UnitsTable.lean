/-
  Hs.Lemmas.UnitsTable — the facts about the generated unit table that the kernel decides
  (`Hs.Gen.Units`, regenerated on every run; Lake re-uses this module while the generated file is
  byte-identical).  Every check is a single pass over the table or an `n log n` merge sort of `Nat` keys.
-/
import Hs.Lemmas.Units
namespace Hs.Units
open Hs Hs.Gen.Units

set_option maxRecDepth 1000000

/-- sorted by key, the `UNITS` entries and the flattened ids of the unit statics are the same list -/
theorem table_same : msort (keyed entries) = msort (keyed flatIds) := by decide +kernel

/-- … and that list is strictly ascending in the key: no id occurs twice -/
theorem table_asc : strictAsc (msort (keyed entries)) = true := by decide +kernel

theorem tableOK : TableOK entries flatIds := ⟨table_same, table_asc⟩

/-- what the Zinc number reader needs of a unit's symbol (its last id): non-empty, made of unit bytes only,
not starting with a byte of the decimal scan (`_` is both a unit byte and a decimal byte), not an exponent
prefix -/
def symbolOk (u : Row) : Bool :=
  let s := symbolBytes u
  !s.isEmpty && s.all isUnitChar &&
    (match s.head? with
     | some b => !isDecChar b
     | none => true) && !expPrefix s

theorem table_symbols : units.all symbolOk = true := by decide +kernel

/-- no id contains U+FFFD (what lossy UTF-8 decoding produces for invalid bytes) -/
theorem table_no_replacement_char : entries.all (fun e => !e.1.contains (Char.ofNat 0xFFFD)) = true := by
  decide +kernel

end Hs.Units
