/-
  C01 ladder, rung 4b: finite numbers with and without unit, `-INF`.
-/
import Hs.Lemmas.ZincRtNdt
import Hs.Lemmas.ZincRtLex
namespace Hs.Zinc
open Hs Hs.Scan

/-! ### loops -/

/-- the characters of a decimal text: digits, `.`, `-` -/
def isNumB (b : UInt8) : Bool := isDigitB b || b == 46 || b == 45
/-- the class of `parse_decimal`'s loop: the same plus `_` -/
def isDecB (b : UInt8) : Bool := isDigitB b || b == 95 || b == 46 || b == 45

theorem decimalLoop_rt (bs : List UInt8) (hbs : ∀ b ∈ bs, isNumB b = true) :
    ∀ (s : Scan) (rest : List UInt8) (fuel : Nat) (acc : List UInt8), At s (bs ++ rest) → Stop isDecB rest →
    bs.length < fuel → decimalLoop fuel s acc = .ok (acc ++ bs, advN bs.length s) := by
  induction bs with
  | nil =>
    intro s rest fuel acc h hst hf
    obtain ⟨f, rfl⟩ : ∃ f, fuel = f + 1 := ⟨fuel - 1, by omega⟩
    rw [decimalLoop]
    cases rest with
    | nil => simp [At.eof_nil h, advN]
    | cons b r =>
      have := hst b r rfl
      simp only [isDecB, Bool.or_eq_false_iff, beq_eq_false_iff_ne, ne_eq] at this
      simp [h.eof, h.cur, Scan.isDigit, this, advN]
  | cons b bs ih =>
    intro s rest fuel acc h hst hf
    obtain ⟨f, rfl⟩ : ∃ f, fuel = f + 1 := ⟨fuel - 1, by omega⟩
    have hb := hbs b (by simp)
    simp only [List.cons_append] at h
    have hne : b ≠ 95 := by
      intro e; subst e; revert hb; decide
    have hcl : (isDigitB b || b == 95 || b == 46 || b == 45) = true := by
      simp only [isNumB, Bool.or_eq_true] at hb
      simp only [Bool.or_eq_true]
      rcases hb with (hb | hb) | hb
      · exact Or.inl (Or.inl (Or.inl hb))
      · exact Or.inl (Or.inr hb)
      · exact Or.inr hb
    rw [decimalLoop]
    simp only [h.eof, h.cur, Scan.isDigit, Bool.not_false, Bool.true_and, hcl, if_true]
    rw [ih (fun x hx => hbs x (by simp [hx])) s.advance rest f _ h.advance hst (by simpa using hf)]
    simp [advN, hne]

/-- `is_unit_char` on a byte -/
def isUnitB (b : UInt8) : Bool :=
  isLowerB b || isUpperB b || b == 36 || b == 47 || b == 37 || b == 95 || b > 128

theorem isUnitChar_eq (s : Scan) : isUnitChar s = isUnitB s.cur := by
  simp [isUnitChar, isUnitB, Scan.isAlpha, Scan.isLower, Scan.isUpper]

theorem unitLoop_rt (bs : List UInt8) (hbs : ∀ b ∈ bs, isUnitB b = true) :
    ∀ (s : Scan) (rest : List UInt8) (fuel : Nat) (acc : List UInt8), At s (bs ++ rest) → Stop isUnitB rest →
    bs.length < fuel → unitLoop fuel s acc = .ok (acc ++ bs, advN bs.length s) := by
  induction bs with
  | nil =>
    intro s rest fuel acc h hst hf
    obtain ⟨f, rfl⟩ : ∃ f, fuel = f + 1 := ⟨fuel - 1, by omega⟩
    rw [unitLoop]
    cases rest with
    | nil => simp [At.eof_nil h, advN]
    | cons b r =>
      have := hst b r rfl
      simp [h.eof, isUnitChar_eq, h.cur, this, advN]
  | cons b bs ih =>
    intro s rest fuel acc h hst hf
    obtain ⟨f, rfl⟩ : ∃ f, fuel = f + 1 := ⟨fuel - 1, by omega⟩
    have hb := hbs b (by simp)
    simp only [List.cons_append] at h
    rw [unitLoop]
    simp only [h.eof, isUnitChar_eq, h.cur, hb, Bool.not_false, Bool.and_self, if_true]
    rw [ih (fun x hx => hbs x (by simp [hx])) s.advance rest f _ h.advance hst (by simpa using hf)]
    simp [advN]


/-! ### `parseNumber` -/

/-- the unit part of a number: absent, or a symbol of the unit table made of unit characters, not
starting with `_` (which `parse_decimal` would swallow) and not the single letter `e`/`E` (which
`parse_number` takes for an exponent) -/
def unitOk (uo : Option (List Char)) : Bool :=
  match uo with
  | none => true
  | some u =>
    !(encChars u).isEmpty && (encChars u).all isUnitB && (encChars u).head? != some 95
      && (encChars u != [101] && encChars u != [69]) && unitSymbol u == some u

def unitBytes (uo : Option (List Char)) : List UInt8 :=
  match uo with
  | none => []
  | some u => encChars u

theorem delim_stop_dec {rest : List UInt8} (h : Delim rest) : Stop isDecB rest := h.stop (by decide)
theorem delim_stop_unit {rest : List UInt8} (h : Delim rest) : Stop isUnitB rest := h.stop (by decide)

theorem unit_not_dec : ∀ b : UInt8, (!isUnitB b || b == 95 || !isDecB b) = true :=
  all_u8 (fun b => (!isUnitB b || b == 95 || !isDecB b)) (by decide +kernel)
theorem unit_not_expnext : ∀ b : UInt8, (!isUnitB b || (b != 43 && b != 45 && !isDigitB b)) = true :=
  all_u8 (fun b => (!isUnitB b || (b != 43 && b != 45 && !isDigitB b))) (by decide +kernel)

theorem asciiChars_map_byteOf : ∀ {cs : List Char}, (∀ c ∈ cs, c.toNat < 128) → asciiChars (cs.map byteOf) = cs := by
  intro cs
  induction cs with
  | nil => intro _; rfl
  | cons c cs ih =>
    intro h
    simp only [asciiChars, List.map_cons, List.map_map] at ih ⊢
    rw [chr_byteOf c (h c (by simp))]
    congr 1
    exact ih (fun x hx => h x (by simp [hx]))

theorem parseNumber_rt (tb : List UInt8) (htb : ∀ b ∈ tb, isNumB b = true) (hvalid : validDecimal tb = true)
    (uo : Option (List Char)) (hu : unitOk uo = true)
    (s : Scan) (rest : List UInt8) (fuel : Nat) (h : At s (tb ++ (unitBytes uo ++ rest)))
    (hs : s.stash.length ≤ tb.length) (hd : Delim rest) (hf : tb.length + (unitBytes uo).length + 1 ≤ fuel) :
    ∃ s', parseNumber fuel s = .ok (mkNum tb none uo, s') ∧ At s' rest ∧ s'.stash = [] := by
  have hs1 : (advN tb.length s).stash = [] := by
    rw [advN_stash]; exact List.drop_eq_nil_of_le hs
  have h1 : At (advN tb.length s) (unitBytes uo ++ rest) := h.advN
  cases uo with
  | none =>
    simp only [unitBytes, List.nil_append, List.length_nil] at h h1 hf
    refine ⟨advN tb.length s, ?_, h1, hs1⟩
    unfold parseNumber parseDecimal
    rw [decimalLoop_rt tb htb s rest fuel [] h (delim_stop_dec hd) (by omega)]
    simp only [List.nil_append, hvalid, if_true]
    rcases hd with rfl | ⟨b, r, rfl, hb⟩ | ⟨x, r, rfl, _⟩
    · simp [At.eof_nil h1]
    · have hb' : (b == 101 || b == 69) = false ∧ isUnitB b = false := by
        rcases hb with rfl | rfl | rfl | rfl <;> decide
      simp [h1.eof, h1.cur, hb'.1, isUnitChar_eq, hb'.2]
    · simp [h1.eof, h1.cur, isUnitChar_eq, show isUnitB 32 = false by decide]
  | some u =>
    simp only [unitOk, Bool.and_eq_true, Bool.not_eq_eq_eq_not, Bool.not_true, List.isEmpty_eq_false_iff,
      List.all_eq_true, bne_iff_ne, ne_eq, beq_iff_eq] at hu
    obtain ⟨⟨⟨⟨hne, hall⟩, h95⟩, he1, he2⟩, hsym⟩ := hu
    simp only [unitBytes] at h h1 hf
    obtain ⟨b0, ub', hub⟩ : ∃ b0 ub', encChars u = b0 :: ub' := by
      cases hx : encChars u with
      | nil => exact absurd hx hne
      | cons b0 ub' => exact ⟨b0, ub', rfl⟩
    have hb0 : isUnitB b0 = true := hall b0 (by rw [hub]; simp)
    have hb0' : b0 ≠ 95 := by
      intro e; apply h95; rw [hub, e]; rfl
    have hstop : Stop isDecB (encChars u ++ rest) := by
      rw [hub]; apply Stop_cons
      have := unit_not_dec b0
      simp only [hb0, Bool.not_true, Bool.false_or, Bool.or_eq_true, beq_iff_eq, hb0', false_or,
        Bool.not_eq_eq_eq_not] at this
      exact this
    have h2 : At (advN (encChars u).length (advN tb.length s)) rest := h1.advN
    -- facts about the state `s3` handed to the unit loop
    have tailFact : ∀ s3 : Scan, At s3 (encChars u ++ rest) →
        unitLoop fuel s3 [] = .ok (encChars u, advN (encChars u).length s3) ∧ s3.eof = false
          ∧ isUnitChar s3 = true := by
      intro s3 hat3
      have e := unitLoop_rt (encChars u) hall s3 rest fuel [] hat3 (delim_stop_unit hd) (by omega)
      rw [hub] at hat3
      simp only [List.cons_append] at hat3
      exact ⟨by simpa using e, hat3.eof, by rw [isUnitChar_eq, hat3.cur]; exact hb0⟩
    have hlen1 : 1 ≤ (encChars u).length := by rw [hub]; simp
    have h1' := h1
    rw [hub] at h1'
    simp only [List.cons_append] at h1'
    unfold parseNumber parseDecimal
    rw [decimalLoop_rt tb htb s _ fuel [] h hstop (by omega)]
    simp only [List.nil_append, hvalid, if_true]
    by_cases hee : (b0 == 101 || b0 == 69) = true
    · -- the unit starts with `e`/`E`: one byte is peeked past it
      obtain ⟨x, r', hx⟩ : ∃ x r', ub' ++ rest = x :: r' := by
        cases hx : ub' ++ rest with
        | cons x r' => exact ⟨x, r', rfl⟩
        | nil =>
          exfalso
          simp only [List.append_eq_nil_iff] at hx
          rw [hx.1] at hub
          simp only [Bool.or_eq_true, beq_iff_eq] at hee
          rcases hee with rfl | rfl
          · exact he1 hub
          · exact he2 hub
      have h1x := h1'
      rw [hx] at h1x
      obtain ⟨s2, e2, hat2, hs2, _, _⟩ := h1x.peek0' hs1
      have hxn : (x == 43 || x == 45 || isDigitB x) = false := by
        cases ub' with
        | cons y ys =>
          simp only [List.cons_append, List.cons.injEq] at hx
          have hy : isUnitB y = true := hall y (by rw [hub]; simp)
          have := unit_not_expnext y
          rw [← hx.1]
          simp only [hy, Bool.not_true, Bool.false_or, Bool.and_eq_true, bne_iff_ne, ne_eq,
            Bool.not_eq_eq_eq_not] at this
          simp [this.1.1, this.1.2, this.2]
        | nil =>
          simp only [List.nil_append] at hx
          rcases hd with rfl | ⟨b, r, rfl, hb⟩ | ⟨y, r, rfl, _⟩
          · cases hx
          · cases hx; rcases hb with rfl | rfl | rfl | rfl <;> decide
          · cases hx; decide
      have hat3 : At s2 (encChars u ++ rest) := by rw [hub, List.cons_append, hx]; exact hat2
      obtain ⟨t1, t2, t3⟩ := tailFact s2 hat3
      refine ⟨advN (encChars u).length s2, ?_, hat3.advN, ?_⟩
      · simp [h1'.eof, h1'.cur, hee, e2, hxn, t1, t2, t3, lossy_encChars, hsym]
      · rw [advN_stash]; apply List.drop_eq_nil_of_le; omega
    · obtain ⟨t1, t2, t3⟩ := tailFact (advN tb.length s) h1
      refine ⟨advN (encChars u).length (advN tb.length s), ?_, h1.advN, advN_stash_nil _ _ hs1⟩
      simp only [Bool.not_eq_true] at hee
      simp [h1'.eof, h1'.cur, hee, t1, t2, t3, lossy_encChars, hsym]

end Hs.Zinc
