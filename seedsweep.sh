#!/bin/bash
# seedsweep.sh [slots] [regex on the change's name] — runs every seeded (property-breaking) change of /verif/seeded against
# the quick check of its own property (seedtest.sh), in parallel slots; one line per change.  A change that is NOT
# reported ("no violation reported") is a regression of the machinery; "PATCH-DOES-NOT-APPLY" means a later fix in
# /repo touched the same lines.  Results: /tmp/ssweep/<slot>.txt
N=${1:-4}
PAT=${2:-.}
mkdir -p /tmp/ssweep; rm -f /tmp/ssweep/*.txt
ls -d /verif/seeded/*/ | sort | grep -E "$PAT" > /tmp/ssweep/all.lst
for s in $(seq 1 $N); do
  ( i=0; while read d; do i=$((i+1)); [ $(( (i-1) % N + 1 )) -eq $s ] || continue
      id=$(basename $d); prop=${id%%-*}
      r=$(SEED_SLOT=w$s /verif/seedtest.sh $prop $d/patch.diff $prop 2>&1 | grep -E "^==|PATCH-DOES" | cut -c1-240)
      echo "$id $r"
    done < /tmp/ssweep/all.lst > /tmp/ssweep/$s.txt 2>&1 ) &
done
wait
echo "not reported: $(cat /tmp/ssweep/[0-9]*.txt | grep -c 'no violation reported')   do not apply: $(cat /tmp/ssweep/[0-9]*.txt | grep -c PATCH-DOES)   of $(wc -l < /tmp/ssweep/all.lst)"
