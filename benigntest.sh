#!/bin/bash
# benigntest.sh <patch.diff> [slot] — runs, against a behaviour-preserving change applied to a scratch worktree,
# the quick check of every property anchored in a file the change touches; any VIOLATION is a false alarm.
P=$1; SLOT=${2:-}
PROPS=$(python3 /verif/propsfor.py "$P")
[ -z "$PROPS" ] && { echo "no anchored property for $P"; exit 0; }
first=$(echo $PROPS | cut -d' ' -f1)
SEED_SLOT=$SLOT /verif/seedtest.sh $first "$P" $PROPS
